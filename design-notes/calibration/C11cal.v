(* Calibration for C10 + C11 (features): hierarchy queries over the _children bookkeeping agree with the supertype relation.
   Reduced model (no features).  Acyclicity is carried by a ghost rank: rank (supertype t) < rank t. *)
From Coq Require Import List String Arith Lia Bool.
Import ListNotations.
Open Scope string_scope.
Open Scope list_scope.

Definition tname := string.
Record feat := mkF { f_name : string; f_range : tname }.
Definition feat_eqb (a b : feat) : bool := String.eqb (f_name a) (f_name b) && String.eqb (f_range a) (f_range b).
Lemma feat_eqb_eq a b : feat_eqb a b = true <-> a = b.
Proof.
  unfold feat_eqb. rewrite andb_true_iff, !String.eqb_eq. destruct a, b; simpl. split.
  - intros [-> ->]. reflexivity.
  - intros H. inversion H. auto.
Qed.
Definition feat_dec (a b : feat) : {a = b} + {a <> b}.
Proof. destruct (feat_eqb a b) eqn:E; [left; apply feat_eqb_eq; exact E|right; intros H; apply feat_eqb_eq in H; congruence]. Defined.
Record ty := mkTy { t_name : tname; t_super : option tname; t_children : list tname;
                    t_own : list feat;      (* Type._features *)
                    t_inh : list feat;      (* Type._inherited_features *)
                    t_rank : nat (* ghost *) }.
Definition tsys := list ty.
Definition find_ty (ts : tsys) (n : tname) : option ty := find (fun t => String.eqb (t_name t) n) ts.
Definition max_rank (ts : tsys) : nat := fold_right (fun t m => Nat.max (t_rank t) m) 0 ts.

Fixpoint concat_opt {A} (l : list (option (list A))) : option (list A) :=
  match l with
  | [] => Some []
  | None :: _ => None
  | Some x :: r => match concat_opt r with Some y => Some (x ++ y) | None => None end
  end.
(* Type.descendants: yield self, then for each child yield from child.descendants *)
Fixpoint descendants (fuel : nat) (ts : tsys) (n : tname) : option (list tname) :=
  match fuel with
  | O => None
  | S k => match find_ty ts n with
           | None => None
           | Some t => option_map (cons n) (concat_opt (map (descendants k ts) (t_children t)))
           end
  end.
(* Type.subsumes: walk other_type.supertype upwards *)
Fixpoint walks_up (fuel : nat) (ts : tsys) (a b : tname) : option bool :=
  match fuel with
  | O => None
  | S k => if String.eqb a b then Some true else
           match find_ty ts b with
           | None => Some false
           | Some t => match t_super t with None => Some false | Some s => walks_up k ts a s end
           end
  end.

(* specification: d is a, or a proper descendant of a, in the declared supertype relation *)
Inductive below (ts : tsys) (a : tname) : tname -> Prop :=
| below_refl : below ts a a
| below_step d td s : find_ty ts d = Some td -> t_super td = Some s -> below ts a s -> below ts a d.

(* a is a proper ancestor of d *)
Definition sbelow (ts : tsys) (a d : tname) : Prop :=
  exists td s, find_ty ts d = Some td /\ t_super td = Some s /\ below ts a s.

Record WF (ts : tsys) : Prop := {
  wf_nodup : NoDup (map t_name ts);
  wf_super : forall t s, In t ts -> t_super t = Some s -> exists p, find_ty ts s = Some p /\ t_rank p < t_rank t;
  wf_children : forall p c, In p ts ->
      (In c (t_children p) <-> exists tc, find_ty ts c = Some tc /\ t_super tc = Some (t_name p));
  (* C11: the inherited features are exactly the own features of the proper ancestors ... *)
  wf_inh : forall t f, In t ts ->
      (In f (t_inh t) <-> exists a ta, sbelow ts a (t_name t) /\ find_ty ts a = Some ta /\ In f (t_own ta));
  (* ... and no type sees two different definitions under one feature name *)
  wf_one_def : forall t f g, In t ts -> In f (t_own t ++ t_inh t) -> In g (t_own t ++ t_inh t) ->
      f_name f = f_name g -> f = g
}.

Lemma find_ty_In ts n t : find_ty ts n = Some t -> In t ts /\ t_name t = n.
Proof.
  unfold find_ty. intros H. apply find_some in H. destruct H as [H1 H2].
  apply String.eqb_eq in H2. auto.
Qed.
Lemma In_find_ty ts t : NoDup (map t_name ts) -> In t ts -> find_ty ts (t_name t) = Some t.
Proof.
  unfold find_ty. induction ts as [|x r IH]; simpl; intros Hnd Hin; [contradiction|].
  inversion Hnd as [|? ? Hnotin Hnd']; subst.
  destruct Hin as [->|Hin].
  - rewrite String.eqb_refl. reflexivity.
  - destruct (String.eqb (t_name x) (t_name t)) eqn:E.
    + apply String.eqb_eq in E. exfalso. apply Hnotin. rewrite E. apply in_map. exact Hin.
    + apply IH; assumption.
Qed.
Lemma rank_le_max ts t : In t ts -> t_rank t <= max_rank ts.
Proof.
  induction ts as [|x r IH]; simpl; intros H; [contradiction|].
  destruct H as [->|H]; [lia|]. specialize (IH H). lia.
Qed.

Lemma concat_opt_some {A} (f : tname -> option (list A)) cs :
  (forall c, In c cs -> f c <> None) -> concat_opt (map f cs) <> None.
Proof.
  induction cs as [|c r IH]; simpl; intros H; [discriminate|].
  destruct (f c) eqn:E; [|exfalso; apply (H c); auto].
  destruct (concat_opt (map f r)) eqn:E2; [discriminate|].
  exfalso. apply IH; auto.
Qed.
Lemma concat_opt_In {A} (f : tname -> option (list A)) cs l x :
  concat_opt (map f cs) = Some l -> (In x l <-> exists c lc, In c cs /\ f c = Some lc /\ In x lc).
Proof.
  revert l. induction cs as [|c r IH]; simpl; intros l H.
  - inversion H; subst. split; [contradiction|]. intros (c & lc & Hc & _). contradiction.
  - destruct (f c) as [lc|] eqn:E; [|discriminate].
    destruct (concat_opt (map f r)) as [lr|] eqn:E2; [|discriminate].
    inversion H; subst. rewrite in_app_iff. rewrite (IH lr eq_refl). split.
    + intros [Hx|(c' & lc' & Hc' & Hf & Hx)].
      * exists c, lc. auto.
      * exists c', lc'. auto.
    + intros (c' & lc' & [<-|Hc'] & Hf & Hx).
      * left. congruence.
      * right. exists c', lc'. auto.
Qed.

(* termination of the recursive generator: fuel max_rank - rank + 1 is enough (C15, hierarchy part) *)
Lemma descendants_total ts : WF ts -> forall k t, In t ts -> max_rank ts - t_rank t < k ->
  descendants k ts (t_name t) <> None.
Proof.
  intros W. induction k as [|k IH]; intros t Hin Hk; [lia|].
  simpl. rewrite (In_find_ty _ _ (wf_nodup _ W) Hin). 
  assert (Hc : concat_opt (map (descendants k ts) (t_children t)) <> None).
  { apply concat_opt_some. intros c Hcin.
    apply (wf_children _ W t c Hin) in Hcin. destruct Hcin as (tc & Hf & Hs).
    destruct (find_ty_In _ _ _ Hf) as [Htc Hn]. rewrite <- Hn.
    apply IH; [exact Htc|].
    destruct (wf_super _ W tc _ Htc Hs) as (p & Hp & Hlt).
    rewrite (In_find_ty _ _ (wf_nodup _ W) Hin) in Hp. inversion Hp; subst p.
    pose proof (rank_le_max _ _ Htc). lia. }
  destruct (concat_opt (map (descendants k ts) (t_children t))); [discriminate|contradiction].
Qed.

Lemma below_trans_child ts a c d : below ts c d -> forall tc, find_ty ts c = Some tc -> t_super tc = Some a -> below ts a d.
Proof.
  induction 1 as [|d td s Hf Hs Hb IH]; intros tc Hfc Hsc.
  - eapply below_step; [exact Hfc|exact Hsc|apply below_refl].
  - eapply below_step; [exact Hf|exact Hs|]. eapply IH; eassumption.
Qed.

(* soundness and completeness of descendants w.r.t. the supertype relation *)
Lemma descendants_sound ts : WF ts -> forall k a l, descendants k ts a = Some l -> forall d, In d l -> below ts a d.
Proof.
  intros W. induction k as [|k IH]; intros a l H d Hd; [discriminate|].
  simpl in H. destruct (find_ty ts a) as [t|] eqn:Ef; [|discriminate].
  destruct (concat_opt (map (descendants k ts) (t_children t))) as [lc|] eqn:Ec; [|discriminate].
  inversion H; subst l. destruct Hd as [<-|Hd]; [apply below_refl|].
  apply (concat_opt_In _ _ _ _ Ec) in Hd. destruct Hd as (c & lcc & Hc & Hdc & Hx).
  destruct (find_ty_In _ _ _ Ef) as [Hin Hn].
  apply (wf_children _ W t c Hin) in Hc. destruct Hc as (tc & Hfc & Hsc). rewrite Hn in Hsc.
  eapply below_trans_child; [eapply IH; eassumption|exact Hfc|exact Hsc].
Qed.

Lemma descendants_closed ts : WF ts -> forall k a l, descendants k ts a = Some l ->
  forall s d td, In s l -> find_ty ts d = Some td -> t_super td = Some s -> In d l.
Proof.
  intros W. induction k as [|k IH]; intros a l H s d td Hs Hfd Hsd; [discriminate|].
  simpl in H. destruct (find_ty ts a) as [t|] eqn:Ef; [|discriminate].
  destruct (concat_opt (map (descendants k ts) (t_children t))) as [lc|] eqn:Ec; [|discriminate].
  inversion H; subst l. right. apply (concat_opt_In _ _ _ _ Ec).
  destruct (find_ty_In _ _ _ Ef) as [Hin Hn].
  destruct Hs as [<-|Hs].
  - (* d is a child of a: it heads its own sub-list *)
    assert (Hc : In d (t_children t)).
    { apply (wf_children _ W t d Hin). exists td. rewrite Hn. auto. }
    pose proof (concat_opt_some (descendants k ts) (t_children t)) as Hsome.
    destruct (descendants k ts d) as [ld|] eqn:Ed.
    + exists d, ld. repeat split; auto.
      destruct k; [discriminate|]. simpl in Ed. rewrite Hfd in Ed.
      destruct (concat_opt (map (descendants k ts) (t_children td))); inversion Ed. left. reflexivity.
    + exfalso. clear Hsome. revert Ec Hc Ed. clear. revert lc.
      induction (t_children t) as [|c r IHr]; simpl; intros lc Ec Hc Ed; [contradiction|].
      destruct (descendants k ts c) eqn:E1; [|discriminate].
      destruct (concat_opt (map (descendants k ts) r)) eqn:E2; [|discriminate].
      destruct Hc as [->|Hc]; [congruence|]. eapply IHr; eauto.
  - apply (concat_opt_In _ _ _ _ Ec) in Hs. destruct Hs as (c & lcc & Hc & Hdc & Hx).
    exists c, lcc. repeat split; auto. eapply IH; eassumption.
Qed.

Lemma descendants_complete ts : WF ts -> forall k a l, descendants k ts a = Some l -> forall d, below ts a d -> In d l.
Proof.
  intros W k a l H d Hb. induction Hb as [|d td s Hf Hs Hb IH].
  - destruct k; [discriminate|]. simpl in H. destruct (find_ty ts a); [|discriminate].
    destruct (concat_opt _); inversion H. left. reflexivity.
  - eapply descendants_closed; eassumption.
Qed.

Theorem descendants_spec ts a : WF ts -> In a ts ->
  exists l, descendants (S (max_rank ts)) ts (t_name a) = Some l /\ forall d, In d l <-> below ts (t_name a) d.
Proof.
  intros W Hin.
  destruct (descendants (S (max_rank ts)) ts (t_name a)) as [l|] eqn:E.
  - exists l. split; [reflexivity|]. intros d. split.
    + eapply descendants_sound; eassumption.
    + eapply descendants_complete; eassumption.
  - exfalso. eapply (descendants_total ts W (S (max_rank ts)) a Hin); [lia|exact E].
Qed.

(* ---------- Type.subsumes / is_instance_of: the upward walk decides `below` ---------- *)
Lemma below_inv ts a d : below ts a d -> a = d \/ exists td s, find_ty ts d = Some td /\ t_super td = Some s /\ below ts a s.
Proof. intros H. inversion H; subst; [left; reflexivity|right; eauto]. Qed.

Lemma walks_up_spec ts a : WF ts -> forall k b, In b ts -> t_rank b < k ->
  exists r, walks_up k ts a (t_name b) = Some r /\ (r = true <-> below ts a (t_name b)).
Proof.
  intros W. induction k as [|k IH]; intros b Hin Hk; [lia|].
  simpl. destruct (String.eqb a (t_name b)) eqn:E.
  - apply String.eqb_eq in E. subst a. exists true. split; [reflexivity|]. split; [intros _; apply below_refl|reflexivity].
  - apply String.eqb_neq in E. rewrite (In_find_ty _ _ (wf_nodup _ W) Hin).
    destruct (t_super b) as [s|] eqn:Es.
    + destruct (wf_super _ W b s Hin Es) as (p & Hp & Hlt).
      destruct (find_ty_In _ _ _ Hp) as [Hpin Hpn]. subst s.
      destruct (IH p Hpin ltac:(lia)) as (r & Hr & Hiff). exists r. split; [exact Hr|].
      rewrite Hiff. split.
      * intros Hb. eapply below_step; [apply (In_find_ty _ _ (wf_nodup _ W) Hin)|exact Es|exact Hb].
      * intros Hb. apply below_inv in Hb. destruct Hb as [Heq|(td & s & Hf & Hs & Hb)]; [contradiction|].
        rewrite (In_find_ty _ _ (wf_nodup _ W) Hin) in Hf. inversion Hf; subst td. congruence.
    + exists false. split; [reflexivity|]. split; [discriminate|].
      intros Hb. apply below_inv in Hb. destruct Hb as [Heq|(td & s & Hf & Hs & Hb)]; [contradiction|].
      rewrite (In_find_ty _ _ (wf_nodup _ W) Hin) in Hf. inversion Hf; subst td. congruence.
Qed.

(* the two query implementations agree: b is listed among a's descendants iff the walk from b reaches a *)
Theorem descendants_agree_with_subsumes ts a b : WF ts -> In a ts -> In b ts ->
  exists l r, descendants (S (max_rank ts)) ts (t_name a) = Some l /\
              walks_up (S (t_rank b)) ts (t_name a) (t_name b) = Some r /\
              (In (t_name b) l <-> r = true).
Proof.
  intros W Ha Hb.
  destruct (descendants_spec ts a W Ha) as (l & Hl & Hspec).
  destruct (walks_up_spec ts (t_name a) W (S (t_rank b)) b Hb ltac:(lia)) as (r & Hr & Hiff).
  exists l, r. repeat split; auto.
  - intros H. apply Hiff. apply Hspec. exact H.
  - intros H. apply Hspec. apply Hiff. exact H.
Qed.

(* ---------- TypeSystem.create_type preserves the invariant ---------- *)
Definition add_child (sup name : tname) (t : ty) : ty :=
  if String.eqb (t_name t) sup then mkTy (t_name t) (t_super t) (t_children t ++ [name]) (t_own t) (t_inh t) (t_rank t) else t.
Definition create_type (ts : tsys) (name sup : tname) : option tsys :=
  if existsb (fun t => String.eqb (t_name t) name) ts then None          (* "Type with name [..] already exists!" *)
  else match find_ty ts sup with
       | None => None                                                      (* TypeNotFoundError *)
       | Some p => Some (map (add_child sup name) ts ++ [mkTy name (Some sup) [] [] (nodup feat_dec (t_own p ++ t_inh p)) (S (t_rank p))])
       end.

Lemma add_child_name sup name t : t_name (add_child sup name t) = t_name t.
Proof. unfold add_child. destruct (String.eqb (t_name t) sup); reflexivity. Qed.
Lemma add_child_super sup name t : t_super (add_child sup name t) = t_super t.
Proof. unfold add_child. destruct (String.eqb (t_name t) sup); reflexivity. Qed.
Lemma add_child_rank sup name t : t_rank (add_child sup name t) = t_rank t.
Proof. unfold add_child. destruct (String.eqb (t_name t) sup); reflexivity. Qed.
Lemma add_child_own sup name t : t_own (add_child sup name t) = t_own t.
Proof. unfold add_child. destruct (String.eqb (t_name t) sup); reflexivity. Qed.
Lemma add_child_inh sup name t : t_inh (add_child sup name t) = t_inh t.
Proof. unfold add_child. destruct (String.eqb (t_name t) sup); reflexivity. Qed.
Lemma map_names sup name ts : map t_name (map (add_child sup name) ts) = map t_name ts.
Proof. rewrite map_map. apply map_ext. intros t. apply add_child_name. Qed.

Lemma existsb_name_false ts name : existsb (fun t => String.eqb (t_name t) name) ts = false -> ~ In name (map t_name ts).
Proof.
  intros H Hin. apply in_map_iff in Hin. destruct Hin as (t & Hn & Hin).
  assert (existsb (fun t => String.eqb (t_name t) name) ts = true).
  { apply existsb_exists. exists t. split; [exact Hin|]. apply String.eqb_eq. exact Hn. }
  congruence.
Qed.

Lemma find_app_new ts (new : ty) n :
  find_ty (ts ++ [new]) n = match find_ty ts n with Some t => Some t | None => if String.eqb (t_name new) n then Some new else None end.
Proof.
  unfold find_ty. induction ts as [|x r IH]; simpl; [reflexivity|].
  destruct (String.eqb (t_name x) n); [reflexivity|exact IH].
Qed.
Lemma find_map_add_child ts sup name n :
  find_ty (map (add_child sup name) ts) n = option_map (add_child sup name) (find_ty ts n).
Proof.
  unfold find_ty. induction ts as [|x r IH]; simpl; [reflexivity|].
  rewrite add_child_name. destruct (String.eqb (t_name x) n); [reflexivity|exact IH].
Qed.
Lemma find_ty_none ts n : ~ In n (map t_name ts) -> find_ty ts n = None.
Proof.
  unfold find_ty. induction ts as [|x r IH]; simpl; intros H; [reflexivity|].
  destruct (String.eqb (t_name x) n) eqn:E.
  - apply String.eqb_eq in E. exfalso. apply H. left. exact E.
  - apply IH. intros Hin. apply H. right. exact Hin.
Qed.

(* ---- how `below` moves between two type systems that agree on supertypes ---- *)
Lemma below_transfer ts ts' :
  (forall n t, find_ty ts n = Some t -> exists t', find_ty ts' n = Some t' /\ t_super t' = t_super t) ->
  forall a d, below ts a d -> below ts' a d.
Proof.
  intros Hagree a d H. induction H as [|d td s Hf Hs Hb IH]; [apply below_refl|].
  destruct (Hagree d td Hf) as (t' & Hf' & Hs'). eapply below_step; [exact Hf'|rewrite Hs'; exact Hs|exact IH].
Qed.
Lemma below_registered ts a d : WF ts -> below ts a d -> find_ty ts d <> None -> find_ty ts a <> None.
Proof.
  intros W H. induction H as [|d td s Hf Hs Hb IH]; intros Hd; [exact Hd|].
  apply IH. destruct (find_ty_In _ _ _ Hf) as [Hin _].
  destruct (wf_super _ W td s Hin Hs) as (p & Hp & _). rewrite Hp. discriminate.
Qed.
Lemma below_back ts ts' name : WF ts -> find_ty ts name = None ->
  (forall n t', n <> name -> find_ty ts' n = Some t' -> exists t, find_ty ts n = Some t /\ t_super t = t_super t') ->
  forall a d, below ts' a d -> d <> name -> below ts a d.
Proof.
  intros W Hfresh Hagree a d H. induction H as [|d td' s Hf' Hs' Hb IH]; intros Hd; [apply below_refl|].
  destruct (Hagree d td' Hd Hf') as (t & Hf & Hs). rewrite Hs' in Hs.
  eapply below_step; [exact Hf|exact Hs|]. apply IH.
  destruct (find_ty_In _ _ _ Hf) as [Hin _]. destruct (wf_super _ W t s Hin Hs) as (p & Hp & _).
  intros ->. congruence.
Qed.
Lemma sbelow_below ts a d : sbelow ts a d -> below ts a d.
Proof. intros (td & s & Hf & Hs & Hb). eapply below_step; eassumption. Qed.
Lemma below_cases ts a d : below ts a d -> a = d \/ sbelow ts a d.
Proof. intros H. inversion H; subst; [left; reflexivity|right; unfold sbelow; eauto]. Qed.

Lemma NoDup_app_one {A} (l : list A) x : NoDup l -> ~ In x l -> NoDup (l ++ [x]).
Proof.
  induction 1 as [|a r Hn Hnd IH]; simpl; intros Hx; [constructor; [intros []|constructor]|].
  constructor.
  - rewrite in_app_iff. intros [H|[H|[]]]; [contradiction|]. apply Hx. left. symmetry. exact H.
  - apply IH. intros H. apply Hx. right. exact H.
Qed.

Theorem create_type_WF ts name sup ts' : WF ts -> create_type ts name sup = Some ts' -> WF ts'.
Proof.
  intros W Hc. unfold create_type in Hc.
  destruct (existsb (fun t => String.eqb (t_name t) name) ts) eqn:Ex; [discriminate|].
  destruct (find_ty ts sup) as [p|] eqn:Ep; [|discriminate]. inversion Hc; subst ts'; clear Hc.
  pose proof (existsb_name_false _ _ Ex) as Hfresh.
  destruct (find_ty_In _ _ _ Ep) as [Hpin Hpn].
  set (new := mkTy name (Some sup) [] [] (nodup feat_dec (t_own p ++ t_inh p)) (S (t_rank p))).
  (* lookup in the new type system *)
  assert (Hfind : forall n, find_ty (map (add_child sup name) ts ++ [new]) n =
            match find_ty ts n with Some t => Some (add_child sup name t) | None => if String.eqb name n then Some new else None end).
  { intros n. rewrite find_app_new, find_map_add_child. destruct (find_ty ts n); reflexivity. }
  constructor.
  - (* names stay distinct *)
    rewrite map_app, map_names. simpl. apply NoDup_app_one; [apply (wf_nodup _ W)|exact Hfresh].
  - (* supertypes registered with smaller rank *)
    intros t s Hin Hs. apply in_app_or in Hin. destruct Hin as [Hin|[<-|[]]].
    + apply in_map_iff in Hin. destruct Hin as (t0 & <- & Hin0). rewrite add_child_super in Hs. rewrite add_child_rank.
      destruct (wf_super _ W t0 s Hin0 Hs) as (q & Hq & Hlt).
      exists (add_child sup name q). rewrite Hfind, Hq. rewrite add_child_rank. auto.
    + simpl in Hs. inversion Hs; subst s. exists (add_child sup name p). rewrite Hfind, Ep. rewrite add_child_rank. simpl. auto.
  - (* children bookkeeping *)
    intros q c Hin. apply in_app_or in Hin. destruct Hin as [Hin|[<-|[]]].
    + apply in_map_iff in Hin. destruct Hin as (q0 & <- & Hin0). rewrite add_child_name.
      assert (Hold : In c (t_children q0) <-> exists tc, find_ty ts c = Some tc /\ t_super tc = Some (t_name q0)) by (apply (wf_children _ W); exact Hin0).
      unfold add_child at 1. destruct (String.eqb (t_name q0) sup) eqn:E.
      * apply String.eqb_eq in E. simpl. rewrite in_app_iff. split.
        -- intros [Hc|[<-|[]]].
           ++ apply Hold in Hc. destruct Hc as (tc & Hf & Hs). exists (add_child sup name tc). rewrite Hfind, Hf, add_child_super. auto.
           ++ exists new. rewrite Hfind. rewrite (find_ty_none _ _ Hfresh), String.eqb_refl. simpl. rewrite E. auto.
        -- intros (tc & Hf & Hs). rewrite Hfind in Hf. destruct (find_ty ts c) as [t0|] eqn:E0.
           ++ inversion Hf; subst tc. rewrite add_child_super in Hs. left. apply Hold. eauto.
           ++ destruct (String.eqb name c) eqn:E1; [|discriminate]. apply String.eqb_eq in E1. right. left. exact E1.
      * apply String.eqb_neq in E. split.
        -- intros Hc. apply Hold in Hc. destruct Hc as (tc & Hf & Hs). exists (add_child sup name tc). rewrite Hfind, Hf, add_child_super. auto.
        -- intros (tc & Hf & Hs). rewrite Hfind in Hf. destruct (find_ty ts c) as [t0|] eqn:E0.
           ++ inversion Hf; subst tc. rewrite add_child_super in Hs. apply Hold. eauto.
           ++ destruct (String.eqb name c) eqn:E1; [|discriminate]. inversion Hf; subst tc. simpl in Hs. congruence.
    + (* the new type has no children: nobody names it as supertype yet *)
      simpl. split; [contradiction|]. intros (tc & Hf & Hs). rewrite Hfind in Hf.
      destruct (find_ty ts c) as [t0|] eqn:E0.
      * inversion Hf; subst tc. rewrite add_child_super in Hs.
        destruct (find_ty_In _ _ _ E0) as [Hin0 _].
        destruct (wf_super _ W t0 name Hin0 Hs) as (q & Hq & _).
        rewrite (find_ty_none _ _ Hfresh) in Hq. discriminate.
      * destruct (String.eqb name c) eqn:E1; [|discriminate]. inversion Hf; subst tc. simpl in Hs.
        injection Hs as Heq. rewrite Heq in Ep. rewrite (find_ty_none _ _ Hfresh) in Ep. discriminate.
  - (* inherited = own features of the proper ancestors *)
    pose proof (find_ty_none _ _ Hfresh) as Hnone.
    assert (Hfwd : forall n t, find_ty ts n = Some t ->
              exists t', find_ty (map (add_child sup name) ts ++ [new]) n = Some t' /\ t_super t' = t_super t).
    { intros n t Hn. exists (add_child sup name t). rewrite Hfind, Hn. split; [reflexivity|apply add_child_super]. }
    assert (Hbwd : forall n t', n <> name -> find_ty (map (add_child sup name) ts ++ [new]) n = Some t' ->
              exists t, find_ty ts n = Some t /\ t_super t = t_super t').
    { intros n t' Hn Hf'. rewrite Hfind in Hf'. destruct (find_ty ts n) as [t|] eqn:En.
      - inversion Hf'; subst t'. exists t. split; [reflexivity|symmetry; apply add_child_super].
      - destruct (String.eqb name n) eqn:E; [apply String.eqb_eq in E; congruence|discriminate]. }
    assert (Hsup_ne : sup <> name) by (intros ->; congruence).
    (* proper ancestors of an existing type are the same in both type systems *)
    assert (Hsb : forall a d, find_ty ts d <> None ->
              (sbelow (map (add_child sup name) ts ++ [new]) a d <-> sbelow ts a d)).
    { intros a d Hd. destruct (find_ty ts d) as [td|] eqn:Ed; [clear Hd|congruence]. split.
      - intros (td' & s & Hf' & Hs' & Hb'). rewrite Hfind, Ed in Hf'. inversion Hf'; subst td'. rewrite add_child_super in Hs'.
        exists td, s. repeat split; auto.
        eapply below_back; [exact W|exact Hnone|exact Hbwd|exact Hb'|].
        destruct (find_ty_In _ _ _ Ed) as [Hin _]. destruct (wf_super _ W td s Hin Hs') as (q & Hq & _). intros ->. congruence.
      - intros (td0 & s & Hf0 & Hs0 & Hb0). rewrite Ed in Hf0. inversion Hf0; subst td0.
        exists (add_child sup name td), s. rewrite Hfind, Ed, add_child_super. repeat split; auto.
        eapply below_transfer; [exact Hfwd|exact Hb0]. }
    (* an ancestor of an existing type exists already, so its own features are unchanged *)
    assert (Hown : forall a ta' d, find_ty ts d <> None -> sbelow ts a d ->
              find_ty (map (add_child sup name) ts ++ [new]) a = Some ta' ->
              exists ta, find_ty ts a = Some ta /\ t_own ta' = t_own ta).
    { intros a ta' d Hd Hs Ha'. pose proof (below_registered ts a d W (sbelow_below _ _ _ Hs) Hd) as Hreg.
      rewrite Hfind in Ha'. destruct (find_ty ts a) as [ta|] eqn:Ea; [|congruence].
      inversion Ha'; subst ta'. exists ta. split; [reflexivity|apply add_child_own]. }
    intros t f Hin. apply in_app_or in Hin. destruct Hin as [Hin|[<-|[]]].
    + apply in_map_iff in Hin. destruct Hin as (t0 & <- & Hin0). rewrite add_child_inh, add_child_name.
      assert (Hd : find_ty ts (t_name t0) <> None) by (rewrite (In_find_ty _ _ (wf_nodup _ W) Hin0); discriminate).
      rewrite (wf_inh _ W t0 f Hin0). split.
      * intros (a & ta & Hs & Ha & Hf). exists a, (add_child sup name ta).
        rewrite Hfind, Ha, add_child_own. repeat split; auto. apply Hsb; assumption.
      * intros (a & ta' & Hs & Ha' & Hf). apply Hsb in Hs; [|exact Hd].
        destruct (Hown a ta' _ Hd Hs Ha') as (ta & Ha & Heq). exists a, ta. rewrite <- Heq. auto.
    + (* the new type inherits what its supertype offers *)
      change (t_inh new) with (nodup feat_dec (t_own p ++ t_inh p)). change (t_name new) with name.
      rewrite nodup_In, in_app_iff.
      assert (Hpd : find_ty ts sup <> None) by (rewrite Ep; discriminate).
      assert (Hnew : forall a, sbelow (map (add_child sup name) ts ++ [new]) a name <-> below ts a sup).
      { intros a. split.
        - intros (td' & s & Hf' & Hs' & Hb'). rewrite Hfind, Hnone, String.eqb_refl in Hf'. inversion Hf'; subst td'.
          cbn [t_super] in Hs'. inversion Hs'; subst s.
          eapply below_back; [exact W|exact Hnone|exact Hbwd|exact Hb'|exact Hsup_ne].
        - intros Hb. exists new, sup. rewrite Hfind, Hnone, String.eqb_refl. repeat split; auto.
          eapply below_transfer; [exact Hfwd|exact Hb]. }
      split.
      * intros [Hf|Hf].
        -- exists sup, (add_child sup name p). rewrite Hfind, Ep, add_child_own. repeat split; auto.
           apply Hnew. apply below_refl.
        -- apply (wf_inh _ W p f Hpin) in Hf. destruct Hf as (a & ta & Hs & Ha & Hf). rewrite Hpn in Hs.
           exists a, (add_child sup name ta). rewrite Hfind, Ha, add_child_own. repeat split; auto.
           apply Hnew. apply sbelow_below. exact Hs.
      * intros (a & ta' & Hs & Ha' & Hf). apply Hnew in Hs.
        destruct (below_cases _ _ _ Hs) as [->|Hs'].
        -- rewrite Hfind, Ep in Ha'. inversion Ha'; subst ta'. rewrite add_child_own in Hf. left. exact Hf.
        -- destruct (Hown a ta' sup Hpd Hs' Ha') as (ta & Ha & Heq). right.
           apply (wf_inh _ W p f Hpin). exists a, ta. rewrite Hpn, <- Heq. auto.
  - (* one definition per name *)
    intros t f g Hin Hf Hg Hn. apply in_app_or in Hin. destruct Hin as [Hin|[<-|[]]].
    + apply in_map_iff in Hin. destruct Hin as (t0 & <- & Hin0).
      rewrite add_child_own, add_child_inh in Hf, Hg. eapply (wf_one_def _ W t0); eassumption.
    + change (t_own new ++ t_inh new) with (nodup feat_dec (t_own p ++ t_inh p)) in Hf, Hg.
      rewrite nodup_In in Hf, Hg. eapply (wf_one_def _ W p); eassumption.
Qed.

(* ---------- Type._add_feature (repaired): checks, then the feature reaches every type below the domain ---------- *)
Definition is_below (ts : tsys) (a d : tname) : bool :=
  match find_ty ts d with
  | Some td => match walks_up (S (t_rank td)) ts a d with Some true => true | _ => false end
  | None => false
  end.
Lemma is_below_spec ts a d td : WF ts -> find_ty ts d = Some td -> (is_below ts a d = true <-> below ts a d).
Proof.
  intros W Hf. unfold is_below. rewrite Hf. destruct (find_ty_In _ _ _ Hf) as [Hin Hn].
  destruct (walks_up_spec ts a W (S (t_rank td)) td Hin ltac:(lia)) as (r & Hr & Hiff).
  rewrite Hn in Hr, Hiff. rewrite Hr. destruct r.
  - split; [intros _; apply Hiff; reflexivity|reflexivity].
  - split; [discriminate|]. intros Hb. apply Hiff in Hb. discriminate.
Qed.

Definition named (n : string) (g : feat) : bool := String.eqb (f_name g) n.
Definition conflicts (l : list feat) (f : feat) : bool := existsb (fun g => named (f_name f) g && negb (feat_eqb g f)) l.
Definition has_feat (l : list feat) (f : feat) : bool := existsb (feat_eqb f) l.
Definition with_own (f : feat) (t : ty) : ty := mkTy (t_name t) (t_super t) (t_children t) (t_own t ++ [f]) (t_inh t) (t_rank t).
Definition with_inh (f : feat) (t : ty) : ty := mkTy (t_name t) (t_super t) (t_children t) (t_own t) (t_inh t ++ [f]) (t_rank t).
Definition spread (ts : tsys) (dom : tname) (f : feat) (d : ty) : ty :=
  if String.eqb (t_name d) dom then with_own f d
  else if is_below ts dom (t_name d) && negb (has_feat (t_inh d) f) then with_inh f d
  else d.
Inductive outcome := Added (ts : tsys) | Unchanged | Raises.
Definition add_feature (ts : tsys) (dom : tname) (f : feat) : outcome :=
  match find_ty ts dom with
  | None => Raises
  | Some t =>
    match find (named (f_name f)) (t_own t) with
    | Some g => if feat_eqb g f then Unchanged else Raises        (* "already exists ... redefined differently" *)
    | None =>
      match find (named (f_name f)) (t_inh t) with
      | Some g => if feat_eqb g f then Unchanged else Raises      (* "already exists in parent ... redefined" *)
      | None =>
        if existsb (fun d => is_below ts dom (t_name d) && conflicts (t_own d) f) ts
        then Raises                                               (* a subtype defines it differently: nothing is changed *)
        else Added (map (spread ts dom f) ts)
      end
    end
  end.

Lemma spread_name ts dom f d : t_name (spread ts dom f d) = t_name d.
Proof. unfold spread. destruct (String.eqb _ _); [reflexivity|]. destruct (_ && _); reflexivity. Qed.
Lemma spread_super ts dom f d : t_super (spread ts dom f d) = t_super d.
Proof. unfold spread. destruct (String.eqb _ _); [reflexivity|]. destruct (_ && _); reflexivity. Qed.
Lemma spread_children ts dom f d : t_children (spread ts dom f d) = t_children d.
Proof. unfold spread. destruct (String.eqb _ _); [reflexivity|]. destruct (_ && _); reflexivity. Qed.
Lemma spread_rank ts dom f d : t_rank (spread ts dom f d) = t_rank d.
Proof. unfold spread. destruct (String.eqb _ _); [reflexivity|]. destruct (_ && _); reflexivity. Qed.
Lemma find_map_spread ts0 ts dom f n : find_ty (map (spread ts0 dom f) ts) n = option_map (spread ts0 dom f) (find_ty ts n).
Proof.
  unfold find_ty. induction ts as [|x r IH]; simpl; [reflexivity|].
  rewrite spread_name. destruct (String.eqb (t_name x) n); [reflexivity|exact IH].
Qed.

(* `below` only looks at names and supertypes, which spreading a feature does not touch *)
Lemma below_spread ts dom f a d : below (map (spread ts dom f) ts) a d <-> below ts a d.
Proof.
  split.
  - intros H. induction H as [|d td' s Hf' Hs' Hb IH]; [apply below_refl|].
    rewrite find_map_spread in Hf'. destruct (find_ty ts d) as [td|] eqn:E; [|discriminate].
    inversion Hf'; subst td'. rewrite spread_super in Hs'. eapply below_step; eassumption.
  - apply below_transfer. intros n t Hn. exists (spread ts dom f t). rewrite find_map_spread, Hn. split; [reflexivity|apply spread_super].
Qed.
Lemma sbelow_spread ts dom f a d : sbelow (map (spread ts dom f) ts) a d <-> sbelow ts a d.
Proof.
  unfold sbelow. split.
  - intros (td' & s & Hf' & Hs' & Hb). rewrite find_map_spread in Hf'. destruct (find_ty ts d) as [td|] eqn:E; [|discriminate].
    inversion Hf'; subst td'. rewrite spread_super in Hs'. exists td, s. repeat split; auto. apply below_spread in Hb. exact Hb.
  - intros (td & s & Hf & Hs & Hb). exists (spread ts dom f td), s. rewrite find_map_spread, Hf, spread_super. repeat split; auto.
    apply below_spread. exact Hb.
Qed.

(* ranks strictly decrease towards the root, hence nobody is its own proper ancestor and ancestor chains are linear *)
Lemma below_rank ts a d ta td : WF ts -> below ts a d -> find_ty ts a = Some ta -> find_ty ts d = Some td -> t_rank ta <= t_rank td.
Proof.
  intros W H. revert ta td. induction H as [|d td0 s Hf Hs Hb IH]; intros ta td Ha Hd.
  - rewrite Ha in Hd. inversion Hd. lia.
  - rewrite Hf in Hd. inversion Hd; subst td0. destruct (find_ty_In _ _ _ Hf) as [Hin _].
    destruct (wf_super _ W td s Hin Hs) as (p & Hp & Hlt). specialize (IH ta p Ha Hp). lia.
Qed.
Lemma sbelow_neq ts a d : WF ts -> sbelow ts a d -> a <> d.
Proof.
  intros W (td & s & Hf & Hs & Hb) ->. destruct (find_ty_In _ _ _ Hf) as [Hin _].
  destruct (wf_super _ W td s Hin Hs) as (p & Hp & Hlt).
  pose proof (below_rank ts d s td p W Hb Hf Hp). lia.
Qed.
Lemma chain_linear ts a b d : below ts a d -> below ts b d -> below ts a b \/ below ts b a.
Proof.
  intros Ha. revert b. induction Ha as [|d td s Hf Hs Hb IH]; intros b Hbd; [right; exact Hbd|].
  destruct (below_cases _ _ _ Hbd) as [->|(td' & s' & Hf' & Hs' & Hb')].
  - left. eapply below_step; eassumption.
  - rewrite Hf in Hf'. inversion Hf'; subst td'. rewrite Hs in Hs'. inversion Hs'; subst s'. apply IH. exact Hb'.
Qed.
Lemma below_trans ts a b d : below ts a b -> below ts b d -> below ts a d.
Proof. intros Hab Hbd. induction Hbd as [|d td s Hf Hs Hb IH]; [exact Hab|]. eapply below_step; eauto. Qed.

Lemma find_named_none l n : find (named n) l = None -> forall g, In g l -> f_name g <> n.
Proof.
  intros H g Hg Hn. pose proof (find_none _ _ H g Hg) as Hx. unfold named in Hx. rewrite Hn, String.eqb_refl in Hx. discriminate.
Qed.
Lemma has_feat_In l f : has_feat l f = true <-> In f l.
Proof.
  unfold has_feat. rewrite existsb_exists. split.
  - intros (g & Hg & He). apply feat_eqb_eq in He. subst. exact Hg.
  - intros H. exists f. split; [exact H|apply feat_eqb_eq; reflexivity].
Qed.
Lemma conflicts_false l f : conflicts l f = false -> forall g, In g l -> f_name g = f_name f -> g = f.
Proof.
  intros H g Hg Hn. unfold conflicts in H.
  assert (Hx : (named (f_name f) g && negb (feat_eqb g f)) = false).
  { destruct (named (f_name f) g && negb (feat_eqb g f)) eqn:E; [|reflexivity].
    assert (existsb (fun g0 => named (f_name f) g0 && negb (feat_eqb g0 f)) l = true) by (apply existsb_exists; eauto). congruence. }
  unfold named in Hx. rewrite Hn, String.eqb_refl in Hx. simpl in Hx. apply negb_false_iff in Hx. apply feat_eqb_eq. exact Hx.
Qed.

Lemma own_spread ts dom f ta g :
  In g (t_own (spread ts dom f ta)) <-> In g (t_own ta) \/ (t_name ta = dom /\ g = f).
Proof.
  unfold spread. destruct (String.eqb (t_name ta) dom) eqn:E.
  - apply String.eqb_eq in E. cbn [with_own t_own]. rewrite in_app_iff. simpl. split.
    + intros [H|[H|[]]]; [left; exact H|right; split; [exact E|symmetry; exact H]].
    + intros [H|[_ H]]; [left; exact H|right; left; symmetry; exact H].
  - apply String.eqb_neq in E. destruct (_ && _); cbn [with_inh t_own]; split; try (intros H; left; exact H);
      intros [H|[H _]]; try exact H; contradiction.
Qed.
Lemma inh_spread ts dom f t0 g :
  In g (t_inh (spread ts dom f t0)) <->
  In g (t_inh t0) \/ (t_name t0 <> dom /\ is_below ts dom (t_name t0) = true /\ g = f).
Proof.
  unfold spread. destruct (String.eqb (t_name t0) dom) eqn:E.
  - apply String.eqb_eq in E. cbn [with_own t_inh]. split; [intros H; left; exact H|].
    intros [H|(Hn & _)]; [exact H|contradiction].
  - apply String.eqb_neq in E. destruct (is_below ts dom (t_name t0)) eqn:Eb; cbn [andb].
    + destruct (has_feat (t_inh t0) f) eqn:Eh; cbn [negb].
      * apply has_feat_In in Eh. split; [intros H; left; exact H|]. intros [H|(_ & _ & ->)]; [exact H|exact Eh].
      * cbn [with_inh t_inh]. rewrite in_app_iff. simpl. split.
        -- intros [H|[H|[]]]; [left; exact H|right; repeat split; auto].
        -- intros [H|(_ & _ & H)]; [left; exact H|right; left; symmetry; exact H].
    + split; [intros H; left; exact H|]. intros [H|(_ & H & _)]; [exact H|discriminate].
Qed.

Theorem add_feature_WF ts dom f ts' : WF ts -> add_feature ts dom f = Added ts' -> WF ts'.
Proof.
  intros W H. unfold add_feature in H.
  destruct (find_ty ts dom) as [t|] eqn:Et; [|discriminate].
  destruct (find (named (f_name f)) (t_own t)) as [g0|] eqn:Eo; [destruct (feat_eqb g0 f); discriminate|].
  destruct (find (named (f_name f)) (t_inh t)) as [g0|] eqn:Ei; [destruct (feat_eqb g0 f); discriminate|].
  destruct (existsb (fun d => is_below ts dom (t_name d) && conflicts (t_own d) f) ts) eqn:Ec; [discriminate|].
  inversion H; subst ts'; clear H.
  destruct (find_ty_In _ _ _ Et) as [Htin Htn].
  pose proof (find_named_none _ _ Eo) as Hown_free. pose proof (find_named_none _ _ Ei) as Hinh_free.
  (* the pre-check: no type below the domain defines the name differently *)
  assert (Hpre : forall d, In d ts -> below ts dom (t_name d) -> forall g, In g (t_own d) -> f_name g = f_name f -> g = f).
  { intros d Hd Hb g Hg Hn.
    assert (Hx : (is_below ts dom (t_name d) && conflicts (t_own d) f) = false).
    { destruct (is_below ts dom (t_name d) && conflicts (t_own d) f) eqn:E; [|reflexivity].
      assert (existsb (fun d0 => is_below ts dom (t_name d0) && conflicts (t_own d0) f) ts = true) by (apply existsb_exists; eauto).
      congruence. }
    apply (is_below_spec ts dom (t_name d) d W (In_find_ty _ _ (wf_nodup _ W) Hd)) in Hb. rewrite Hb in Hx. cbn [andb] in Hx.
    eapply conflicts_false; eassumption. }
  (* strictly below the domain  =  below it and different from it *)
  assert (Hstrict : forall d, In d ts -> (t_name d <> dom /\ is_below ts dom (t_name d) = true) <-> sbelow ts dom (t_name d)).
  { intros d Hd. rewrite (is_below_spec ts dom (t_name d) d W (In_find_ty _ _ (wf_nodup _ W) Hd)). split.
    - intros [Hn Hb]. destruct (below_cases _ _ _ Hb) as [Heq|Hs]; [exfalso; apply Hn; symmetry; exact Heq|exact Hs].
    - intros Hs. split; [intros E; apply (sbelow_neq _ _ _ W Hs); symmetry; exact E|apply sbelow_below; exact Hs]. }
  constructor.
  - rewrite map_map. erewrite map_ext; [apply (wf_nodup _ W)|]. intros a. apply spread_name.
  - intros t' s Hin Hs. apply in_map_iff in Hin. destruct Hin as (t0 & <- & Hin0). rewrite spread_super in Hs. rewrite spread_rank.
    destruct (wf_super _ W t0 s Hin0 Hs) as (p & Hp & Hlt). exists (spread ts dom f p).
    rewrite find_map_spread, Hp, spread_rank. auto.
  - intros p c Hin. apply in_map_iff in Hin. destruct Hin as (p0 & <- & Hin0). rewrite spread_children, spread_name.
    rewrite (wf_children _ W p0 c Hin0). split.
    + intros (tc & Hf & Hs). exists (spread ts dom f tc). rewrite find_map_spread, Hf, spread_super. auto.
    + intros (tc' & Hf' & Hs'). rewrite find_map_spread in Hf'. destruct (find_ty ts c) as [tc|]; [|discriminate].
      inversion Hf'; subst tc'. rewrite spread_super in Hs'. eauto.
  - (* inherited = own features of the proper ancestors, after the feature has spread *)
    intros t' g Hin. apply in_map_iff in Hin. destruct Hin as (t0 & <- & Hin0). rewrite spread_name.
    rewrite inh_spread. rewrite (wf_inh _ W t0 g Hin0). split.
    + intros [(a & ta & Hs & Ha & Hg)|(Hn & Hb & ->)].
      * exists a, (spread ts dom f ta). rewrite find_map_spread, Ha. repeat split; auto.
        -- apply (proj2 (sbelow_spread ts dom f a (t_name t0))). exact Hs.
        -- apply own_spread. left. exact Hg.
      * exists dom, (spread ts dom f t). rewrite find_map_spread, Et. repeat split; auto.
        -- apply (proj2 (sbelow_spread ts dom f dom (t_name t0))). apply (proj1 (Hstrict t0 Hin0)). split; assumption.
        -- apply own_spread. right. auto.
    + intros (a & ta' & Hs & Ha' & Hg). apply (proj1 (sbelow_spread ts dom f a (t_name t0))) in Hs.
      rewrite find_map_spread in Ha'. destruct (find_ty ts a) as [ta|] eqn:Ea; [|discriminate]. inversion Ha'; subst ta'.
      apply own_spread in Hg. destruct Hg as [Hg|[Hn ->]].
      * left. exists a, ta. split; [exact Hs|split; [exact Ea|exact Hg]].
      * right. destruct (find_ty_In _ _ _ Ea) as [_ Hna]. rewrite Hn in Hna. subst a.
        destruct (proj2 (Hstrict t0 Hin0) Hs) as [H1 H2]. split; [exact H1|split; [exact H2|reflexivity]].
  - (* one definition per name *)
    assert (Hcases : forall t0 x, In t0 ts -> In x (t_own (spread ts dom f t0) ++ t_inh (spread ts dom f t0)) ->
              In x (t_own t0 ++ t_inh t0) \/ (x = f /\ below ts dom (t_name t0))).
    { intros t0 x Hin0 Hx. apply in_app_or in Hx. destruct Hx as [Hx|Hx].
      - apply own_spread in Hx. destruct Hx as [Hx|[Hn ->]]; [left; apply in_or_app; left; exact Hx|].
        right. split; [reflexivity|]. rewrite Hn. apply below_refl.
      - apply inh_spread in Hx. destruct Hx as [Hx|(Hn & Hb & ->)]; [left; apply in_or_app; right; exact Hx|].
        right. split; [reflexivity|]. apply (is_below_spec ts dom (t_name t0) t0 W (In_find_ty _ _ (wf_nodup _ W) Hin0)). exact Hb. }
    (* an old feature with the new feature's name, seen from a type below the domain, is the new feature *)
    assert (Hold : forall t0 x, In t0 ts -> below ts dom (t_name t0) -> In x (t_own t0 ++ t_inh t0) -> f_name x = f_name f -> x = f).
    { intros t0 x Hin0 Hb Hx Hn. apply in_app_or in Hx. destruct Hx as [Hx|Hx].
      - destruct (below_cases _ _ _ Hb) as [Heq|Hs].
        + (* t0 is the domain itself *)
          rewrite (In_find_ty _ _ (wf_nodup _ W) Hin0) in Et || idtac.
          assert (t0 = t). { rewrite Heq in Et. rewrite (In_find_ty _ _ (wf_nodup _ W) Hin0) in Et. inversion Et. reflexivity. }
          subst t0. exfalso. apply (Hown_free x Hx). exact Hn.
        + eapply Hpre; eassumption.
      - apply (wf_inh _ W t0 x Hin0) in Hx. destruct Hx as (a & ta & Hs & Ha & Hg).
        destruct (find_ty_In _ _ _ Ha) as [Hain Han].
        destruct (chain_linear ts a dom (t_name t0) (sbelow_below _ _ _ Hs) Hb) as [Hadom|Hdoma].
        * (* a is the domain or above it *)
          destruct (below_cases _ _ _ Hadom) as [->|Hs'].
          -- rewrite Et in Ha. inversion Ha; subst ta. exfalso. apply (Hown_free x Hg). exact Hn.
          -- exfalso. apply (Hinh_free x); [|exact Hn]. apply (wf_inh _ W t x Htin). exists a, ta. rewrite Htn. auto.
        * (* a is below the domain: the pre-check speaks about it *)
          rewrite <- Han in Hdoma. eapply (Hpre ta); eassumption. }
    intros t' x y Hin Hx Hy Hn. apply in_map_iff in Hin. destruct Hin as (t0 & <- & Hin0).
    destruct (Hcases t0 x Hin0 Hx) as [Hx'|[-> Hbx]]; destruct (Hcases t0 y Hin0 Hy) as [Hy'|[-> Hby]].
    + eapply (wf_one_def _ W t0); eassumption.
    + eapply Hold; eassumption.
    + symmetry. eapply Hold; try eassumption. symmetry. exact Hn.
    + reflexivity.
Qed.

(* what the property says, read off the invariant: the effective features of a type are its own plus those of all
   its ancestors, and a name never has two definitions - at every point of every history *)
Definition effective (t : ty) : list feat := nodup feat_dec (t_own t ++ t_inh t).     (* Type.all_features *)
Theorem effective_features_spec ts t f : WF ts -> In t ts ->
  (In f (effective t) <-> exists a ta, below ts a (t_name t) /\ find_ty ts a = Some ta /\ In f (t_own ta)).
Proof.
  intros W Hin. unfold effective. rewrite nodup_In, in_app_iff, (wf_inh _ W t f Hin). split.
  - intros [H|(a & ta & Hs & Ha & Hf)].
    + exists (t_name t), t. repeat split; [apply below_refl|apply (In_find_ty _ _ (wf_nodup _ W) Hin)|exact H].
    + exists a, ta. repeat split; auto. apply sbelow_below. exact Hs.
  - intros (a & ta & Hb & Ha & Hf). destruct (below_cases _ _ _ Hb) as [->|Hs].
    + rewrite (In_find_ty _ _ (wf_nodup _ W) Hin) in Ha. inversion Ha; subst ta. left. exact Hf.
    + right. exists a, ta. auto.
Qed.

(* a different definition under the same name is refused whichever of ancestor and descendant came first *)
Lemma feat_eqb_false a b : a <> b -> feat_eqb a b = false.
Proof. intros H. destruct (feat_eqb a b) eqn:E; [apply feat_eqb_eq in E; contradiction|reflexivity]. Qed.

Theorem conflict_descendant_first ts dom t d g f : WF ts -> find_ty ts dom = Some t -> In d ts -> below ts dom (t_name d) ->
  In g (t_own d) -> f_name g = f_name f -> g <> f -> add_feature ts dom f = Raises.
Proof.
  intros W Et Hd Hb Hg Hn Hne. destruct (find_ty_In _ _ _ Et) as [Htin Htn].
  (* if the domain already offered f (own or inherited), d would see both f and g *)
  assert (Hsee : In f (t_own t ++ t_inh t) -> False).
  { intros Hf. apply Hne. apply (wf_one_def _ W d); [exact Hd|apply in_or_app; left; exact Hg| |exact Hn].
    destruct (below_cases _ _ _ Hb) as [Heq|Hs].
    - assert (d = t). { rewrite Heq in Et. rewrite (In_find_ty _ _ (wf_nodup _ W) Hd) in Et. inversion Et. reflexivity. }
      subst d. exact Hf.
    - apply in_or_app. right. apply (wf_inh _ W d f Hd). apply in_app_or in Hf. destruct Hf as [Hf|Hf].
      + exists dom, t. auto.
      + apply (wf_inh _ W t f Htin) in Hf. destruct Hf as (a & ta & Hsa & Ha & Hfa). rewrite Htn in Hsa.
        exists a, ta. repeat split; auto.
        destruct Hs as (td & s & Hfd & Hsd & Hbd). exists td, s. repeat split; auto.
        eapply below_trans; [apply sbelow_below; exact Hsa|exact Hbd]. }
  unfold add_feature. rewrite Et.
  destruct (find (named (f_name f)) (t_own t)) as [g0|] eqn:Eo.
  - destruct (feat_eqb g0 f) eqn:E; [|reflexivity]. apply feat_eqb_eq in E. subst g0.
    exfalso. apply Hsee. apply in_or_app. left. apply (find_some _ _ Eo).
  - destruct (find (named (f_name f)) (t_inh t)) as [g0|] eqn:Ei.
    + destruct (feat_eqb g0 f) eqn:E; [|reflexivity]. apply feat_eqb_eq in E. subst g0.
      exfalso. apply Hsee. apply in_or_app. right. apply (find_some _ _ Ei).
    + assert (Hex : existsb (fun d0 => is_below ts dom (t_name d0) && conflicts (t_own d0) f) ts = true).
      { apply existsb_exists. exists d. split; [exact Hd|].
        rewrite (proj2 (is_below_spec ts dom (t_name d) d W (In_find_ty _ _ (wf_nodup _ W) Hd)) Hb). cbn [andb].
        unfold conflicts. apply existsb_exists. exists g. split; [exact Hg|].
        unfold named. rewrite Hn, String.eqb_refl, (feat_eqb_false _ _ Hne). reflexivity. }
      rewrite Hex. reflexivity.
Qed.

Theorem conflict_ancestor_first ts d td f g : WF ts -> find_ty ts d = Some td -> In f (t_own td ++ t_inh td) ->
  f_name g = f_name f -> g <> f -> add_feature ts d g = Raises.
Proof.
  intros W Ed Hf Hn Hne. destruct (find_ty_In _ _ _ Ed) as [Hdin _].
  assert (Hsame : forall x, In x (t_own td ++ t_inh td) -> named (f_name g) x = true -> x = f).
  { intros x Hx Hnx. unfold named in Hnx. apply String.eqb_eq in Hnx. apply (wf_one_def _ W td); auto. congruence. }
  unfold add_feature. rewrite Ed.
  destruct (find (named (f_name g)) (t_own td)) as [x|] eqn:Eo.
  - destruct (find_some _ _ Eo) as [Hx Hnx]. rewrite (Hsame x (in_or_app _ _ _ (or_introl Hx)) Hnx).
    rewrite (feat_eqb_false f g (fun E => Hne (eq_sym E))). reflexivity.
  - destruct (find (named (f_name g)) (t_inh td)) as [x|] eqn:Ei.
    + destruct (find_some _ _ Ei) as [Hx Hnx]. rewrite (Hsame x (in_or_app _ _ _ (or_intror Hx)) Hnx).
      rewrite (feat_eqb_false f g (fun E => Hne (eq_sym E))). reflexivity.
    + exfalso. apply in_app_or in Hf. destruct Hf as [Hf|Hf].
      * apply (find_named_none _ _ Eo f Hf). symmetry. exact Hn.
      * apply (find_named_none _ _ Ei f Hf). symmetry. exact Hn.
Qed.

(* ---------- every reachable type system: any sequence of create_type from the root ---------- *)
Definition init : tsys := [mkTy "uima.cas.TOP" None [] [] [] 0].
Lemma init_WF : WF init.
Proof.
  constructor.
  - simpl. constructor; [intros []|constructor].
  - intros t s [<-|[]] Hs. simpl in Hs. discriminate Hs.
  - intros p c [<-|[]]. cbn [t_children t_name]. split; [contradiction|].
    intros (tc & Hf & Hs). unfold find_ty, init in Hf. cbn [find t_name] in Hf.
    destruct (String.eqb "uima.cas.TOP" c); [|discriminate Hf]. inversion Hf; subst tc. cbn [t_super] in Hs. discriminate Hs.
  - intros t f [<-|[]]. cbn [t_inh t_name]. split; [contradiction|].
    intros (a & ta & (td & s & Hf & Hs & _) & _). unfold find_ty, init in Hf. cbn [find t_name] in Hf.
    rewrite String.eqb_refl in Hf. inversion Hf; subst td. cbn [t_super] in Hs. discriminate Hs.
  - intros t f g [<-|[]] Hf. cbn [t_own t_inh app] in Hf. contradiction.
Qed.
(* a failing create_type (duplicate name, unknown supertype) raises and leaves the type system as it was *)
Inductive op := CreateType (name sup : tname) | CreateFeature (dom : tname) (f : feat).
Definition step (ts : tsys) (o : op) : tsys :=
  match o with
  | CreateType name sup => match create_type ts name sup with Some ts' => ts' | None => ts end
  | CreateFeature dom f => match add_feature ts dom f with Added ts' => ts' | _ => ts end
  end.
Theorem reachable_WF (ops : list op) : WF (fold_left step ops init).
Proof.
  assert (G : forall ts, WF ts -> WF (fold_left step ops ts)).
  { induction ops as [|o r IH]; simpl; intros ts W; [exact W|].
    apply IH. destruct o as [name sup|dom f]; simpl.
    - destruct (create_type ts name sup) eqn:E; [eapply create_type_WF; eassumption|exact W].
    - destruct (add_feature ts dom f) eqn:E; try exact W. eapply add_feature_WF; eassumption. }
  apply G. apply init_WF.
Qed.
(* the premises are met by a non-trivial state, and the queries compute on it *)
Example three_levels :
  let ts := fold_left step [CreateType "a.A" "uima.cas.TOP"; CreateType "a.B" "a.A"; CreateType "a.C" "a.B"; CreateType "a.D" "a.A";
                            CreateType "a.A" "uima.cas.TOP"; CreateType "a.X" "no.Such";
                            CreateFeature "a.C" (mkF "f" "uima.cas.String");      (* descendant first *)
                            CreateFeature "a.A" (mkF "f" "uima.cas.Integer");     (* refused: a.C defines f differently *)
                            CreateFeature "a.A" (mkF "g" "uima.cas.Integer");     (* reaches B, C, D *)
                            CreateType "a.E" "a.C"] init in                       (* created afterwards: inherits f and g *)
  descendants (S (max_rank ts)) ts "a.A" = Some ["a.A"; "a.B"; "a.C"; "a.E"; "a.D"] /\ walks_up 4 ts "a.B" "a.C" = Some true /\ walks_up 4 ts "a.D" "a.C" = Some false
  /\ map (fun n => option_map (fun t => map f_name (effective t)) (find_ty ts n)) ["a.A"; "a.B"; "a.C"; "a.D"; "a.E"]
     = [Some ["g"]; Some ["g"]; Some ["f"; "g"]; Some ["g"]; Some ["f"; "g"]].
Proof. vm_compute. repeat split. Qed.

Print Assumptions descendants_spec.
Print Assumptions descendants_agree_with_subsumes.
Print Assumptions create_type_WF.
Print Assumptions reachable_WF.
Print Assumptions add_feature_WF.
Print Assumptions effective_features_spec.
Print Assumptions conflict_descendant_first.
Print Assumptions conflict_ancestor_first.
