(* Calibration proof for C03: the two dictionaries built by Utf16CodepointOffsetConverter.create_offset_mapping
   and the lookups with KeyError pass-through, against an independent definition of UTF-16 length. *)
From Coq Require Import List ZArith NArith Lia Bool ZifyBool.
Import ListNotations.
Open Scope Z_scope.

Definition text := list N.
Definition u16size (c : N) : Z := if (c <? 65536)%N then 1 else 2.       (* len(c.encode("utf-16-le")) // 2 *)
(* [0] + list(itertools.accumulate(sizes)) *)
Fixpoint accumulate (acc : Z) (t : text) : list Z :=
  acc :: match t with [] => [] | c :: r => accumulate (acc + u16size c) r end.
Fixpoint zrange (i : Z) (n : nat) : list Z := match n with O => [] | S k => i :: zrange (i + 1) k end.
(* dict(zip(keys, values)): a later binding of the same key wins *)
Fixpoint lookup_last (k : Z) (l : list (Z * Z)) : option Z :=
  match l with
  | [] => None
  | (k', v) :: r => match lookup_last k r with Some w => Some w | None => if k =? k' then Some v else None end
  end.
Record conv := mkConv { py2ext_tbl : list (Z * Z); ext2py_tbl : list (Z * Z) }.
Definition mk_conv (t : text) : conv :=
  let acc := accumulate 0 t in let idx := zrange 0 (length acc) in mkConv (combine idx acc) (combine acc idx).
Definition py2ext (c : conv) (i : Z) : Z := match lookup_last i (py2ext_tbl c) with Some j => j | None => i end.
Definition ext2py (c : conv) (j : Z) : Z := match lookup_last j (ext2py_tbl c) with Some i => i | None => j end.

(* independent specification *)
Definition utf16_len (t : text) : Z := fold_right (fun c a => u16size c + a) 0 t.

Lemma u16size_pos c : 1 <= u16size c <= 2.
Proof. unfold u16size. destruct (c <? 65536)%N; lia. Qed.
Lemma utf16_len_nonneg t : 0 <= utf16_len t.
Proof. induction t as [|c r IH]; simpl; [lia|]. pose proof (u16size_pos c). lia. Qed.

Lemma accumulate_length a t : length (accumulate a t) = S (length t).
Proof. revert a. induction t as [|c r IH]; intros a; simpl; [reflexivity|]. rewrite IH. reflexivity. Qed.

(* the i-th accumulated size is a + utf16 length of the first i code points *)
Lemma accumulate_nth a t i : (i <= length t)%nat ->
  nth i (accumulate a t) 0 = a + utf16_len (firstn i t).
Proof.
  revert a i. induction t as [|c r IH]; intros a i Hi; simpl in *.
  - assert (i = 0%nat) by lia. subst. simpl. lia.
  - destruct i as [|i]; simpl; [lia|]. rewrite IH by lia. lia.
Qed.

(* strictly increasing *)
Lemma accumulate_lt a t i j : (i < j)%nat -> (j <= length t)%nat ->
  nth i (accumulate a t) 0 < nth j (accumulate a t) 0.
Proof.
  revert a i j. induction t as [|c r IH]; intros a i j Hij Hj; simpl in *; [lia|].
  destruct j as [|j]; [lia|]. destruct i as [|i].
  - simpl. rewrite accumulate_nth by lia. pose proof (utf16_len_nonneg (firstn j r)). pose proof (u16size_pos c). lia.
  - simpl. apply IH; lia.
Qed.

(* lookups in zip(range, values): keys are distinct, so "last wins" is plain indexing *)
Lemma lookup_range_none (vals : list Z) s k : (k < s \/ s + Z.of_nat (length vals) <= k) ->
  lookup_last k (combine (zrange s (length vals)) vals) = None.
Proof.
  revert s. induction vals as [|v r IH]; intros s H; simpl in *; [reflexivity|].
  rewrite IH by lia. destruct (k =? s) eqn:E; [lia|reflexivity].
Qed.

Lemma lookup_range_vals (vals : list Z) s i : (i < length vals)%nat ->
  lookup_last (s + Z.of_nat i) (combine (zrange s (length vals)) vals) = Some (nth i vals 0).
Proof.
  revert s i. induction vals as [|v r IH]; intros s i Hi; simpl in *; [lia|].
  destruct i as [|i].
  - replace (s + Z.of_nat 0) with s by lia.
    rewrite lookup_range_none by lia. rewrite Z.eqb_refl. reflexivity.
  - replace (s + Z.of_nat (S i)) with ((s + 1) + Z.of_nat i) by lia.
    rewrite IH by lia. reflexivity.
Qed.

Theorem py2ext_is_utf16_prefix_len t i : 0 <= i <= Z.of_nat (length t) ->
  py2ext (mk_conv t) i = utf16_len (firstn (Z.to_nat i) t).
Proof.
  intros Hi. unfold py2ext, mk_conv. cbn [py2ext_tbl].
  pose proof (lookup_range_vals (accumulate 0 t) 0 (Z.to_nat i)) as H.
  assert (Hlen : (Z.to_nat i < length (accumulate 0 t))%nat) by (rewrite accumulate_length; lia).
  specialize (H Hlen). replace (0 + Z.of_nat (Z.to_nat i)) with i in H by lia. rewrite H.
  rewrite accumulate_nth by lia. lia.
Qed.

Theorem py2ext_out_of_range_passthrough t i : (i < 0 \/ Z.of_nat (length t) < i) -> py2ext (mk_conv t) i = i.
Proof.
  intros Hi. unfold py2ext, mk_conv. cbn [py2ext_tbl].
  rewrite lookup_range_none; [reflexivity|]. rewrite accumulate_length. lia.
Qed.

Theorem py2ext_strict_mono t i j : 0 <= i < j -> j <= Z.of_nat (length t) ->
  py2ext (mk_conv t) i < py2ext (mk_conv t) j.
Proof.
  intros Hij Hj. rewrite !py2ext_is_utf16_prefix_len by lia.
  pose proof (accumulate_lt 0 t (Z.to_nat i) (Z.to_nat j) ltac:(lia) ltac:(lia)) as H.
  rewrite !accumulate_nth in H by lia. lia.
Qed.

Lemma firstn_In_In {A} (l : list A) n x : In x (firstn n l) -> In x l.
Proof.
  revert n. induction l as [|a r IH]; intros [|n] H; simpl in *; try contradiction.
  destruct H as [H|H]; [left; exact H|right; eapply IH; exact H].
Qed.

Lemma utf16_len_bmp t : Forall (fun c => (c < 65536)%N) t -> utf16_len t = Z.of_nat (length t).
Proof.
  induction 1 as [|c r Hc Hr IH]; simpl; [reflexivity|]. rewrite IH. unfold u16size.
  destruct (c <? 65536)%N eqn:E; lia.
Qed.

Theorem py2ext_bmp_identity t i : Forall (fun c => (c < 65536)%N) t -> 0 <= i <= Z.of_nat (length t) ->
  py2ext (mk_conv t) i = i.
Proof.
  intros Hb Hi. rewrite py2ext_is_utf16_prefix_len by lia.
  rewrite utf16_len_bmp.
  - rewrite firstn_length. lia.
  - rewrite Forall_forall in *. intros c Hc. apply Hb. eapply firstn_In_In. exact Hc.
Qed.

(* ---- the other dictionary: zip(accumulated, range); keys strictly increasing, so again no key collides ---- *)
Lemma lookup_vals_range (keys : list Z) s i :
  (forall a b, (a < b < length keys)%nat -> nth a keys 0 < nth b keys 0) -> (i < length keys)%nat ->
  lookup_last (nth i keys 0) (combine keys (zrange s (length keys))) = Some (s + Z.of_nat i).
Proof.
  revert s i. induction keys as [|k r IH]; intros s i Hinc Hi; simpl in *; [lia|].
  assert (Hr : forall a b, (a < b < length r)%nat -> nth a r 0 < nth b r 0).
  { intros a b Hab. apply (Hinc (S a) (S b)). lia. }
  destruct i as [|i].
  - assert (Hnone : forall s0, lookup_last k (combine r (zrange s0 (length r))) = None).
    { assert (Hgt : forall a, (a < length r)%nat -> k < nth a r 0) by (intros a Ha; apply (Hinc 0%nat (S a)); lia).
      clear -Hgt. induction r as [|x r IHr]; intros s0; simpl; [reflexivity|].
      rewrite IHr by (intros a Ha; apply (Hgt (S a)); simpl; lia).
      pose proof (Hgt 0%nat ltac:(simpl; lia)) as H0. simpl in H0. destruct (k =? x) eqn:E; [lia|reflexivity]. }
    rewrite Hnone. rewrite Z.eqb_refl. f_equal. lia.
  - rewrite IH by (auto; lia). f_equal. lia.
Qed.

Lemma lookup_vals_none (keys : list Z) s j : ~ In j keys -> lookup_last j (combine keys (zrange s (length keys))) = None.
Proof.
  revert s. induction keys as [|k r IH]; intros s Hn; simpl in *; [reflexivity|].
  rewrite IH by tauto. destruct (j =? k) eqn:E; [exfalso; apply Hn; left; lia|reflexivity].
Qed.

Theorem ext2py_py2ext t i : 0 <= i <= Z.of_nat (length t) -> ext2py (mk_conv t) (py2ext (mk_conv t) i) = i.
Proof.
  intros Hi. rewrite py2ext_is_utf16_prefix_len by lia.
  unfold ext2py, mk_conv. cbn [ext2py_tbl].
  pose proof (lookup_vals_range (accumulate 0 t) 0 (Z.to_nat i)) as H.
  rewrite accumulate_nth in H by lia. replace (0 + utf16_len (firstn (Z.to_nat i) t)) with (utf16_len (firstn (Z.to_nat i) t)) in H by lia.
  rewrite H.
  - lia.
  - intros a b Hab. rewrite accumulate_length in Hab. apply accumulate_lt; lia.
  - rewrite accumulate_length. lia.
Qed.

(* an external offset that is not the image of a code-point boundary is passed through unchanged *)
Theorem ext2py_non_boundary_passthrough t j :
  (forall i, 0 <= i <= Z.of_nat (length t) -> py2ext (mk_conv t) i <> j) -> ext2py (mk_conv t) j = j.
Proof.
  intros Hno. unfold ext2py, mk_conv. cbn [ext2py_tbl].
  rewrite lookup_vals_none; [reflexivity|].
  intros Hin. apply (In_nth _ _ 0) in Hin. destruct Hin as [n [Hn Hj]]. rewrite accumulate_length in Hn.
  apply (Hno (Z.of_nat n)); [lia|]. rewrite py2ext_is_utf16_prefix_len by lia.
  rewrite accumulate_nth in Hj by lia. rewrite Nat2Z.id. lia.
Qed.

Print Assumptions py2ext_is_utf16_prefix_len.
Print Assumptions py2ext_strict_mono.
Print Assumptions py2ext_bmp_identity.
Print Assumptions ext2py_py2ext.
Print Assumptions ext2py_non_boundary_passthrough.
Example astral_example : map (py2ext (mk_conv [97; 128512; 98; 65536; 99]%N)) [0; 1; 2; 3; 4; 5; 6] = [0; 1; 3; 4; 6; 7; 6].
Proof. vm_compute. reflexivity. Qed.
