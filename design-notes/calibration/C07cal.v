(* Calibration proof for C07: the repaired window [bisect_key_left((b,b)), bisect_key_left((e+1,))) followed by the
   filter returns exactly the covered annotations of a sorted, well-formed per-type index. *)
From Coq Require Import List ZArith Lia Bool ZifyBool Sorting.Sorted.
Import ListNotations.
Open Scope Z_scope.

Record key := mkKey { kb : Z; ke : Z; ko : Z }.
(* Python tuple order on (begin, end, id) *)
Definition key_le (a b : key) : Prop :=
  kb a < kb b \/ (kb a = kb b /\ (ke a < ke b \/ (ke a = ke b /\ ko a <= ko b))).
(* key < (x, y)   : 3-tuple against 2-tuple probe; equal prefix: the shorter probe is smaller, so not "<" *)
Definition lt_probe2 (x y : Z) (k : key) : bool := (kb k <? x) || ((kb k =? x) && (ke k <? y)).
(* key < (x,)     : 3-tuple against 1-tuple probe *)
Definition lt_probe1 (x : Z) (k : key) : bool := kb k <? x.
(* SortedKeyList.bisect_key_left(p) on a sorted list = number of leading keys < p *)
Fixpoint count_while {A} (p : A -> bool) (l : list A) : nat :=
  match l with [] => 0%nat | k :: r => if p k then S (count_while p r) else 0%nat end.
Definition slice {A} (l : list A) (i j : nat) : list A := firstn (j - i) (skipn i l).     (* l[i:j] *)
Definition covered (b e : Z) (k : key) : bool := (b <=? kb k) && (ke k <=? e).
Definition window (l : list key) (b e : Z) : list key :=
  slice l (count_while (lt_probe2 b b) l) (count_while (lt_probe1 (e + 1)) l).
Definition select_covered (l : list key) (b e : Z) : list key := filter (covered b e) (window l b e).
Definition wf (k : key) : Prop := kb k <= ke k.
Definition sorted (l : list key) : Prop := StronglySorted key_le l.

Lemma filter_none {A} (f : A -> bool) l : (forall x, In x l -> f x = false) -> filter f l = [].
Proof.
  induction l as [|a r IH]; simpl; intros H; [reflexivity|].
  rewrite (H a (or_introl eq_refl)). apply IH. intros x Hx. apply H. right. exact Hx.
Qed.

(* dropping a prefix on which f is false does not change the filter *)
Lemma filter_skip_prefix {A} (f p : A -> bool) l :
  (forall k, In k l -> p k = true -> f k = false) ->
  filter f (skipn (count_while p l) l) = filter f l.
Proof.
  induction l as [|k r IH]; simpl; intros H; [reflexivity|].
  destruct (p k) eqn:E; simpl.
  - rewrite (H k (or_introl eq_refl) E). apply IH. intros x Hx. apply H. right. exact Hx.
  - reflexivity.
Qed.

(* cutting at n elements when everything from position n on fails f *)
Lemma filter_firstn_cut {A} (f : A -> bool) l n :
  (forall k, In k (skipn n l) -> f k = false) -> filter f (firstn n l) = filter f l.
Proof.
  revert n. induction l as [|a r IH]; intros n H; [destruct n; reflexivity|].
  destruct n as [|n]; simpl in *.
  - symmetry. rewrite (H a (or_introl eq_refl)). apply filter_none. intros x Hx. apply H. right. exact Hx.
  - destruct (f a); [f_equal|]; apply IH; exact H.
Qed.

Lemma skipn_skipn {A} (l : list A) i j : skipn j (skipn i l) = skipn (i + j) l.
Proof.
  revert l. induction i as [|i IH]; intros l; simpl; [reflexivity|].
  destruct l as [|a r]; [destruct j; reflexivity|]. apply IH.
Qed.

(* in a sorted list every key at or after the first key that is not < (x,) has begin >= x *)
Lemma after_probe1 l x : sorted l -> forall k, In k (skipn (count_while (lt_probe1 x) l) l) -> x <= kb k.
Proof.
  induction 1 as [|a r Hs IH Hall]; simpl; intros k Hin; [contradiction|].
  unfold lt_probe1 at 1 in Hin. destruct (kb a <? x) eqn:E.
  - apply IH. exact Hin.
  - destruct Hin as [<-|Hin]; [lia|].
    rewrite Forall_forall in Hall. specialize (Hall _ Hin). unfold key_le in Hall. lia.
Qed.

Lemma count_le l b e : b <= e ->
  (count_while (lt_probe2 b b) l <= count_while (lt_probe1 (e + 1)) l)%nat.
Proof.
  intros Hbe. induction l as [|k r IH]; simpl; [lia|].
  destruct (lt_probe2 b b k) eqn:E1; destruct (lt_probe1 (e + 1) k) eqn:E2; try lia.
  unfold lt_probe2 in E1. unfold lt_probe1 in E2. lia.
Qed.

Lemma In_skipn_In {A} (l : list A) n x : In x (skipn n l) -> In x l.
Proof.
  revert n. induction l as [|a r IH]; intros [|n] H; simpl in *; auto.
  right. eapply IH. exact H.
Qed.

Theorem select_covered_spec l b e :
  sorted l -> Forall wf l -> b <= e -> select_covered l b e = filter (covered b e) l.
Proof.
  intros Hs Hwf Hbe. unfold select_covered, window, slice.
  set (i := count_while (lt_probe2 b b) l). set (j := count_while (lt_probe1 (e + 1)) l).
  assert (Hij : (i <= j)%nat) by (apply count_le; exact Hbe).
  rewrite Forall_forall in Hwf.
  rewrite filter_firstn_cut.
  - apply filter_skip_prefix. intros k Hk Hp.
    specialize (Hwf _ Hk). unfold wf in Hwf. unfold covered. unfold lt_probe2 in Hp.
    destruct (b <=? kb k) eqn:E; simpl; [|reflexivity]. lia.
  - intros k Hk. rewrite skipn_skipn in Hk. replace (i + (j - i))%nat with j in Hk by lia.
    pose proof (after_probe1 l (e + 1) Hs k Hk) as Hge.
    pose proof (Hwf _ (In_skipn_In _ _ _ Hk)) as Hw. unfold wf in Hw. unfold covered.
    destruct (ke k <=? e) eqn:E; [|apply andb_false_r]. lia.
Qed.
Print Assumptions select_covered_spec.

(* the unrepaired right edge, bisect_key_right((e,e)): stops before zero-width annotations at e *)
Definition probe2_lt (x y : Z) (k : key) : bool := (x <? kb k) || ((x =? kb k) && (y <=? ke k)).   (* (x,y) < key *)
Definition window_old (l : list key) (b e : Z) : list key :=
  slice l (count_while (lt_probe2 b b) l) (count_while (fun k => negb (probe2_lt e e k)) l).
Theorem select_covered_old_refuted :
  exists l b e, sorted l /\ Forall wf l /\ b <= e /\ filter (covered b e) (window_old l b e) <> filter (covered b e) l.
Proof.
  exists [mkKey 5 5 1], 2, 5. repeat split.
  - repeat constructor.
  - repeat constructor. unfold wf; simpl; lia.
  - lia.
  - vm_compute. discriminate.
Qed.
(* non-vacuity of the premises of the main theorem *)
Example premises_hold : sorted [mkKey 2 2 1; mkKey 2 5 2; mkKey 5 5 3] /\ Forall wf [mkKey 2 2 1; mkKey 2 5 2; mkKey 5 5 3].
Proof. split; repeat constructor; unfold key_le, wf; simpl; lia. Qed.
