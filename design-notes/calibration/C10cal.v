(* Calibration for C10: hierarchy queries over the _children bookkeeping agree with the supertype relation.
   Reduced model (no features).  Acyclicity is carried by a ghost rank: rank (supertype t) < rank t. *)
From Coq Require Import List String Arith Lia Bool.
Import ListNotations.
Open Scope string_scope.
Open Scope list_scope.

Definition tname := string.
Record ty := mkTy { t_name : tname; t_super : option tname; t_children : list tname; t_rank : nat (* ghost *) }.
Definition tsys := list ty.
Definition find_ty (ts : tsys) (n : tname) : option ty := find (fun t => String.eqb (t_name t) n) ts.
Definition max_rank (ts : tsys) : nat := fold_right (fun t m => Nat.max (t_rank t) m) 0 ts.

Fixpoint concat_opt {A} (l : list (option (list A))) : option (list A) :=
  match l with
  | [] => Some []
  | None :: _ => None
  | Some x :: r => match concat_opt r with Some y => Some (x ++ y) | None => None end
  end.
(* Type.descendants: yield self, then for each child yield from child.descendants *)
Fixpoint descendants (fuel : nat) (ts : tsys) (n : tname) : option (list tname) :=
  match fuel with
  | O => None
  | S k => match find_ty ts n with
           | None => None
           | Some t => option_map (cons n) (concat_opt (map (descendants k ts) (t_children t)))
           end
  end.
(* Type.subsumes: walk other_type.supertype upwards *)
Fixpoint walks_up (fuel : nat) (ts : tsys) (a b : tname) : option bool :=
  match fuel with
  | O => None
  | S k => if String.eqb a b then Some true else
           match find_ty ts b with
           | None => Some false
           | Some t => match t_super t with None => Some false | Some s => walks_up k ts a s end
           end
  end.

(* specification: d is a, or a proper descendant of a, in the declared supertype relation *)
Inductive below (ts : tsys) (a : tname) : tname -> Prop :=
| below_refl : below ts a a
| below_step d td s : find_ty ts d = Some td -> t_super td = Some s -> below ts a s -> below ts a d.

Record WF (ts : tsys) : Prop := {
  wf_nodup : NoDup (map t_name ts);
  wf_super : forall t s, In t ts -> t_super t = Some s -> exists p, find_ty ts s = Some p /\ t_rank p < t_rank t;
  wf_children : forall p c, In p ts ->
      (In c (t_children p) <-> exists tc, find_ty ts c = Some tc /\ t_super tc = Some (t_name p))
}.

Lemma find_ty_In ts n t : find_ty ts n = Some t -> In t ts /\ t_name t = n.
Proof.
  unfold find_ty. intros H. apply find_some in H. destruct H as [H1 H2].
  apply String.eqb_eq in H2. auto.
Qed.
Lemma In_find_ty ts t : NoDup (map t_name ts) -> In t ts -> find_ty ts (t_name t) = Some t.
Proof.
  unfold find_ty. induction ts as [|x r IH]; simpl; intros Hnd Hin; [contradiction|].
  inversion Hnd as [|? ? Hnotin Hnd']; subst.
  destruct Hin as [->|Hin].
  - rewrite String.eqb_refl. reflexivity.
  - destruct (String.eqb (t_name x) (t_name t)) eqn:E.
    + apply String.eqb_eq in E. exfalso. apply Hnotin. rewrite E. apply in_map. exact Hin.
    + apply IH; assumption.
Qed.
Lemma rank_le_max ts t : In t ts -> t_rank t <= max_rank ts.
Proof.
  induction ts as [|x r IH]; simpl; intros H; [contradiction|].
  destruct H as [->|H]; [lia|]. specialize (IH H). lia.
Qed.

Lemma concat_opt_some {A} (f : tname -> option (list A)) cs :
  (forall c, In c cs -> f c <> None) -> concat_opt (map f cs) <> None.
Proof.
  induction cs as [|c r IH]; simpl; intros H; [discriminate|].
  destruct (f c) eqn:E; [|exfalso; apply (H c); auto].
  destruct (concat_opt (map f r)) eqn:E2; [discriminate|].
  exfalso. apply IH; auto.
Qed.
Lemma concat_opt_In {A} (f : tname -> option (list A)) cs l x :
  concat_opt (map f cs) = Some l -> (In x l <-> exists c lc, In c cs /\ f c = Some lc /\ In x lc).
Proof.
  revert l. induction cs as [|c r IH]; simpl; intros l H.
  - inversion H; subst. split; [contradiction|]. intros (c & lc & Hc & _). contradiction.
  - destruct (f c) as [lc|] eqn:E; [|discriminate].
    destruct (concat_opt (map f r)) as [lr|] eqn:E2; [|discriminate].
    inversion H; subst. rewrite in_app_iff. rewrite (IH lr eq_refl). split.
    + intros [Hx|(c' & lc' & Hc' & Hf & Hx)].
      * exists c, lc. auto.
      * exists c', lc'. auto.
    + intros (c' & lc' & [<-|Hc'] & Hf & Hx).
      * left. congruence.
      * right. exists c', lc'. auto.
Qed.

(* termination of the recursive generator: fuel max_rank - rank + 1 is enough (C15, hierarchy part) *)
Lemma descendants_total ts : WF ts -> forall k t, In t ts -> max_rank ts - t_rank t < k ->
  descendants k ts (t_name t) <> None.
Proof.
  intros W. induction k as [|k IH]; intros t Hin Hk; [lia|].
  simpl. rewrite (In_find_ty _ _ (wf_nodup _ W) Hin). 
  assert (Hc : concat_opt (map (descendants k ts) (t_children t)) <> None).
  { apply concat_opt_some. intros c Hcin.
    apply (wf_children _ W t c Hin) in Hcin. destruct Hcin as (tc & Hf & Hs).
    destruct (find_ty_In _ _ _ Hf) as [Htc Hn]. rewrite <- Hn.
    apply IH; [exact Htc|].
    destruct (wf_super _ W tc _ Htc Hs) as (p & Hp & Hlt).
    rewrite (In_find_ty _ _ (wf_nodup _ W) Hin) in Hp. inversion Hp; subst p.
    pose proof (rank_le_max _ _ Htc). lia. }
  destruct (concat_opt (map (descendants k ts) (t_children t))); [discriminate|contradiction].
Qed.

Lemma below_trans_child ts a c d : below ts c d -> forall tc, find_ty ts c = Some tc -> t_super tc = Some a -> below ts a d.
Proof.
  induction 1 as [|d td s Hf Hs Hb IH]; intros tc Hfc Hsc.
  - eapply below_step; [exact Hfc|exact Hsc|apply below_refl].
  - eapply below_step; [exact Hf|exact Hs|]. eapply IH; eassumption.
Qed.

(* soundness and completeness of descendants w.r.t. the supertype relation *)
Lemma descendants_sound ts : WF ts -> forall k a l, descendants k ts a = Some l -> forall d, In d l -> below ts a d.
Proof.
  intros W. induction k as [|k IH]; intros a l H d Hd; [discriminate|].
  simpl in H. destruct (find_ty ts a) as [t|] eqn:Ef; [|discriminate].
  destruct (concat_opt (map (descendants k ts) (t_children t))) as [lc|] eqn:Ec; [|discriminate].
  inversion H; subst l. destruct Hd as [<-|Hd]; [apply below_refl|].
  apply (concat_opt_In _ _ _ _ Ec) in Hd. destruct Hd as (c & lcc & Hc & Hdc & Hx).
  destruct (find_ty_In _ _ _ Ef) as [Hin Hn].
  apply (wf_children _ W t c Hin) in Hc. destruct Hc as (tc & Hfc & Hsc). rewrite Hn in Hsc.
  eapply below_trans_child; [eapply IH; eassumption|exact Hfc|exact Hsc].
Qed.

Lemma descendants_closed ts : WF ts -> forall k a l, descendants k ts a = Some l ->
  forall s d td, In s l -> find_ty ts d = Some td -> t_super td = Some s -> In d l.
Proof.
  intros W. induction k as [|k IH]; intros a l H s d td Hs Hfd Hsd; [discriminate|].
  simpl in H. destruct (find_ty ts a) as [t|] eqn:Ef; [|discriminate].
  destruct (concat_opt (map (descendants k ts) (t_children t))) as [lc|] eqn:Ec; [|discriminate].
  inversion H; subst l. right. apply (concat_opt_In _ _ _ _ Ec).
  destruct (find_ty_In _ _ _ Ef) as [Hin Hn].
  destruct Hs as [<-|Hs].
  - (* d is a child of a: it heads its own sub-list *)
    assert (Hc : In d (t_children t)).
    { apply (wf_children _ W t d Hin). exists td. rewrite Hn. auto. }
    pose proof (concat_opt_some (descendants k ts) (t_children t)) as Hsome.
    destruct (descendants k ts d) as [ld|] eqn:Ed.
    + exists d, ld. repeat split; auto.
      destruct k; [discriminate|]. simpl in Ed. rewrite Hfd in Ed.
      destruct (concat_opt (map (descendants k ts) (t_children td))); inversion Ed. left. reflexivity.
    + exfalso. clear Hsome. revert Ec Hc Ed. clear. revert lc.
      induction (t_children t) as [|c r IHr]; simpl; intros lc Ec Hc Ed; [contradiction|].
      destruct (descendants k ts c) eqn:E1; [|discriminate].
      destruct (concat_opt (map (descendants k ts) r)) eqn:E2; [|discriminate].
      destruct Hc as [->|Hc]; [congruence|]. eapply IHr; eauto.
  - apply (concat_opt_In _ _ _ _ Ec) in Hs. destruct Hs as (c & lcc & Hc & Hdc & Hx).
    exists c, lcc. repeat split; auto. eapply IH; eassumption.
Qed.

Lemma descendants_complete ts : WF ts -> forall k a l, descendants k ts a = Some l -> forall d, below ts a d -> In d l.
Proof.
  intros W k a l H d Hb. induction Hb as [|d td s Hf Hs Hb IH].
  - destruct k; [discriminate|]. simpl in H. destruct (find_ty ts a); [|discriminate].
    destruct (concat_opt _); inversion H. left. reflexivity.
  - eapply descendants_closed; eassumption.
Qed.

Theorem descendants_spec ts a : WF ts -> In a ts ->
  exists l, descendants (S (max_rank ts)) ts (t_name a) = Some l /\ forall d, In d l <-> below ts (t_name a) d.
Proof.
  intros W Hin.
  destruct (descendants (S (max_rank ts)) ts (t_name a)) as [l|] eqn:E.
  - exists l. split; [reflexivity|]. intros d. split.
    + eapply descendants_sound; eassumption.
    + eapply descendants_complete; eassumption.
  - exfalso. eapply (descendants_total ts W (S (max_rank ts)) a Hin); [lia|exact E].
Qed.

(* ---------- Type.subsumes / is_instance_of: the upward walk decides `below` ---------- *)
Lemma below_inv ts a d : below ts a d -> a = d \/ exists td s, find_ty ts d = Some td /\ t_super td = Some s /\ below ts a s.
Proof. intros H. inversion H; subst; [left; reflexivity|right; eauto]. Qed.

Lemma walks_up_spec ts a : WF ts -> forall k b, In b ts -> t_rank b < k ->
  exists r, walks_up k ts a (t_name b) = Some r /\ (r = true <-> below ts a (t_name b)).
Proof.
  intros W. induction k as [|k IH]; intros b Hin Hk; [lia|].
  simpl. destruct (String.eqb a (t_name b)) eqn:E.
  - apply String.eqb_eq in E. subst a. exists true. split; [reflexivity|]. split; [intros _; apply below_refl|reflexivity].
  - apply String.eqb_neq in E. rewrite (In_find_ty _ _ (wf_nodup _ W) Hin).
    destruct (t_super b) as [s|] eqn:Es.
    + destruct (wf_super _ W b s Hin Es) as (p & Hp & Hlt).
      destruct (find_ty_In _ _ _ Hp) as [Hpin Hpn]. subst s.
      destruct (IH p Hpin ltac:(lia)) as (r & Hr & Hiff). exists r. split; [exact Hr|].
      rewrite Hiff. split.
      * intros Hb. eapply below_step; [apply (In_find_ty _ _ (wf_nodup _ W) Hin)|exact Es|exact Hb].
      * intros Hb. apply below_inv in Hb. destruct Hb as [Heq|(td & s & Hf & Hs & Hb)]; [contradiction|].
        rewrite (In_find_ty _ _ (wf_nodup _ W) Hin) in Hf. inversion Hf; subst td. congruence.
    + exists false. split; [reflexivity|]. split; [discriminate|].
      intros Hb. apply below_inv in Hb. destruct Hb as [Heq|(td & s & Hf & Hs & Hb)]; [contradiction|].
      rewrite (In_find_ty _ _ (wf_nodup _ W) Hin) in Hf. inversion Hf; subst td. congruence.
Qed.

(* the two query implementations agree: b is listed among a's descendants iff the walk from b reaches a *)
Theorem descendants_agree_with_subsumes ts a b : WF ts -> In a ts -> In b ts ->
  exists l r, descendants (S (max_rank ts)) ts (t_name a) = Some l /\
              walks_up (S (t_rank b)) ts (t_name a) (t_name b) = Some r /\
              (In (t_name b) l <-> r = true).
Proof.
  intros W Ha Hb.
  destruct (descendants_spec ts a W Ha) as (l & Hl & Hspec).
  destruct (walks_up_spec ts (t_name a) W (S (t_rank b)) b Hb ltac:(lia)) as (r & Hr & Hiff).
  exists l, r. repeat split; auto.
  - intros H. apply Hiff. apply Hspec. exact H.
  - intros H. apply Hspec. apply Hiff. exact H.
Qed.

(* ---------- TypeSystem.create_type preserves the invariant ---------- *)
Definition add_child (sup name : tname) (t : ty) : ty :=
  if String.eqb (t_name t) sup then mkTy (t_name t) (t_super t) (t_children t ++ [name]) (t_rank t) else t.
Definition create_type (ts : tsys) (name sup : tname) : option tsys :=
  if existsb (fun t => String.eqb (t_name t) name) ts then None          (* "Type with name [..] already exists!" *)
  else match find_ty ts sup with
       | None => None                                                      (* TypeNotFoundError *)
       | Some p => Some (map (add_child sup name) ts ++ [mkTy name (Some sup) [] (S (t_rank p))])
       end.

Lemma add_child_name sup name t : t_name (add_child sup name t) = t_name t.
Proof. unfold add_child. destruct (String.eqb (t_name t) sup); reflexivity. Qed.
Lemma add_child_super sup name t : t_super (add_child sup name t) = t_super t.
Proof. unfold add_child. destruct (String.eqb (t_name t) sup); reflexivity. Qed.
Lemma add_child_rank sup name t : t_rank (add_child sup name t) = t_rank t.
Proof. unfold add_child. destruct (String.eqb (t_name t) sup); reflexivity. Qed.
Lemma map_names sup name ts : map t_name (map (add_child sup name) ts) = map t_name ts.
Proof. rewrite map_map. apply map_ext. intros t. apply add_child_name. Qed.

Lemma existsb_name_false ts name : existsb (fun t => String.eqb (t_name t) name) ts = false -> ~ In name (map t_name ts).
Proof.
  intros H Hin. apply in_map_iff in Hin. destruct Hin as (t & Hn & Hin).
  assert (existsb (fun t => String.eqb (t_name t) name) ts = true).
  { apply existsb_exists. exists t. split; [exact Hin|]. apply String.eqb_eq. exact Hn. }
  congruence.
Qed.

Lemma find_app_new ts (new : ty) n :
  find_ty (ts ++ [new]) n = match find_ty ts n with Some t => Some t | None => if String.eqb (t_name new) n then Some new else None end.
Proof.
  unfold find_ty. induction ts as [|x r IH]; simpl; [reflexivity|].
  destruct (String.eqb (t_name x) n); [reflexivity|exact IH].
Qed.
Lemma find_map_add_child ts sup name n :
  find_ty (map (add_child sup name) ts) n = option_map (add_child sup name) (find_ty ts n).
Proof.
  unfold find_ty. induction ts as [|x r IH]; simpl; [reflexivity|].
  rewrite add_child_name. destruct (String.eqb (t_name x) n); [reflexivity|exact IH].
Qed.
Lemma find_ty_none ts n : ~ In n (map t_name ts) -> find_ty ts n = None.
Proof.
  unfold find_ty. induction ts as [|x r IH]; simpl; intros H; [reflexivity|].
  destruct (String.eqb (t_name x) n) eqn:E.
  - apply String.eqb_eq in E. exfalso. apply H. left. exact E.
  - apply IH. intros Hin. apply H. right. exact Hin.
Qed.

Lemma NoDup_app_one {A} (l : list A) x : NoDup l -> ~ In x l -> NoDup (l ++ [x]).
Proof.
  induction 1 as [|a r Hn Hnd IH]; simpl; intros Hx; [constructor; [intros []|constructor]|].
  constructor.
  - rewrite in_app_iff. intros [H|[H|[]]]; [contradiction|]. apply Hx. left. symmetry. exact H.
  - apply IH. intros H. apply Hx. right. exact H.
Qed.

Theorem create_type_WF ts name sup ts' : WF ts -> create_type ts name sup = Some ts' -> WF ts'.
Proof.
  intros W Hc. unfold create_type in Hc.
  destruct (existsb (fun t => String.eqb (t_name t) name) ts) eqn:Ex; [discriminate|].
  destruct (find_ty ts sup) as [p|] eqn:Ep; [|discriminate]. inversion Hc; subst ts'; clear Hc.
  pose proof (existsb_name_false _ _ Ex) as Hfresh.
  destruct (find_ty_In _ _ _ Ep) as [Hpin Hpn].
  set (new := mkTy name (Some sup) [] (S (t_rank p))).
  (* lookup in the new type system *)
  assert (Hfind : forall n, find_ty (map (add_child sup name) ts ++ [new]) n =
            match find_ty ts n with Some t => Some (add_child sup name t) | None => if String.eqb name n then Some new else None end).
  { intros n. rewrite find_app_new, find_map_add_child. destruct (find_ty ts n); reflexivity. }
  constructor.
  - (* names stay distinct *)
    rewrite map_app, map_names. simpl. apply NoDup_app_one; [apply (wf_nodup _ W)|exact Hfresh].
  - (* supertypes registered with smaller rank *)
    intros t s Hin Hs. apply in_app_or in Hin. destruct Hin as [Hin|[<-|[]]].
    + apply in_map_iff in Hin. destruct Hin as (t0 & <- & Hin0). rewrite add_child_super in Hs. rewrite add_child_rank.
      destruct (wf_super _ W t0 s Hin0 Hs) as (q & Hq & Hlt).
      exists (add_child sup name q). rewrite Hfind, Hq. rewrite add_child_rank. auto.
    + simpl in Hs. inversion Hs; subst s. exists (add_child sup name p). rewrite Hfind, Ep. rewrite add_child_rank. simpl. auto.
  - (* children bookkeeping *)
    intros q c Hin. apply in_app_or in Hin. destruct Hin as [Hin|[<-|[]]].
    + apply in_map_iff in Hin. destruct Hin as (q0 & <- & Hin0). rewrite add_child_name.
      assert (Hold : In c (t_children q0) <-> exists tc, find_ty ts c = Some tc /\ t_super tc = Some (t_name q0)) by (apply (wf_children _ W); exact Hin0).
      unfold add_child at 1. destruct (String.eqb (t_name q0) sup) eqn:E.
      * apply String.eqb_eq in E. simpl. rewrite in_app_iff. split.
        -- intros [Hc|[<-|[]]].
           ++ apply Hold in Hc. destruct Hc as (tc & Hf & Hs). exists (add_child sup name tc). rewrite Hfind, Hf, add_child_super. auto.
           ++ exists new. rewrite Hfind. rewrite (find_ty_none _ _ Hfresh), String.eqb_refl. simpl. rewrite E. auto.
        -- intros (tc & Hf & Hs). rewrite Hfind in Hf. destruct (find_ty ts c) as [t0|] eqn:E0.
           ++ inversion Hf; subst tc. rewrite add_child_super in Hs. left. apply Hold. eauto.
           ++ destruct (String.eqb name c) eqn:E1; [|discriminate]. apply String.eqb_eq in E1. right. left. exact E1.
      * apply String.eqb_neq in E. split.
        -- intros Hc. apply Hold in Hc. destruct Hc as (tc & Hf & Hs). exists (add_child sup name tc). rewrite Hfind, Hf, add_child_super. auto.
        -- intros (tc & Hf & Hs). rewrite Hfind in Hf. destruct (find_ty ts c) as [t0|] eqn:E0.
           ++ inversion Hf; subst tc. rewrite add_child_super in Hs. apply Hold. eauto.
           ++ destruct (String.eqb name c) eqn:E1; [|discriminate]. inversion Hf; subst tc. simpl in Hs. congruence.
    + (* the new type has no children: nobody names it as supertype yet *)
      simpl. split; [contradiction|]. intros (tc & Hf & Hs). rewrite Hfind in Hf.
      destruct (find_ty ts c) as [t0|] eqn:E0.
      * inversion Hf; subst tc. rewrite add_child_super in Hs.
        destruct (find_ty_In _ _ _ E0) as [Hin0 _].
        destruct (wf_super _ W t0 name Hin0 Hs) as (q & Hq & _).
        rewrite (find_ty_none _ _ Hfresh) in Hq. discriminate.
      * destruct (String.eqb name c) eqn:E1; [|discriminate]. inversion Hf; subst tc. simpl in Hs.
        injection Hs as Heq. rewrite Heq in Ep. rewrite (find_ty_none _ _ Hfresh) in Ep. discriminate.
Qed.

(* ---------- every reachable type system: any sequence of create_type from the root ---------- *)
Definition init : tsys := [mkTy "uima.cas.TOP" None [] 0].
Lemma init_WF : WF init.
Proof.
  constructor.
  - simpl. constructor; [intros []|constructor].
  - intros t s [<-|[]] Hs. simpl in Hs. discriminate Hs.
  - intros p c [<-|[]]. cbn [t_children t_name]. split; [contradiction|].
    intros (tc & Hf & Hs). unfold find_ty, init in Hf. cbn [find t_name] in Hf.
    destruct (String.eqb "uima.cas.TOP" c); [|discriminate Hf]. inversion Hf; subst tc. cbn [t_super] in Hs. discriminate Hs.
Qed.
(* a failing create_type (duplicate name, unknown supertype) raises and leaves the type system as it was *)
Definition step (ts : tsys) (op : tname * tname) : tsys :=
  match create_type ts (fst op) (snd op) with Some ts' => ts' | None => ts end.
Theorem reachable_WF (ops : list (tname * tname)) : WF (fold_left step ops init).
Proof.
  assert (G : forall ts, WF ts -> WF (fold_left step ops ts)).
  { induction ops as [|op r IH]; simpl; intros ts W; [exact W|].
    apply IH. unfold step. destruct (create_type ts (fst op) (snd op)) eqn:E; [eapply create_type_WF; eassumption|exact W]. }
  apply G. apply init_WF.
Qed.
(* the premises are met by a non-trivial state, and the queries compute on it *)
Example three_levels :
  let ts := fold_left step [("a.A","uima.cas.TOP"); ("a.B","a.A"); ("a.C","a.B"); ("a.D","a.A"); ("a.A","uima.cas.TOP"); ("a.X","no.Such")] init in
  descendants (S (max_rank ts)) ts "a.A" = Some ["a.A"; "a.B"; "a.C"; "a.D"] /\ walks_up 4 ts "a.B" "a.C" = Some true /\ walks_up 4 ts "a.D" "a.C" = Some false.
Proof. vm_compute. repeat split. Qed.

Print Assumptions descendants_spec.
Print Assumptions descendants_agree_with_subsumes.
Print Assumptions create_type_WF.
Print Assumptions reachable_WF.
