(* DESIGN NOTE, not part of the development: type-checked signatures and theorem statements (as Props)
   written during the design phase.  The development proper will be created under /verif/coq. *)
From Sk Require Import Base.
(* --- type system model: mirrors cassis/typesystem.py Type/Feature/TypeSystem state --- *)
Record tref := mkRef { r_owner : nat; r_name : tname }.     (* which TypeSystem object owns the referenced Type object *)
Record feat := mkFeat {
  f_name : fname; f_reserved : bool;
  f_dom : tref; f_range : tref; f_elem : option tref;
  f_multi : option bool; f_desc : option string }.
Record ty := mkTy {
  t_name : tname; t_super : option tref; t_desc : option string;
  t_children : list tname;          (* Type._children keys, insertion order *)
  t_own : list feat;                (* Type._features *)
  t_inh : list feat;                (* Type._inherited_features *)
  t_ctor_fn : list fname;           (* fields captured by _constructor_fn at last __attrs_post_init__ *)
  t_ctor : option (list fname) }.   (* cached generated class (_constructor) *)
Record tsys := mkTs { ts_owner : nat; ts_types : list ty; ts_redecl : list tname }.

Definition find_ty (ts : tsys) (n : tname) : option ty := find (fun t => String.eqb (t_name t) n) (ts_types ts).
(* Feature.__eq__ : name, description, range name, element type name (None = TOP); multiref is NOT compared (code compares self with self) *)
Definition opt_name (o : option tref) : tname := match o with Some r => r_name r | None => "uima.cas.TOP" end.
Definition opt_str_eqb (a b : option string) := match a, b with None, None => true | Some x, Some y => String.eqb x y | _, _ => false end.
Definition feat_eqb (a b : feat) : bool :=
  String.eqb (f_name a) (f_name b) && opt_str_eqb (f_desc a) (f_desc b)
  && String.eqb (r_name (f_range a)) (r_name (f_range b)) && String.eqb (opt_name (f_elem a)) (opt_name (f_elem b)).
Fixpoint dedup (l : list feat) (seen : list feat) : list feat :=
  match l with [] => [] | f :: r => if existsb (feat_eqb f) seen then dedup r seen else f :: dedup r (f :: seen) end.
Definition all_features (t : ty) : list feat := dedup (t_own t ++ t_inh t) [].

(* walking up: fuel = number of types *)
Fixpoint ancestors (fuel : nat) (ts : tsys) (n : tname) : option (list tname) :=
  match fuel with O => None | S k =>
    match find_ty ts n with None => None | Some t =>
      match t_super t with None => Some [n] | Some r => option_map (cons n) (ancestors k ts (r_name r)) end end end.
Definition subsumes (ts : tsys) (a b : tname) : res bool :=
  if String.eqb a "uima.cas.TOP" then Ok true else
  match ancestors (S (List.length (ts_types ts))) ts b with None => OutOfFuel | Some l => Ok (existsb (String.eqb a) l) end.
Fixpoint descendants (fuel : nat) (ts : tsys) (n : tname) : option (list tname) :=
  match fuel with O => None | S k =>
    match find_ty ts n with None => None | Some t =>
      option_map (cons n)
      ((fix go (cs : list tname) : option (list tname) :=
         match cs with [] => Some [] | c :: r =>
           match descendants k ts c, go r with Some a, Some b => Some (a ++ b) | _, _ => None end end) (t_children t))
    end end.

(* the invariant behind C10 / C11 *)
Definition refs_ok (ts : tsys) (r : tref) : Prop := r_owner r = ts_owner ts /\ find_ty ts (r_name r) <> None.
Record WF (ts : tsys) : Prop := {
  wf_nodup : NoDup (map t_name (ts_types ts));
  wf_top : exists t, find_ty ts "uima.cas.TOP" = Some t /\ t_super t = None;
  wf_super : forall t, In t (ts_types ts) -> t_name t <> "uima.cas.TOP" -> exists r, t_super t = Some r /\ refs_ok ts r;
  wf_acyclic : forall t, In t (ts_types ts) -> ancestors (S (List.length (ts_types ts))) ts (t_name t) <> None;
  wf_children : forall p c, In p (ts_types ts) ->
      (In c (t_children p) <-> exists tc r, find_ty ts c = Some tc /\ t_super tc = Some r /\ r_name r = t_name p);
  wf_children_nodup : forall p, In p (ts_types ts) -> NoDup (t_children p);
  wf_inh : forall t f, In t (ts_types ts) ->
      (In f (t_inh t) <-> exists a ta l, ancestors (S (List.length (ts_types ts))) ts (t_name t) = Some (t_name t :: l)
                                   /\ In a l /\ find_ty ts a = Some ta /\ In f (t_own ta));
  wf_one_def : forall t f g, In t (ts_types ts) -> In f (t_own t ++ t_inh t) -> In g (t_own t ++ t_inh t) ->
      f_name f = f_name g -> feat_eqb f g = true;
  wf_feat_refs : forall t f, In t (ts_types ts) -> In f (t_own t ++ t_inh t) ->
      refs_ok ts (f_dom f) /\ refs_ok ts (f_range f) /\ (forall e, f_elem f = Some e -> refs_ok ts e);
  wf_ctor : forall t, In t (ts_types ts) ->
      t_ctor_fn t = map f_name (all_features t) /\ (t_ctor t = None \/ t_ctor t = Some (map f_name (all_features t)))
}.
Definition C10_descendants_spec_stmt : Prop := forall ts a d l, WF ts ->
  descendants (S (List.length (ts_types ts))) ts a = Some l -> find_ty ts d <> None ->
  (In d l <-> subsumes ts a d = Ok true) /\ NoDup l.
