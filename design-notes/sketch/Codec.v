(* DESIGN NOTE, not part of the development: type-checked signatures and theorem statements (as Props)
   written during the design phase.  The development proper will be created under /verif/coq. *)
From Sk Require Import Base TS Cas Reach.
(* --- abstract documents --- *)
Record xelem := mkX { x_ns : string; x_tag : string; x_attrs : list (string * string); x_kids : list (string * string) }.
Definition xdoc := list xelem.
Inductive json := JNull | JBool (b : bool) | JInt (z : Z) | JFlt (x : flt) | JStr (s : string) | JArr (l : list json) | JObj (l : list (string * json)).

(* --- canonical, id-keyed content of a CAS: what "the same CAS" means in C01/C02/C04/C05/C16 --- *)
Inductive cval := CNull | CInt (z : Z) | CFlt (x : flt) | CBool (b : bool) | CStr (s : string)
                | CRef (i : xid) | CColl (kind : tname) (l : list cval).       (* inlined array / list, by content *)
Record cfs := mkCfs { cf_type : tname; cf_feats : list (fname * cval) }.
Record csofa := mkCsofa { cs_id : xid; cs_num : Z; cs_name : string; cs_text : option text; cs_mime : option string;
                          cs_uri : option string; cs_arr : option xid; cs_members : list xid }.
Record ccas := mkCcas { cc_sofas : list csofa; cc_fs : list (xid * cfs) }.

Section CodecStatements.
  Variable fmt_flt : flt -> string.  Variable parse_flt : string -> option flt.
  Hypothesis flt_rt : forall x, parse_flt (fmt_flt x) = Some x.            (* Python repr()/float(): trusted, tested *)
  Variable wf_cas : tsys -> cas -> Prop.                                     (* boolean in the development *)
  Variable canon_xmi : cas -> res ccas.       (* inline features by content *)
  Variable canon_json : cas -> res ccas.      (* every collection a separate FS *)
  Variable norm_xmi : ccas -> ccas.           (* "" -> null inside string arrays/lists: the format cannot tell them apart *)
  Variable save_xmi : cas -> res (xdoc * cas).
  Variable load_xmi : tsys -> bool -> xdoc -> res cas.
  Variable denote_xmi : tsys -> xdoc -> res ccas.                            (* declarative reading of a document under the UIMA XMI rules *)
  Variable doc_ok_xmi : tsys -> xdoc -> Prop.
  Variable presentation_equiv : xdoc -> xdoc -> Prop.                        (* permutation of elements, of attributes, omitted empty View *)

  (* C04 *) Definition C04_xmi_faithful_stmt := forall c d c', WF (c_ts c) -> wf_cas (c_ts c) c ->
     save_xmi c = Ok (d, c') -> doc_ok_xmi (c_ts c) d /\ (do k <- canon_xmi c' ;; Ok (norm_xmi k)) = denote_xmi (c_ts c) d.
  (* C05 *) Definition C05_xmi_load_is_denotation_stmt := forall ts d c, WF ts -> doc_ok_xmi ts d ->
     load_xmi ts false d = Ok c -> (do k <- canon_xmi c ;; Ok (norm_xmi k)) = denote_xmi ts d.
            Definition C05_xmi_presentation_stmt := forall ts d d', presentation_equiv d d' -> denote_xmi ts d = denote_xmi ts d'.
  (* C01 *) Definition C01_xmi_roundtrip_stmt := forall c d c1, WF (c_ts c) -> wf_cas (c_ts c) c -> save_xmi c = Ok (d, c1) ->
     exists c2, load_xmi (c_ts c) false d = Ok c2 /\
       (do k <- canon_xmi c2 ;; Ok (norm_xmi k)) = (do k <- canon_xmi c1 ;; Ok (norm_xmi k)) /\
       exists c3, save_xmi c2 = Ok (d, c3).
  (* C14 *) Definition C14_xmi_save_idempotent_stmt := forall c d c1, save_xmi c = Ok (d, c1) -> save_xmi c1 = Ok (d, c1).
End CodecStatements.
