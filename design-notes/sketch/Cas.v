(* DESIGN NOTE, not part of the development: type-checked signatures and theorem statements (as Props)
   written during the design phase.  The development proper will be created under /verif/coq. *)
From Sk Require Import Base TS.
(* --- CAS state: mirrors cassis/cas.py Sofa / View / Cas and typesystem.FeatureStructure --- *)
Definition flt := string.          (* float.hex() of the double, or "nan" / "inf" / "-inf": floats are opaque tokens *)
Inductive val :=
 | VNone | VInt (z : Z) | VFlt (x : flt) | VBool (b : bool) | VStr (s : string)
 | VRef (o : oid)                  (* reference to a FeatureStructure object *)
 | VList (l : list val)            (* Python list: the `elements` slot of array FS *)
 | VSofa (n : string).             (* reference to the Sofa object of view n *)
Record fsobj := mkFs { o_type : tname; o_id : option xid; o_slots : list (fname * val) }.
Definition heap := list (oid * fsobj).
Fixpoint hget (h : heap) (o : oid) : option fsobj :=
  match h with [] => None | (o', f) :: r => if N.eqb o o' then Some f else hget r o end.

(* C03: Utf16CodepointOffsetConverter *)
Definition text := list N.                               (* code points *)
Definition u16size (c : N) : Z := if (c <? 65536)%N then 1%Z else 2%Z.   (* len(c.encode("utf-16-le")) // 2 *)
Fixpoint accumulate (acc : Z) (t : text) : list Z :=    (* [0] + list(itertools.accumulate(sizes)) *)
  acc :: match t with [] => [] | c :: r => accumulate (acc + u16size c) r end.
Record conv := mkConv { py2ext_tbl : list (Z * Z); ext2py_tbl : list (Z * Z) }.   (* the two dicts, as built by dict(zip(..)) : last binding wins *)
Fixpoint zlookup_last (k : Z) (l : list (Z * Z)) : option Z :=
  match l with [] => None | (k', v) :: r => match zlookup_last k r with Some w => Some w | None => if Z.eqb k k' then Some v else None end end.
Fixpoint zrange (i : Z) (n : nat) : list Z := match n with O => [] | S k => i :: zrange (i + 1) k end.
Definition mk_conv (t : text) : conv :=
  let acc := accumulate 0 t in let idx := zrange 0 (List.length acc) in
  mkConv (combine idx acc) (combine acc idx).
Definition py2ext (c : option conv) (i : Z) : Z := match c with None => i | Some c => match zlookup_last i (py2ext_tbl c) with Some j => j | None => i end end.
Definition ext2py (c : option conv) (j : Z) : Z := match c with None => j | Some c => match zlookup_last j (ext2py_tbl c) with Some i => i | None => j end end.
(* independent specification: UTF-16 length of the first i code points *)
Definition utf16_len (t : text) : Z := fold_right (fun c a => u16size c + a)%Z 0%Z t.
Definition valid_cp (c : N) : Prop := (c < 1114112)%N /\ ~ (55296 <= c < 57344)%N.

Definition C03_py2ext_is_utf16_prefix_len_stmt : Prop := forall t i, (0 <= i <= Z.of_nat (List.length t))%Z ->
  py2ext (Some (mk_conv t)) i = utf16_len (firstn (Z.to_nat i) t).
Definition C03_inverse_stmt : Prop := forall t i, (0 <= i <= Z.of_nat (List.length t))%Z ->
  ext2py (Some (mk_conv t)) (py2ext (Some (mk_conv t)) i) = i.
Definition C03_strict_mono_stmt : Prop := forall t i j, (0 <= i < j)%Z -> (j <= Z.of_nat (List.length t))%Z ->
  (py2ext (Some (mk_conv t)) i < py2ext (Some (mk_conv t)) j)%Z.
Definition C03_bmp_identity_stmt : Prop := forall t i, Forall (fun c => (c < 65536)%N) t -> (0 <= i <= Z.of_nat (List.length t))%Z ->
  py2ext (Some (mk_conv t)) i = i /\ ext2py (Some (mk_conv t)) i = i.
Definition C03_non_boundary_passthrough_stmt : Prop := forall t j,
  (forall i, (0 <= i <= Z.of_nat (List.length t))%Z -> py2ext (Some (mk_conv t)) i <> j) -> ext2py (Some (mk_conv t)) j = j.

Record sofa := mkSofa { s_xid : xid; s_num : Z; s_name : string; s_text : option text;
                        s_mime : option string; s_uri : option string; s_arr : option oid; s_conv : option conv }.
(* index key: _sort_func; Python's id(a) is abstracted to the object label *)
Inductive ext := Fin (z : Z) | MaxSize.
Record key := mkKey { k_b : ext; k_e : ext; k_o : oid }.
Record view := mkView { v_sofa : sofa; v_index : list (tname * list key) }.
Record cas := mkCas { c_ts : tsys; c_views : list (string * view); c_heap : heap; c_next_id : Z; c_next_sofa : Z }.
Record handle := mkHandle { h_view : string; h_lenient : bool }.

Inductive casop :=
 | OpNewFs (o : oid) (t : tname) (kw : list (fname * val))
 | OpAdd (h : nat) (o : oid) (keep : bool) | OpRemove (h : nat) (o : oid)
 | OpCreateView (h : nat) (n : string) | OpGetView (h : nat) (n : string)
 | OpSetText (h : nat) (t : option text) | OpSetMime (h : nat) (m : option string)
 | OpSetSlot (o : oid) (f : fname) (v : val)
 | OpCreateType (n sup : tname) | OpCreateFeature (d : tname) (f : fname) (r : tname)
 | OpSelect (h : nat) (t : tname) | OpSelectAll (h : nat) | OpSelectCovered (h : nat) (t : tname) (b e : Z) | OpSelectCovering (h : nat) (t : tname) (b e : Z)
 | OpCoveredText (o : oid) | OpDocLang (h : nat) | OpToXmi (h : nat) | OpToJson (h : nat).
