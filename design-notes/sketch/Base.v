(* DESIGN NOTE, not part of the development: type-checked signatures and theorem statements (as Props)
   written during the design phase.  The development proper will be created under /verif/coq. *)
From Coq Require Export List String ZArith NArith Bool Lia Permutation Sorting.Sorted.
Export ListNotations.
Open Scope string_scope.
Open Scope list_scope.

Definition tname := string.
Definition fname := string.
Definition oid := N.
Definition xid := Z.

Inductive err := ETypeNotFound | EValue | ERuntime | EAttribute | EKey | EType | EDupId.
Inductive res (A : Type) := Ok (a : A) | Err (e : err) | OutOfFuel.
Arguments Ok {A}. Arguments Err {A}. Arguments OutOfFuel {A}.
Definition bind {A B} (r : res A) (f : A -> res B) : res B :=
  match r with Ok a => f a | Err e => Err e | OutOfFuel => OutOfFuel end.
Notation "'do' x <- r ;; k" := (bind r (fun x => k)) (at level 200, x pattern, r at level 100, k at level 200).

Fixpoint alookup {V} (k : string) (l : list (string * V)) : option V :=
  match l with [] => None | (k', v) :: r => if String.eqb k k' then Some v else alookup k r end.
