(* DESIGN NOTE, not part of the development: type-checked signatures and theorem statements (as Props)
   written during the design phase.  The development proper will be created under /verif/coq. *)
From Sk Require Import Base TS Cas.
(* --- Cas._find_all_fs : worklist over the heap, visited map keyed by xmi:id, id assignment --- *)
Definition is_array_t (n : tname) : bool :=
  existsb (String.eqb n) ["uima.cas.FSArray";"uima.cas.FloatArray";"uima.cas.IntegerArray";"uima.cas.BooleanArray";"uima.cas.ByteArray";
                          "uima.cas.ShortArray";"uima.cas.LongArray";"uima.cas.DoubleArray";"uima.cas.StringArray"].
Definition is_list_t (n : tname) : bool :=
  existsb (String.eqb n) ["uima.cas.FSList";"uima.cas.IntegerList";"uima.cas.FloatList";"uima.cas.StringList"].
Definition is_prim_name (n : tname) : bool :=
  existsb (String.eqb n) ["uima.cas.Boolean";"uima.cas.Byte";"uima.cas.Short";"uima.cas.Integer";"uima.cas.Long";"uima.cas.Float";"uima.cas.Double";"uima.cas.String"].
Definition is_primitive (ts : tsys) (n : tname) : res bool :=
  match ancestors (S (List.length (ts_types ts))) ts n with None => OutOfFuel | Some l => Ok (existsb is_prim_name l) end.

Fixpoint zfind {V} (k : Z) (l : list (Z * V)) : option V := match l with [] => None | (k', v) :: r => if Z.eqb k k' then Some v else zfind k r end.
Definition slot (f : fsobj) (n : fname) : val := match alookup n (o_slots f) with Some v => v | None => VNone end.
Fixpoint hset (h : heap) (o : oid) (f : fsobj) : heap :=
  match h with [] => [] | (o', g) :: r => if N.eqb o o' then (o, f) :: r else (o', g) :: hset r o f end.

Record wstate := mkW { w_heap : heap; w_next : Z; w_all : list (xid * oid); w_open : list oid }.
Definition visited_id (w : wstate) (h : heap) (o : oid) : bool :=          (* `ref.xmiID in all_fs` *)
  match hget h o with Some f => match o_id f with Some i => match zfind i (w_all w) with Some _ => true | None => false end | None => false end | None => false end.
Definition push_refs (w : wstate) (vs : list val) : list oid :=            (* `if not ref or ref.xmiID in all_fs: continue; openlist.append(ref)` *)
  flat_map (fun v => match v with VRef o => if visited_id w (w_heap w) o then [] else [o] | _ => [] end) vs.
(* inline FSList walk: `while hasattr(v, "head")` with the loop advanced on every iteration (post-fix) *)
Fixpoint list_heads (fuel : nat) (h : heap) (v : val) : option (list val) :=
  match fuel with O => None | S k =>
    match v with
    | VRef o => match hget h o with
                | Some f => if existsb (fun p => String.eqb (fst p) "head") (o_slots f)
                            then option_map (cons (slot f "head")) (list_heads k h (slot f "tail")) else Some []
                | None => Some [] end
    | _ => Some [] end end.

Definition step (inl : bool) (ts : tsys) (w : wstate) : res wstate :=
  match w_open w with
  | [] => Ok w
  | o :: rest =>
    let w := mkW (w_heap w) (w_next w) (w_all w) rest in
    match hget (w_heap w) o with None => Err EAttribute | Some f =>
    if match o_id f with Some 0%Z => true | _ => false end then Ok w else
    let '(i, w) := match o_id f with
                   | Some i => (i, w)
                   | None => (w_next w, mkW (hset (w_heap w) o (mkFs (o_type f) (Some (w_next w)) (o_slots f))) (w_next w + 1) (w_all w) (w_open w)) end in
    match zfind i (w_all w) with
    | Some o' => if N.eqb o o' then Ok w (* re-visit: falls through in the code; modelled in full in the development *) else Err EDupId
    | None =>
      let w := mkW (w_heap w) (w_next w) (w_all w ++ [(i, o)]) (w_open w) in
      match find_ty ts (o_type f) with None => Err ETypeNotFound | Some t =>
      if match t_super t with Some r => String.eqb (r_name r) "uima.cas.ArrayBase" | None => false end then
        if String.eqb (t_name t) "uima.cas.FSArray"
        then match slot f "elements" with VList l => Ok (mkW (w_heap w) (w_next w) (w_all w) (w_open w ++ push_refs w l)) | _ => Ok w end
        else Ok w
      else
        fold_left (fun (acc : res wstate) (ft : feat) =>
          do w <- acc ;;
          if String.eqb (f_name ft) "sofa" then Ok w else
          do p <- is_primitive ts (r_name (f_range ft)) ;;
          if p then Ok w else
          match slot f (f_name ft) with
          | VNone => Ok w
          | v =>
            if negb inl && negb (match f_multi ft with Some true => true | _ => false end)
               && (is_array_t (r_name (f_range ft)) || is_list_t (r_name (f_range ft))) then
              if String.eqb (r_name (f_range ft)) "uima.cas.FSArray" then
                match v with VRef a => match hget (w_heap w) a with
                   | Some af => match slot af "elements" with VList l => Ok (mkW (w_heap w) (w_next w) (w_all w) (w_open w ++ push_refs w l)) | _ => Ok w end
                   | None => Ok w end | _ => Ok w end
              else if String.eqb (r_name (f_range ft)) "uima.cas.FSList" then
                match list_heads (S (List.length (w_heap w))) (w_heap w) v with
                | None => OutOfFuel
                | Some hs => Ok (mkW (w_heap w) (w_next w) (w_all w) (w_open w ++ push_refs w hs)) end
              else Ok w
            else match v with
                 | VRef a => if visited_id w (w_heap w) a then Ok w else Ok (mkW (w_heap w) (w_next w) (w_all w) (w_open w ++ [a]))
                 | _ => Err EAttribute end
          end) (all_features t) (Ok w)
      end
    end end
  end.
Fixpoint run (fuel : nat) (inl : bool) (ts : tsys) (w : wstate) : res wstate :=
  match fuel with O => OutOfFuel | S k => match w_open w with [] => Ok w | _ => do w' <- step inl ts w ;; run k inl ts w' end end.

(* statements (C04 / C15 / C09) *)
Definition succs (ts : tsys) (h : heap) (o : oid) : list oid := []. (* placeholder: declarative successor relation, defined in the development *)
Definition edges (ts : tsys) (h : heap) : nat := fold_right (fun p a => (List.length (succs ts h (fst p)) + a)%nat) 0%nat h.
Definition C15_worklist_terminates_stmt : Prop := forall inl ts h next seeds, WF ts ->
  run (S (List.length seeds + edges ts h + List.length h)) inl ts (mkW h next [] seeds) <> OutOfFuel.
Definition C04_closed_stmt : Prop := forall inl ts h next seeds w fuel, WF ts ->
  run fuel inl ts (mkW h next [] seeds) = Ok w ->
  (forall o, In o seeds -> exists i, In (i, o) (w_all w) \/ (exists f, hget h o = Some f /\ o_id f = Some 0%Z)) /\
  (forall i o s, In (i, o) (w_all w) -> In s (succs ts (w_heap w) o) -> exists j, In (j, s) (w_all w)) /\
  NoDup (map fst (w_all w)) /\ NoDup (map snd (w_all w)).
