import warnings, random, math, sys, traceback, json
warnings.simplefilter("ignore")
from cassis import *
from cassis.typesystem import *
PRIMS = {TYPE_NAME_INTEGER:"int32", TYPE_NAME_LONG:"int64", TYPE_NAME_SHORT:"int16", TYPE_NAME_BYTE:"int8", TYPE_NAME_FLOAT:"float", TYPE_NAME_DOUBLE:"float", TYPE_NAME_BOOLEAN:"bool", TYPE_NAME_STRING:"str"}
ARRS = {TYPE_NAME_INTEGER_ARRAY:"int32", TYPE_NAME_LONG_ARRAY:"int64", TYPE_NAME_SHORT_ARRAY:"int16", TYPE_NAME_BYTE_ARRAY:"uint8", TYPE_NAME_FLOAT_ARRAY:"float", TYPE_NAME_DOUBLE_ARRAY:"float", TYPE_NAME_BOOLEAN_ARRAY:"bool", TYPE_NAME_STRING_ARRAY:"str"}
LISTS = {TYPE_NAME_INTEGER_LIST:("Integer","int32"), TYPE_NAME_FLOAT_LIST:("Float","float"), TYPE_NAME_STRING_LIST:("String","str")}
def rval(r, k):
    if k.startswith("int") or k=="uint8":
        bits = int(k.replace("uint","").replace("int","")); lo, hi = (0, 2**bits-1) if k=="uint8" else (-2**(bits-1), 2**(bits-1)-1)
        return r.choice([lo, hi, 0, 1, -1 if lo<0 else 2, r.randint(lo,hi)])
    if k=="float": return r.choice([0.0, -0.0, 1.5, 1e-7, 1e300, float("nan"), float("inf"), float("-inf"), 5e-324, r.random()*1e6, 1/3])
    if k=="bool": return r.random()<0.5
    if k=="str": return r.choice(["", "a", "a b", " lead", "x<y&\"z'", "é\U0001F600", "tab\there", "nl\nx", "1", "true"])
def canon_val(v, oid):
    if v is None: return None
    if isinstance(v, float): return ("f", "nan" if math.isnan(v) else v.hex())
    if isinstance(v, bool): return ("b", v)
    if isinstance(v, int): return ("i", v)
    if isinstance(v, str): return ("s", v)
    if isinstance(v, (bytes, bytearray)): return ("L", [("i", x) for x in v])
    if isinstance(v, list): return ("L", [canon_val(e, oid) for e in v])
    if hasattr(v, "sofaID"): return ("sofa", v.sofaID)
    return ("ref", oid(v))
def canon(cas, fmt):
    ts = cas.typesystem
    seen = {}; order = []
    def visit(fs):
        if fs is None or id(fs) in seen or hasattr(fs, "sofaID"): return
        if fs.type.name == "uima.cas.NULL": return
        seen[id(fs)] = fs; order.append(fs)
        for f in ts.get_type(fs.type.name).all_features:
            v = getattr(fs, f.name)
            if isinstance(v, list):
                for e in v:
                    if hasattr(e, "type"): visit(e)
            elif hasattr(v, "type") and not hasattr(v, "sofaID"): visit(v)
    views = {}
    for sofa in cas.sofas:
        v = cas.get_view(sofa.sofaID)
        for fs in v.select_all(): visit(fs)
    def inline(fs_owner, f):
        return fmt=="xmi" and not f.multipleReferencesAllowed and (is_array(f.rangeType) or is_list(f.rangeType))
    # compute which collection objects are inlined (xmi) -> by content
    def content(v):
        if v is None: return None
        if v.type.name == "uima.cas.NULL": return None
        if is_array(v.type): return ("arr", v.type.name, [cv(e) for e in (v.elements if v.elements is not None else [])])
        out = []; cur = v; n=0
        while hasattr(cur, "head"):
            out.append(cv(cur.head)); cur = cur.tail; n+=1
            if n>10000: raise Exception("cyc")
        return ("lst", out)
    def norm_s(x): return x
    def cv(v):
        if v is not None and hasattr(v, "type") and not hasattr(v,"sofaID") and v.type.name=="uima.cas.NULL": return None
        return canon_val(v, lambda o: o.xmiID)
    inl = set()
    for fs in order:
        for f in ts.get_type(fs.type.name).all_features:
            if inline(fs, f):
                v = getattr(fs, f.name)
                if v is not None:
                    cur = v
                    while cur is not None and hasattr(cur, "type") and id(cur) not in inl:
                        inl.add(id(cur)); cur = getattr(cur, "tail", None)
    out = {"views": {}, "fs": {}}
    for sofa in cas.sofas:
        v = cas.get_view(sofa.sofaID)
        out["views"][sofa.sofaID] = (sofa.xmiID, sofa.sofaNum, sofa.sofaString, sofa.mimeType, sorted(x.xmiID for x in v.select_all()))
    for fs in order:
        if id(fs) in inl: continue
        d = {"%t": fs.type.name}
        for f in ts.get_type(fs.type.name).all_features:
            v = getattr(fs, f.name)
            if inline(fs, f): d[f.name] = content(v)
            else: d[f.name] = cv(v)
        if fs.xmiID in out["fs"]: raise Exception("dup id in canon %s" % fs.xmiID)
        out["fs"][fs.xmiID] = d
    return out
def strnorm(x):
    # "" -> None inside string collections (xmi)
    if isinstance(x, dict): return {k: strnorm(v) for k,v in x.items()}
    if isinstance(x, (list,tuple)):
        t = type(x)
        if len(x)==3 and x[0]=="arr" and "String" in x[1]: return ("arr", x[1], [None if e==("s","") else e for e in x[2]])
        if len(x)==2 and x[0]=="lst": return ("lst", [None if e==("s","") else strnorm(e) for e in x[1]])
        if len(x)==2 and x[0]=="L": return ("L", [None if e==("s","") else strnorm(e) for e in x[1]])
        return t(strnorm(e) for e in x)
    return x
def gen(r):
    ts = TypeSystem()
    names = ["a.b.T0", "a.c.T1", "x.b.T2", "NoNs", "q.cas.T4", "q.type.T5"]
    types = []
    for i, n in enumerate(names):
        sup = r.choice([TYPE_NAME_ANNOTATION, TYPE_NAME_TOP] + [t.name for t in types])
        types.append(ts.create_type(n, sup))
    MyStr = ts.create_type("a.MyStr", TYPE_NAME_STRING)
    feats = {}
    for t in types:
        for j in range(r.randint(0,5)):
            kind = r.choice(["prim","arr","lst","ref","fsarr","fslist","top","mystr"])
            fn = r.choice(["f%d"%j, "self", "type", "begin", "end", "id", "g%d"%j]) if j else "f0"
            if ts.is_instance_of(t, TYPE_NAME_ANNOTATION) and fn in ("begin","end"): fn = "f%d"%j
            multi = r.choice([None, True, False])
            try:
                if kind=="prim": ts.create_feature(t, fn, r.choice(list(PRIMS)))
                elif kind=="arr": ts.create_feature(t, fn, r.choice(list(ARRS)), multipleReferencesAllowed=multi)
                elif kind=="lst": ts.create_feature(t, fn, r.choice(list(LISTS)), multipleReferencesAllowed=multi)
                elif kind=="ref": ts.create_feature(t, fn, r.choice(types).name)
                elif kind=="fsarr": ts.create_feature(t, fn, TYPE_NAME_FS_ARRAY, elementType=r.choice([None]+[x.name for x in types]), multipleReferencesAllowed=multi)
                elif kind=="fslist": ts.create_feature(t, fn, TYPE_NAME_FS_LIST, multipleReferencesAllowed=multi)
                elif kind=="top": ts.create_feature(t, fn, TYPE_NAME_TOP)
                elif kind=="mystr": ts.create_feature(t, fn, "a.MyStr")
            except ValueError: pass
    texts = [r.choice(["", "hello world", "a\U0001F600b\U00010000cé", "\U0010FFFF�xyz"]) for _ in range(r.randint(1,3))]
    cas = Cas(ts)
    views = [cas]
    cas.sofa_string = texts[0]; 
    if r.random()<0.7: cas.sofa_mime="text/plain"
    for i,t in enumerate(texts[1:]):
        v = cas.create_view("view%d"%i); v.sofa_string = t; views.append(v)
    fss = []
    n = r.randint(1, 12)
    for i in range(n):
        t = r.choice(types); fs = t(); fss.append(fs)
    def mklist(kindname, elems):
        E = ts.get_type("uima.cas.Empty%sList"%kindname); NE = ts.get_type("uima.cas.NonEmpty%sList"%kindname)
        cur = E()
        for e in reversed(elems): cur = NE(head=e, tail=cur)
        return cur
    shared = []
    for fs in fss:
        isann = ts.is_instance_of(fs.type, TYPE_NAME_ANNOTATION)
        if isann:
            vi = r.randrange(len(views)); L = len(texts[vi]); b = r.randint(0, L); fs.begin=b; fs.end=r.randint(b, L); fs.sofa = views[vi].get_sofa()
        for f in fs.type.all_features:
            if f.name in ("sofa",) or (isann and f.name in ("begin","end")): continue
            if r.random()<0.3: continue
            rn = f.rangeType.name
            if rn in PRIMS: v = rval(r, PRIMS[rn])
            elif rn == "a.MyStr": v = rval(r, "str")
            elif rn in ARRS: v = ts.get_type(rn)(elements=[rval(r, ARRS[rn]) for _ in range(r.choice([0,0,1,3]))])
            elif rn in LISTS: v = mklist(LISTS[rn][0], [rval(r, LISTS[rn][1]) for _ in range(r.choice([0,0,1,3]))])
            elif rn == TYPE_NAME_FS_ARRAY: v = ts.get_type(rn)(elements=[r.choice(fss+[None]) for _ in range(r.choice([0,1,3]))])
            elif rn == TYPE_NAME_FS_LIST: v = mklist("FS", [r.choice(fss+[None]) for _ in range(r.choice([0,1,3]))])
            elif rn == TYPE_NAME_TOP: v = r.choice(fss + [None])
            else: v = r.choice(fss)
            if f.multipleReferencesAllowed and shared and r.random()<0.3 and hasattr(v,"type"):
                cands = [s for s in shared if s.type.name == v.type.name or (is_list(rn) and s.type.name.replace("NonEmpty","").replace("Empty","")==rn)]
                if cands: v = r.choice(cands)
            if f.multipleReferencesAllowed and hasattr(v, "type") and (is_array(v.type) or "List" in v.type.name): shared.append(v)
            setattr(fs, f.name, v)
    for fs in fss:
        if r.random()<0.6:
            if hasattr(fs, "_v") if False else ts.is_instance_of(fs.type, TYPE_NAME_ANNOTATION):
                vi = [i for i,v in enumerate(views) if v.get_sofa() is fs.sofa][0]; views[vi].add(fs)
            else:
                for v in r.sample(views, r.randint(1,len(views))): v.add(fs)
    return ts, cas
def run(seed, fmt):
    r = random.Random(seed); ts, cas = gen(r)
    if fmt=="xmi":
        s = cas.to_xmi(); c0 = canon(cas, fmt); c2 = load_cas_from_xmi(s, ts); s2 = c2.to_xmi()
    else:
        s = cas.to_json(); c0 = canon(cas, fmt); c2 = load_cas_from_json(s); s2 = c2.to_json()
    c1 = canon(c2, fmt)
    if fmt=="xmi": c0, c1 = strnorm(c0), strnorm(c1)
    if json.dumps(c0, sort_keys=True, default=str) != json.dumps(c1, sort_keys=True, default=str):
        return "CONTENT", (c0, c1, s)
    if fmt=="json" and json.dumps(json.loads(s)["%FEATURE_STRUCTURES"], sort_keys=True) != json.dumps(json.loads(s2)["%FEATURE_STRUCTURES"], sort_keys=True): return "RESER", (s, s2)
    if fmt=="xmi" and s.replace("></","/>") != s2.replace("></","/>"):
        import re
        a = re.sub(r"<(\w+)></\1>", r"<\1/>", s); b = re.sub(r"<(\w+)></\1>", r"<\1/>", s2)
        if a != b: return "RESER", (s, s2)
    return None, None
if __name__ == "__main__":
    n = int(sys.argv[1]); stats = {}
    for seed in range(n):
        for fmt in ("xmi","json"):
            try: k, info = run(seed, fmt)
            except Exception as e:
                tb = traceback.extract_tb(e.__traceback__)[-1]
                k = "EXC %s %s @%s:%d" % (type(e).__name__, str(e)[:80], tb.filename.split("/")[-1], tb.lineno); info=None
            if k:
                key = (fmt, k if k.startswith("EXC") else k)
                stats.setdefault(key, []).append(seed)
    for k, v in sorted(stats.items(), key=lambda kv: -len(kv[1])): print(len(v), k, v[:6])
