#!/venv/bin/python
"""scratch: run one sub-suite standalone: run_sub.py C04json [tier] [seed]"""
import importlib, os, sys, time
os.environ.setdefault("PYTHONHASHSEED", "0")
sys.path.insert(0, "/verif")
from harness import core
mod = importlib.import_module("harness.props." + sys.argv[1])
tier = sys.argv[2] if len(sys.argv) > 2 else "quick"
seed = int(sys.argv[3]) if len(sys.argv) > 3 else 0
t0 = time.time()
cassis = core.load_impl()
out = core.run_subsuite(mod, {"cassis": cassis, "tier": tier, "seed": seed})
for name, ok, detail, sc in out:
    print("OK " if ok else "BAD", name, "|", str(detail)[:600])
print("wall", round(time.time() - t0, 1))
