import math
from cassis.typesystem import *
def canon_val(v, ids):
    if v is None: return None
    if isinstance(v, float):
        return ("f", "nan" if math.isnan(v) else repr(v))
    if isinstance(v, (bool,int,str)): return (type(v).__name__, v)
    if isinstance(v, (bytes, bytearray)): return ("bytes", list(v))
    if isinstance(v, list): return ("list", [canon_val(e, ids) for e in v])
    if hasattr(v, "sofaID"): return ("sofa", v.sofaID)
    if hasattr(v, "xmiID"): return ("ref", v.xmiID)
    return ("?", repr(v))
def canon_cas(cas, by_id=True):
    out = {"views": {}, "fs": {}}
    for sofa in cas.sofas:
        v = cas.get_view(sofa.sofaID)
        out["views"][sofa.sofaID] = dict(id=sofa.xmiID, num=sofa.sofaNum, text=sofa.sofaString, mime=sofa.mimeType, uri=sofa.sofaURI,
              arr=canon_val(sofa.sofaArray, None), members=sorted(x.xmiID for x in v.select_all()))
    for fs in cas._find_all_fs(include_inlinable_arrays_and_lists=True):
        d = {"%type": fs.type.name}
        for f in fs.type.all_features:
            d[f.name] = canon_val(getattr(fs, f.name), None)
        out["fs"][fs.xmiID] = d
    return out
def diff(a, b, path=""):
    if type(a) != type(b): print("DIFF", path, a, b); return 1
    n = 0
    if isinstance(a, dict):
        for k in sorted(set(a)|set(b), key=str):
            if k not in a: print("DIFF", path+"/"+str(k), "<absent>", b[k]); n+=1
            elif k not in b: print("DIFF", path+"/"+str(k), a[k], "<absent>"); n+=1
            else: n += diff(a[k], b[k], path+"/"+str(k))
    elif a != b: print("DIFF", path, a, b); n=1
    return n
