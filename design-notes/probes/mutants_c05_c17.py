# Mutant runner used for the C05 / C17 reports: scratch worktree /tmp/xmir-wt of /repo HEAD, one mutant at a time, suite + ./check.
# Usage: git -C /repo worktree add /tmp/xmir-wt HEAD; /venv/bin/python design-notes/probes/mutants_c05_c17.py C05|C17 [names...]
import subprocess, sys, os, json, re
WT="/tmp/xmir-wt"
prop=sys.argv[1]
only=sys.argv[2:] 
def sh(cmd, **kw):
    return subprocess.run(cmd, shell=True, capture_output=True, text=True, **kw)
X="cassis/xmi.py"; C="cassis/cas.py"
OLD_3eb = [
 (X, '''        def python_name(name: str) -> str:
            return name + "_" if name in ("self", "type") else name

        attributes = {python_name(name): value for name, value in elem.attrib.items()}
        children = {python_name(name): value for name, value in children.items()}
        attributes.update(children)
''', '''        attributes = dict(elem.attrib)
        attributes.update(children)
'''),
 (X, '''        integer_names = []
        if typesystem.is_instance_of(AnnotationType, TYPE_NAME_ANNOTATION_BASE):
            integer_names.append(FEATURE_BASE_NAME_SOFA)
        if typesystem.is_instance_of(AnnotationType, TYPE_NAME_ANNOTATION):
            integer_names.extend([FEATURE_BASE_NAME_BEGIN, FEATURE_BASE_NAME_END])
        for name in integer_names:
            if name in attributes:
                attributes[name] = int(attributes[name])
''', '''        if "begin" in attributes:
            attributes["begin"] = int(attributes["begin"])

        if "end" in attributes:
            attributes["end"] = int(attributes["end"])

        if "sofa" in attributes:
            attributes["sofa"] = int(attributes["sofa"])

        if "self" in attributes:
            attributes["self_"] = attributes.pop("self")

        if "type" in attributes:
            attributes["type_"] = attributes.pop("type")
'''),
 (X, '''                if feature_name == "sofa" and typesystem.is_instance_of(t, TYPE_NAME_ANNOTATION_BASE):''', '''                if feature_name == "sofa":'''),
]
M = {
 "C05": {
  "sofa_at_parse_time": [(X, '''                        try:
                            fs = self._parse_feature_structure(typesystem, elem, children)''', '''                        try:
                            if "sofa" in elem.attrib and int(elem.attrib["sofa"]) not in sofas:
                                raise KeyError(elem.attrib["sofa"])
                            fs = self._parse_feature_structure(typesystem, elem, children)''')],
  "lenient_ids_inverted": [(X, "if member_id in lenient_ids:", "if member_id not in lenient_ids:")],
  "children_reversed": [(X, "children[elem.tag].append(elem.text)", "children[elem.tag].insert(0, elem.text)")],
  "first_sofa_table": [(X, '''                fs.begin = fs.sofa._offset_converter.external_to_python(fs.begin)
                fs.end = fs.sofa._offset_converter.external_to_python(fs.end)''', '''                first = next(iter(sofas.values()))
                fs.begin = first._offset_converter.external_to_python(fs.begin)
                fs.end = first._offset_converter.external_to_python(fs.end)''')],
  "revert_9dcf2dd": "9dcf2dd",
  "revert_3eb4f35": OLD_3eb,
  "revert_111b9aa": "111b9aa",
  "forward_ref_lookup": [(X, '''                        target_id = int(value)
                        fs[feature_name] = feature_structures[target_id]''', '''                        target_id = int(value)
                        seen = list(feature_structures)
                        if target_id not in seen[: seen.index(xmi_id) + 1] and target_id != 0:
                            raise KeyError(target_id)
                        fs[feature_name] = feature_structures[target_id]''')],
  "revert_32a3d1b": "32a3d1b",
  "revert_bab0472": "bab0472",
  "revert_645c868": "645c868",
  "harmless_rewrite": [(X, '''        members = [int(e) for e in attributes.get("members", "").strip().split()]''', '''        members = list(map(int, attributes.get("members", "").split()))''')],
 },
 "C17": {
  "swallow_keyerror": [(X, '''                        except TypeNotFoundError as e:
                            if not lenient:
                                raise e
''', '''                        except TypeNotFoundError as e:
                            if not lenient:
                                raise e
'''), (X, '''                        target_id = int(value)
                        fs[feature_name] = feature_structures[target_id]''', '''                        target_id = int(value)
                        if lenient and target_id not in feature_structures:
                            fs[feature_name] = None
                            continue
                        fs[feature_name] = feature_structures[target_id]''')],
  "members_unknown_as_none": [(X, '''                if member_id in lenient_ids:
                    continue

                fs = feature_structures[member_id]''', '''                if member_id in lenient_ids:
                    view._current_view._indices["uima.cas.TOP"].add(typesystem.get_type("uima.cas.TOP")(xmiID=member_id))
                    continue

                fs = feature_structures[member_id]''')],
  "strict_warns": [(X, '''                            if not lenient:
                                raise e
''', '''                            if not lenient:
                                warnings.warn(e.message)
''')],
  "revert_779cf12": [(C, "result = Cas(self._typesystem, lenient=self._lenient)", "result = Cas(self._typesystem)")],
  "revert_1700993": [(C, "not self._typesystem.contains_type(annotation.type.name, True)", "not self._typesystem.contains_type(annotation.type.name)")],
  "dropped_ids_kept_in_members": [(X, '''                                lenient_ids.add(int(xmiID))''', '''                                pass''')],
  "revert_32a3d1b": "32a3d1b",
  "lenient_drops_first_known": [(X, '''                            fs = self._parse_feature_structure(typesystem, elem, children)
                            feature_structures[fs.xmiID] = fs''', '''                            fs = self._parse_feature_structure(typesystem, elem, children)
                            if not (lenient and fs.type.name.endswith("T0") and len(feature_structures) <= 2):
                                feature_structures[fs.xmiID] = fs''')],
  "harmless_rewrite": [(X, '''        members = [int(e) for e in attributes.get("members", "").strip().split()]''', '''        members = list(map(int, attributes.get("members", "").split()))''')],
 },
}
res = {}
for name, spec in M[prop].items():
    if only and name not in only: continue
    sh(f"git -C {WT} reset --hard -q HEAD && git -C {WT} clean -fdq")
    if isinstance(spec, str):
        r = sh(f"git -C {WT} revert --no-commit {spec}")
        if r.returncode: print(name, "REVERT FAILED", r.stderr[:200]); continue
    else:
        ok=True
        for f, a, b in spec:
            p=os.path.join(WT,f); s=open(p).read()
            if s.count(a)!=1: print(name, "PATTERN COUNT", s.count(a), a[:60]); ok=False; break
            open(p,"w").write(s.replace(a,b))
        if not ok: continue
    t = sh(f"cd {WT} && /venv/bin/python -m pytest -q -p no:cacheprovider -x tests 2>&1 | tail -1")
    c = sh(f"cd /verif && VERIF_REPO={WT} VERIF_SEED={os.environ.get('VERIF_SEED','0')} ./check {prop} 2>&1 | tail -4")
    line = c.stdout.strip().split("\n")
    print("==", name, "| suite:", t.stdout.strip()[-60:], "|", " / ".join(l[:230] for l in line[-3:]))
    sys.stdout.flush()
sh(f"git -C {WT} reset --hard -q HEAD")
