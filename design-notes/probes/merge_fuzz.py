import itertools, warnings, sys
warnings.simplefilter("ignore")
from cassis import *
from cassis.typesystem import *
NAMES = ["a.A", "a.B", "a.C"]
SUPS = [TYPE_NAME_ANNOTATION] + NAMES
FEATS = [None, ("f", TYPE_NAME_STRING), ("f", TYPE_NAME_INTEGER)]
def build(decl):
    # decl: dict name -> (sup, feat) ; create in dependency order; return None if cyclic/missing sup
    ts = TypeSystem(); done = set()
    for _ in range(len(decl)+1):
        for n,(sup,feat) in decl.items():
            if n in done: continue
            if sup in NAMES and sup not in done:
                continue
            t = ts.create_type(n, sup); done.add(n)
            if feat: ts.create_feature(t, feat[0], feat[1])
    return ts if len(done)==len(decl) else None
def all_ts():
    out = []
    for k in range(1, 4):
        for names in itertools.combinations(NAMES, k):
            for sups in itertools.product(SUPS, repeat=k):
                if any(s == n for s, n in zip(sups, names)): continue
                if any(s in NAMES and s not in names for s in sups): continue
                for feats in itertools.product(FEATS, repeat=k):
                    decl = {n:(s,f) for n,s,f in zip(names,sups,feats)}
                    try: ts = build(decl)
                    except ValueError: ts = None
                    if ts is not None: out.append((decl, ts))
    return out
def dump(ts):
    d = {}
    for t in ts.get_types():
        if t.name == TYPE_NAME_DOCUMENT_ANNOTATION: continue
        d[t.name] = (t.supertype.name, tuple(sorted((f.name, f.rangeType.name) for f in t.all_features if f.name=="f")), tuple(sorted(c.name for c in t.children)))
    return d
def consistent(ts):
    for t in ts.get_types():
        sup = t.supertype
        if t.name not in [c.name for c in sup.children]: return "child link missing %s" % t.name
        for c in t.children:
            if c.supertype is not t: return "child %s of %s has other super" % (c.name, t.name)
        names = [f.name for f in t.all_features]
        if len(names) != len(set(names)): return "dup feature in %s" % t.name
        exp = set()
        cur = t
        while cur is not None:
            exp |= {f.name for f in cur.features}; cur = cur.supertype
        if exp != set(names): return "effective features wrong in %s: %s vs %s" % (t.name, sorted(exp), sorted(names))
    return None
def merge(*tss):
    try: return ("ok", merge_typesystems(*tss))
    except ValueError as e: return ("err", str(e)[:60])
    except RecursionError: return ("recursion", None)
def side_condition(d1, d2):
    # for each type declared in both with different supertypes, the competing supertypes must be declared identically wherever declared
    for n in set(d1) & set(d2):
        s1, s2 = d1[n][0], d2[n][0]
        if s1 != s2:
            for s in (s1, s2):
                if s in NAMES:
                    decls = [d[s][0] for d in (d1, d2) if s in d]
                    if len(set(decls)) > 1: return False
    return True
tss = all_ts(); print("type systems:", len(tss))
stats = {"pairs":0, "sc":0, "order_diff":0, "inconsistent":0, "parity":0}
examples = {}
import random; rnd = random.Random(0)
pairs = [(a,b) for a in tss for b in tss]
rnd.shuffle(pairs)
for (d1,t1),(d2,t2) in pairs[:int(sys.argv[1])]:
    stats["pairs"] += 1
    r12 = merge(t1,t2); r21 = merge(t2,t1)
    for r in (r12, r21):
        if r[0]=="ok":
            c = consistent(r[1])
            if c: stats["inconsistent"] += 1; examples.setdefault("inconsistent", (d1,d2,c))
        if r[0]=="recursion": stats["inconsistent"] += 1; examples.setdefault("recursion", (d1,d2))
    if not side_condition(d1,d2): continue
    stats["sc"] += 1
    if r12[0] != r21[0]: stats["parity"] += 1; examples.setdefault("parity", (d1,d2,r12[0],r21[0], r12[1] if r12[0]=="err" else r21[1]))
    elif r12[0]=="ok" and dump(r12[1]) != dump(r21[1]): stats["order_diff"] += 1; examples.setdefault("order_diff", (d1,d2,dump(r12[1]),dump(r21[1])))
print(stats)
for k,v in examples.items(): print(k, v)
