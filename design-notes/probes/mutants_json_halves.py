#!/venv/bin/python
"""scratch: apply one textual mutant to a worktree of /repo, run the suite (optional) and ./check <ID>."""
import os, re, subprocess, sys, glob
WT = "/tmp/bjson-wt"
M = {
 "elements_self": ("C04", "cassis/json.py",
    "json_fs[ELEMENTS_FIELD] = [self._serialize_ref(e) for e in fs.elements]",
    "json_fs[ELEMENTS_FIELD] = [self._serialize_ref(fs) for e in fs.elements]"),
 "top_no_at": ("C04", "cassis/json.py",
    "                json_fs[REF_FEATURE_PREFIX + feature_name] = self._serialize_ref(value)",
    "                json_fs[(\"\" if feature.rangeType.name == \"uima.cas.TOP\" else REF_FEATURE_PREFIX) + feature_name] = self._serialize_ref(value)"),
 "members_wrong_view": ("C04", "cassis/json.py",
    "            views[view.sofa.sofaID] = self._serialize_view(view)",
    "            views[view.sofa.sofaID] = {VIEW_SOFA_FIELD: view.sofa.xmiID, VIEW_MEMBERS_FIELD: self._serialize_view(cas.views[0])[VIEW_MEMBERS_FIELD]}"),
 "revert_a7ade58": ("C05", "cassis/json.py",
    "parse_and_add(sofa_byte_array_ref, json_feature_structures.get(str(sofa_byte_array_ref)))",
    "parse_and_add(sofa_byte_array_ref, json_feature_structures.get(sofa_byte_array_ref))"),
 "dict_ids_not_int": ("C05", "cassis/json.py",
    "parsed = self._parse_feature_structure(typesystem, int(fs_id_), json_fs_, feature_structures)",
    "parsed = self._parse_feature_structure(typesystem, fs_id_, json_fs_, feature_structures)"),
 "no_sofa_first_pass": ("C05", "cassis/json.py",
    """            for json_fs in json_feature_structures:
                if json_fs.get(TYPE_FIELD) != TYPE_NAME_SOFA:
                    parse_and_add(json_fs)
""",
    """            pass
"""),
 "harmless_sorted_removed": ("C04", "cassis/json.py",
    "for fs in sorted(cas._find_all_fs(include_inlinable_arrays_and_lists=True), key=lambda a: a.xmiID):",
    "for fs in cas._find_all_fs(include_inlinable_arrays_and_lists=True):"),
 "harmless_second_pass_reversed": ("C05", "cassis/json.py",
    """            for json_fs in json_feature_structures:
                if json_fs.get(TYPE_FIELD) != TYPE_NAME_SOFA:
                    parse_and_add(json_fs)
""",
    """            for json_fs in reversed(json_feature_structures):
                if json_fs.get(TYPE_FIELD) != TYPE_NAME_SOFA:
                    parse_and_add(json_fs)
"""),
}
def sh(cmd, **kw):
    p = subprocess.run(cmd, shell=True, capture_output=True, text=True, **kw)
    return p.returncode, p.stdout + p.stderr
name = sys.argv[1]
suite = "--suite" in sys.argv
prop, path, old, new = M[name]
if name == "no_sofa_first_pass":
    # single pass in document order: sofas and other structures as they come
    old = """            for json_fs in json_feature_structures:
                if json_fs.get(TYPE_FIELD) == TYPE_NAME_SOFA:
                    # In case the Sofa references a byte array that has not been parsed yet, we need to fetch it
                    sofa_byte_array_ref = json_fs.get(REF_FEATURE_PREFIX + FEATURE_BASE_NAME_SOFAARRAY)
                    if sofa_byte_array_ref and not feature_structures.get(sofa_byte_array_ref):
                        for json_fs_2 in json_feature_structures:
                            if json_fs_2.get(ID_FIELD) == sofa_byte_array_ref:
                                parse_and_add(json_fs_2)
                    fs_id = json_fs.get(ID_FIELD)
                    fs = self._parse_sofa(cas, fs_id, json_fs, feature_structures)
                    feature_structures[fs.xmiID] = fs
            for json_fs in json_feature_structures:
                if json_fs.get(TYPE_FIELD) != TYPE_NAME_SOFA:
                    parse_and_add(json_fs)
"""
    new = """            for json_fs in json_feature_structures:
                if json_fs.get(TYPE_FIELD) == TYPE_NAME_SOFA:
                    # In case the Sofa references a byte array that has not been parsed yet, we need to fetch it
                    sofa_byte_array_ref = json_fs.get(REF_FEATURE_PREFIX + FEATURE_BASE_NAME_SOFAARRAY)
                    if sofa_byte_array_ref and not feature_structures.get(sofa_byte_array_ref):
                        for json_fs_2 in json_feature_structures:
                            if json_fs_2.get(ID_FIELD) == sofa_byte_array_ref:
                                parse_and_add(json_fs_2)
                    fs_id = json_fs.get(ID_FIELD)
                    fs = self._parse_sofa(cas, fs_id, json_fs, feature_structures)
                    feature_structures[fs.xmiID] = fs
                elif json_fs.get(ID_FIELD) not in feature_structures:
                    parse_and_add(json_fs)
"""
if not os.path.isdir(WT):
    rc, out = sh(f"git -C /repo worktree add -q --detach {WT} HEAD"); assert rc == 0, out
sh("git checkout -q -- .", cwd=WT)
src = open(os.path.join(WT, path)).read()
if src.count(old) != 1:
    print(f"{name}: PATTERN NOT FOUND ({src.count(old)} occurrences)"); sys.exit(2)
open(os.path.join(WT, path), "w").write(src.replace(old, new))
if suite:
    rc, out = sh("/venv/bin/python -m pytest -q -p no:cacheprovider -x tests 2>&1 | tail -1", cwd=WT)
    print(f"{name}: suite: {out.strip()}")
before = set(glob.glob("/verif/replays/*"))
rc, out = sh(f"VERIF_REPO={WT} /verif/check {prop}", cwd="/verif")
viol = re.findall(r"^VIOLATION .*$", out, flags=re.M)
print(f"{name}: check {prop} exit={rc} violations={len(viol)}")
for v in viol[:3]:
    print("   ", v)
    m = re.search(r"replay=(\S+)", v)
    if m and os.path.exists(m.group(1)):
        import json
        rp = json.load(open(m.group(1)))
        print("      ", rp.get("kind"), rp.get("found_by"), "|", str(rp.get("failure", rp.get("detail", "")))[:260])
print("   ", [l for l in out.split("\n") if l.startswith("[")][-1:])
for f in set(glob.glob("/verif/replays/*")) - before:
    os.remove(f)
sh("git checkout -q -- .", cwd=WT)
