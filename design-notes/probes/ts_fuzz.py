import random, re, sys, warnings
warnings.simplefilter("ignore")
from cassis import *
from cassis.typesystem import *
RANGES = [TYPE_NAME_STRING, TYPE_NAME_INTEGER, TYPE_NAME_FS_ARRAY, TYPE_NAME_FS_LIST, TYPE_NAME_STRING_ARRAY, TYPE_NAME_TOP, TYPE_NAME_INTEGER_LIST, TYPE_NAME_DOUBLE]
def gen(r):
    ts = TypeSystem(); names = []
    pool = ["a.b.T%d" % i for i in range(4)] + ["NoNs", "x.y.T0", "q.S"]
    for n in r.sample(pool, r.randint(1, len(pool))):
        sup = r.choice([TYPE_NAME_ANNOTATION, TYPE_NAME_TOP, TYPE_NAME_DOCUMENT_ANNOTATION] + names) if n != "q.S" else TYPE_NAME_STRING
        ts.create_type(n, sup, description=r.choice([None, "desc", " padded ", "multi\nline", "", "<&>"])); names.append(n)
    for n in names:
        if n == "q.S": continue
        for j in range(r.randint(0, 3)):
            rng = r.choice(RANGES + names)
            elem = r.choice([None] + [x for x in names if x != "q.S"]) if rng in (TYPE_NAME_FS_ARRAY, TYPE_NAME_FS_LIST) else None
            try: ts.create_feature(n, r.choice(["f%d"%j, "self", "type", "g"]), rng, elementType=elem, description=r.choice([None, "d", " d "]), multipleReferencesAllowed=r.choice([None, True, False]))
            except ValueError: pass
    if r.random() < 0.3:
        try: ts.create_feature(TYPE_NAME_DOCUMENT_ANNOTATION, "docfeat", TYPE_NAME_STRING)
        except ValueError: pass
    return ts
def dump(ts):
    d = {}
    for t in ts.get_types():
        d[t.name] = (t.supertype.name, (t.description or "").strip() or None,
                     [(f.name, f.rangeType.name, f.elementType.name if f.elementType else None, f.multipleReferencesAllowed, (f.description or "").strip() or None, f._has_reserved_name) for f in t.features])
    return d
stats = {}
def bump(k, seed): stats.setdefault(k, []).append(seed)
for seed in range(int(sys.argv[1])):
    r = random.Random(seed)
    try:
        ts = gen(r); x = ts.to_xml(); ts2 = load_typesystem(x)
        if dump(ts) != dump(ts2): bump("roundtrip-diff", seed); continue
        x2 = ts2.to_xml(); ts3 = load_typesystem(x2); x3 = ts3.to_xml()
        if x2 != x3: bump("reemit-diff", seed)
        types = re.findall(r"<typeDescription>.*?</typeDescription>", x, re.S)
        if types:
            r.shuffle(types)
            xp = x[:x.index("<typeDescription>")] + "".join(types) + x[x.rindex("</typeDescription>")+len("</typeDescription>"):]
            tsp = load_typesystem(xp)
            if dump(tsp) != dump(ts2): 
                # order of types in dump is dict order; compare as dict
                bump("perm-diff", seed)
            if tsp.to_xml() != x2: bump("perm-xml-diff", seed)
    except Exception as e:
        bump("EXC %s %s" % (type(e).__name__, str(e)[:70]), seed)
for k, v in sorted(stats.items(), key=lambda kv: -len(kv[1])): print(len(v), k, v[:5])
print("done")
