import sys, time, random, json, collections
sys.path.insert(0, "/verif")
from harness import core
from harness.props import C13
cassis = core.load_impl()
tier = sys.argv[1] if len(sys.argv) > 1 else "quick"
seed = int(sys.argv[2]) if len(sys.argv) > 2 else 0
rng = random.Random(seed)
t0 = time.time()
scs = list(C13.generate(rng, tier))
print("generated", len(scs), time.time() - t0)
fails = collections.Counter(); ex = {}
t0 = time.time(); size = 0
for sc in scs:
    obs = C13.run_impl(cassis, sc)
    m = C13.oracle(cassis, sc, obs)
    size += len(C13.render(sc, obs))
    if m:
        k = m[:70]
        fails[k] += 1; ex.setdefault(k, (sc, m))
print("ran", time.time() - t0, "render bytes", size)
print(C13.distribution(scs, None if False else [None]*0) if False else "")
for k, v in fails.most_common(): print(v, k); print("   ", json.dumps(ex[k][0]["inputs"]), "\n   ", ex[k][1][:400])
print(json.dumps(C13.distribution(scs, []), indent=0)[:800])
print("nontrivial", sum(1 for s in scs if C13.nontrivial(s)))
