#!/venv/bin/python
"""Final pass over the seeded changes, done the way the brief describes: each kept patch is applied to /repo ITSELF
(git -C /repo apply), the unedited suite and the demonstration are run, the check(s) run against /repo, and the patch
is undone straight afterwards (git -C /repo checkout -- .).  Nothing else may use /repo while this runs.

    harness/final_pass.py [seeded/C07/m1 ...]      (default: every seeded/C*/[mnpqr]* and seeded/harmless/h*)

Writes the verdict into meta.json under "final" and a summary to .work/final_pass.log; evidence/ is saved before and
restored afterwards (the runs in between describe changed trees).
"""
import glob
import json
import os
import re
import shutil
import subprocess
import sys

VERIF = os.path.dirname(os.path.dirname(os.path.abspath(__file__)))
# a change produced for one property whose violation is (also) the business of another property's check
ALSO = {"C04/n1": ["C09", "C08"], "C10/m2": ["C13"], "C01/m2": ["C03"], "C03/n2": ["C01", "C04"], "C15/p1": ["C13", "C10"],
        "C08/p1": ["C09"], "C09/p3": ["C02", "C05"], "C11/p3": ["C13"], "C02/p1": ["C05"], "C03/p2": ["C05", "C02"],
        "C03/p3": ["C08"], "C14/p1": ["C08"], "C14/p3": ["C03"], "C19/p3": ["C11"]}
ALL = ["C%02d" % i for i in range(1, 21)]


def sh(cmd, cwd=None, env=None, timeout=3600):
    p = subprocess.run(cmd, cwd=cwd, env=env, shell=isinstance(cmd, str), capture_output=True, text=True, timeout=timeout)
    return p.returncode, p.stdout + p.stderr


def run_check(pid):
    env = dict(os.environ)
    env.pop("VERIF_REPO", None)
    rc, out = sh([os.path.join(VERIF, "check"), pid, "--tier", "quick"], cwd=VERIF, env=env)
    viol = re.findall(r"^VIOLATION .*$", out, flags=re.M)
    known = re.findall(r"^KNOWN-FINDING.*$", out, flags=re.M)
    res = {"exit": rc, "violation": viol[:2], "known_finding_lines": len(known)}
    if viol:
        m = re.search(r"replay=(\S+)", viol[0])
        if m and os.path.exists(m.group(1)):
            rp = json.load(open(m.group(1)))
            res["replay_kind"] = rp.get("kind")
            res["failure"] = str(rp.get("failure", rp.get("problems", rp.get("note", ""))))[:240]
    return res


def main():
    dirs = sys.argv[1:] or sorted(glob.glob(os.path.join(VERIF, "seeded/C*/[mnpqr][0-9]")) + glob.glob(os.path.join(VERIF, "seeded/harmless/h*")))
    rc, out = sh("git -C /repo status --porcelain --untracked-files=no")
    assert out.strip() == "", "/repo has local changes: " + out
    log = open(os.path.join(VERIF, ".work", "final_pass.log"), "a")
    # the checks run against /repo and therefore rewrite evidence/ with runs on a CHANGED tree: keep the clean-tree files
    backup = os.path.join(VERIF, ".work", "evidence-before-final-pass")
    shutil.rmtree(backup, ignore_errors=True)
    shutil.copytree(os.path.join(VERIF, "evidence"), backup)
    try:
        run_all(dirs, log)
    finally:
        sh("git -C /repo checkout -- .")
        for f in os.listdir(backup):
            shutil.copy2(os.path.join(backup, f), os.path.join(VERIF, "evidence", f))
    rc, out = sh("git -C /repo status --porcelain --untracked-files=no")
    assert out.strip() == "", "/repo left dirty: " + out


def run_all(dirs, log):
    for d in dirs:
        d = os.path.abspath(d)
        key = "/".join(d.split("/")[-2:])
        mp = os.path.join(d, "meta.json")
        meta = json.load(open(mp)) if os.path.exists(mp) else {}
        harmless = "harmless" in d
        final = {"repo_head": sh("git -C /repo rev-parse --short HEAD")[1].strip()}
        try:
            rc, out = sh(f"git -C /repo apply {os.path.join(d, 'patch.diff')}")
            final["applies"] = rc == 0
            if rc != 0:
                final["note"] = "patch no longer applies to the current /repo (the lines were changed by a later fix commit)"
            else:
                rc, out = sh("/venv/bin/python -m pytest -q -p no:cacheprovider tests 2>&1 | tail -1", cwd="/repo")
                final["suite"] = out.strip()
                demo = os.path.join(d, "demo.py")
                if os.path.exists(demo):
                    env = dict(os.environ, PYTHONPATH="/repo")
                    final["demo_exit_with_change"] = sh(["/venv/bin/python", demo], cwd="/", env=env, timeout=900)[0]
                props = ALL if harmless else [key.split("/")[0]]
                final["checks"] = {}
                for p in props:
                    final["checks"][p] = run_check(p)
                own_caught = (not harmless) and final["checks"][props[0]]["exit"] != 0 and final["checks"][props[0]]["violation"]
                if not harmless and not own_caught:
                    for p in ALSO.get(key, []):
                        final["checks"][p] = run_check(p)
                if harmless:
                    final["verdict"] = "QUIET" if all(c["exit"] == 0 for c in final["checks"].values()) else "FALSE-ALARM " + ",".join(
                        p for p, c in final["checks"].items() if c["exit"] != 0)
                else:
                    caught = [p for p, c in final["checks"].items() if c["exit"] != 0 and c["violation"]]
                    final["verdict"] = ("CAUGHT by " + ",".join(caught)) if caught else "MISSED"
        finally:
            sh("git -C /repo checkout -- .")
            sh("git -C /repo clean -fdq -- cassis")
        if final.get("applies") and "demo_exit_with_change" in final:
            env = dict(os.environ, PYTHONPATH="/repo")
            final["demo_exit_without_change"] = sh(["/venv/bin/python", os.path.join(d, "demo.py")], cwd="/", env=env, timeout=900)[0]
        meta["final"] = final
        json.dump(meta, open(mp, "w"), indent=1)
        line = f"{key}: {final.get('verdict', 'DOES-NOT-APPLY')} suite={final.get('suite', '')[:14]} demo={final.get('demo_exit_with_change')}/{final.get('demo_exit_without_change')}"
        print(line, flush=True)
        log.write(line + "\n")
        log.flush()


if __name__ == "__main__":
    main()
