"""Bridge between the type-system histories of C10/C11 (harness/props/tscommon.py) and the type-system specs of the
heap-level checks (harness/scen.py: tspec, build_ts, schema_of).

scen.schema_of is the INDEPENDENT computation of the flattened schema (ancestor chain + effective features in
Type.all_features order) that every heap-level check renders with scen.g_schema and hands to its Coq model.  The C11
check compares it, inside Coq, with `Bridge.flatten` of the model's final type system (coq/Bridge.v, CorrC11.v), and
compares the same `flatten` with the schema read off the implementation's objects (impl_schema).

Domain of scen.schema_of (what scen.gen_tspec produces and scen.build_ts executes):
  D1  every feature is declared on a type of the tspec (none on a built-in type);
  D2  one definition per chain: a feature name is declared at most once on a type, its ancestors (built-in ones
      included) and its descendants;
  D3  (for the ORDER of the effective features) all types are created first, then all features, type by type in the
      order of the type list.
history_to_tspec reads the declarations off a history the way the C11 oracle does (tscommon.Tree: a successful
create_feature whose name is already effective is a no-op, not a declaration) and says which of D1-D3 hold.
"""
from harness import scen
from harness.props.tscommon import BUILTIN_NAMES, Tree


def tspec_to_ops(tspec):
    """the history scen.build_ts executes"""
    ops = [{"op": "ct", "n": t["name"], "s": t["super"], "d": None} for t in tspec]
    for t in tspec:
        for f in t["feats"]:
            ops.append({"op": "cf", "dom": t["name"], "n": f["name"], "r": f["range"], "e": f.get("elem"), "m": f.get("multi"), "d": None})
    return ops


def history_to_tspec(ops, outcomes):
    """-> (tspec, {"d1": bool, "d2": bool, "d3": bool}).  Declarations only: refused operations, instantiations and
    identical redefinitions (no-ops) do not appear.  Names are resolved to full names by the oracle's own bookkeeping."""
    tree = Tree()
    spec, by_name = [], {}
    d1 = d2 = True
    events = []                                    # ("ct", index in spec) | ("cf", index of the domain in spec)
    for op, out in zip(ops, outcomes):
        if op["op"] == "ct":
            known = op["n"] in tree.sup
            tree.apply(op, out)
            if out == "ok" and not known and op["n"] in tree.sup:
                by_name[op["n"]] = len(spec)
                spec.append({"name": op["n"], "super": tree.sup[op["n"]], "feats": []})
                events.append(("ct", by_name[op["n"]]))
        elif op["op"] == "cf":
            td = tree.resolve(op["dom"])
            py = scen.pyname(op["n"])
            had = td is not None and py in tree.own[td]
            below_defs = td is not None and any(py in tree.own[x] and td in tree.ancestors(x) for x in tree.sup)
            tree.apply(op, out)
            if out == "ok" and td is not None and not had and py in tree.own[td]:
                r, e, m, _d = tree.own[td][py]
                if below_defs:
                    d2 = False                     # a descendant defined the name first: two definitions on one chain
                if td not in by_name:
                    d1 = False                     # declared on a built-in type: not expressible as a tspec
                    continue
                spec[by_name[td]]["feats"].append({"name": op["n"], "range": r, "elem": e, "multi": m})
                events.append(("cf", by_name[td]))
        else:
            tree.apply(op, out)
    kinds = [k for k, _ in events]
    first_cf = kinds.index("cf") if "cf" in kinds else len(kinds)
    doms = [i for k, i in events if k == "cf"]
    d3 = "ct" not in kinds[first_cf:] and doms == sorted(doms)
    return spec, {"d1": d1, "d2": d2, "d3": d3}


def tspec_in_domain(tspec):
    """D1/D2 for a tspec as the heap-level checks write them (D3 holds by construction of scen.build_ts); returns None or
    a message.  Used by the audit in design-notes/reports/Bridge.md."""
    tree = Tree()
    for t in tspec:
        if t["name"] in tree.sup:
            return f"type {t['name']} declared twice / built-in"
        if t["super"] not in tree.sup:
            return f"supertype {t['super']} of {t['name']} is not declared before it"
        tree.sup[t["name"]] = t["super"]
        tree.own[t["name"]] = {}
    for t in tspec:
        for f in t["feats"]:
            py = scen.pyname(f["name"])
            if py in tree.effective(t["name"]):
                return f"{t['name']}.{f['name']} is already defined on the type or an ancestor"
            if any(py in tree.own[x] and t["name"] in tree.ancestors(x) for x in tree.sup):
                return f"{t['name']}.{f['name']} is already defined on a descendant"
            tree.own[t["name"]][py] = (f["range"], f.get("elem"), f.get("multi"), None)
    return None


def impl_schema(ts, names):
    """The flattened view read off the implementation's objects through the public API (supertype chain, all_features in
    the API's order), in scen.schema_of's shape."""
    out = {}
    for n in names:
        ty = ts.get_type(n)
        anc, cur, guard = [], ty, 0
        while cur is not None and guard < 500:
            anc.append(cur.name)
            cur, guard = cur.supertype, guard + 1
        out[n] = {"anc": anc,
                  "feats": [[f.name, f.name[:-1] if f._has_reserved_name else f.name, f.rangeType.name,
                             f.elementType.name if f.elementType is not None else None, bool(f.multipleReferencesAllowed)]
                            for f in ty.all_features]}
    return out


def scen_schema(cassis, tspec, names):
    """scen.schema_of restricted to `names`, JSON-able (lists instead of tuples)."""
    sch = scen.schema_of(cassis, tspec)
    return {n: {"anc": list(sch[n]["anc"]), "feats": [list(f) for f in sch[n]["feats"]]} for n in names if n in sch}


# ---- compact rendering for coq/CorrC11.v (abbreviations defined there; every abbreviation is used only when the observed
# value IS the abbreviated one, so nothing about the observation is assumed) ----
_ABBR = {"uima.tcas.Annotation": "tAn", "uima.cas.AnnotationBase": "tAb", "uima.cas.TOP": "tTop", "uima.cas.Sofa": "tSofa",
         "uima.cas.Integer": "tI", "uima.cas.String": "tS"}
_ANN_TAIL = ["uima.tcas.Annotation", "uima.cas.AnnotationBase", "uima.cas.TOP"]
_FD_ABBR = {("begin", "begin", "uima.cas.Integer", None, False): "Fb", ("end", "end", "uima.cas.Integer", None, False): "Fe",
            ("sofa", "sofa", "uima.cas.Sofa", None, False): "Fs"}
_UIMA = "uima.cas."


def _s(x):
    from harness.gallina import gstr
    return '"' + x + '"' if all(32 <= ord(c) < 127 and c != '"' for c in x) else gstr(x)      # string_scope is open in case files


def _name(n):
    if n in _ABBR:
        return _ABBR[n]
    return f"(U {_s(n[len(_UIMA):])})" if n.startswith(_UIMA) else _s(n)


def g_schema_compact(schema, names):
    """like scen.g_schema, with the constructors / constants Ti Fd F1 F0 A3 U tAn ... of CorrC11.v"""
    from harness.gallina import gbool, glist, gopt
    items = []
    for n in names:
        s = schema[n]
        fds = []
        for f in s["feats"]:
            key = (f[0], f[1], f[2], f[3], bool(f[4]))
            if key in _FD_ABBR:
                fds.append(_FD_ABBR[key])
            elif f[0] == f[1] and f[3] is None and not f[4]:
                fds.append(f"F0 {_s(f[0])} {_name(f[2])}")
            elif f[0] == f[1]:
                fds.append(f"F1 {_s(f[0])} {_name(f[2])} {gopt(f[3], _name)} {gbool(f[4])}")
            else:
                fds.append(f"Fd {_s(f[0])} {_s(f[1])} {_name(f[2])} {gopt(f[3], _name)} {gbool(f[4])}")
        anc = s["anc"]
        if len(anc) >= 3 and anc[-3:] == _ANN_TAIL:
            ganc = f"(A3 {glist([_name(a) for a in anc[:-3]], ';')})"
        else:
            ganc = glist([_name(a) for a in anc], ";")
        items.append(f"Ti {_name(n)} {ganc} {glist(fds, ';')}")
    return glist(items, ";")
