"""Abstract XMI documents for the harness (counterpart of coq/XmiDoc.v).  Standard library only: never cassis, never lxml.

parse(data)            bytes|str -> doc
doc  := {"root": {"ns": str, "tag": str, "attrs": [[name, value]]}, "elems": [elem]}       children of <xmi:XMI> in document order
elem := {"ns": namespace URI, "tag": local name, "attrs": [[name, value]], "kids": [[tag, text]]}
        attribute names: "xmi:id" for {http://www.omg.org/XMI}id, "{uri}local" for any other qualified name, else the plain name;
        values are unescaped; kids are the child elements in document order, text "" when the element has none
        (so <a/> and <a></a> are the same element: infoset level).
g_xdoc(doc)            Gallina term of type XmiDoc.xdoc
infoset(doc)           order of elements kept, attributes sorted: what "the same document" means for a re-save
canon(doc)             elements sorted as well (by xmi:id / kind): what "the same document modulo element and attribute order" means
write(doc, **knobs)    deliberately dumb writer abstract document -> bytes with presentation knobs, for the reader checks (C05):
                       order (permutation of element indices | random.Random), prefixes ("uima" | "fresh" | dict uri->prefix),
                       shuffle_attrs (random.Random | None), pretty (bool), omit_empty_views (bool), self_close (bool)
"""
import xml.etree.ElementTree as ET

from harness.gallina import glist, gstr

NS_XMI = "http://www.omg.org/XMI"
NS_CAS = "http:///uima/cas.ecore"


def _split(qname):
    if qname.startswith("{"):
        ns, _, local = qname[1:].partition("}")
        return ns, local
    return "", qname


def _attr_name(qname):
    ns, local = _split(qname)
    if ns == NS_XMI:
        return "xmi:" + local
    return qname if ns else local


def parse(data):
    if isinstance(data, str):
        data = data.encode("utf-8")
    root = ET.fromstring(data)
    rns, rtag = _split(root.tag)
    elems = []
    for el in root:
        ns, tag = _split(el.tag)
        kids = []
        for ch in el:
            cns, ctag = _split(ch.tag)
            kids.append([ctag if not cns else "{%s}%s" % (cns, ctag), ch.text or ""])
        elems.append({"ns": ns, "tag": tag, "attrs": [[_attr_name(k), v] for k, v in el.attrib.items()], "kids": kids})
    return {"root": {"ns": rns, "tag": rtag, "attrs": [[_attr_name(k), v] for k, v in root.attrib.items()]}, "elems": elems}


def is_cas(e, tag):
    return e["ns"] == NS_CAS and e["tag"] == tag


def attr(e, name, default=None):
    for k, v in e["attrs"]:
        if k == name:
            return v
    return default


def kind(e):
    for t in ("NULL", "Sofa", "View"):
        if is_cas(e, t):
            return t
    return "FS"


# ------------------------------------------------------------------------------------------------ rendering / comparison


def g_xelem(e):
    attrs = glist(["(%s, %s)" % (gstr(k), gstr(v)) for k, v in e["attrs"]])
    kids = glist(["(%s, %s)" % (gstr(k), gstr(v)) for k, v in e["kids"]])
    return "mkX %s %s %s %s" % (gstr(e["ns"]), gstr(e["tag"]), attrs, kids)


def g_xdoc(doc, sep=";\n  "):
    return glist([g_xelem(e) for e in doc["elems"]], sep)


def infoset(doc):
    return [[e["ns"], e["tag"], sorted(map(list, e["attrs"])), [list(k) for k in e["kids"]]] for e in doc["elems"]]


def canon(doc):
    def key(x):
        ns, tag, attrs, _kids = x
        rank = {"NULL": 0, "FS": 1, "Sofa": 2, "View": 3}[kind({"ns": ns, "tag": tag})]
        d = dict(attrs)
        ident = d.get("xmi:id", d.get("sofa", ""))
        try:
            ident = int(ident)
        except ValueError:
            ident = -1
        return (rank, ident, ns, tag, attrs)

    return sorted(infoset(doc), key=key)


# ------------------------------------------------------------------------------------------------ the dumb writer


def _esc_text(s):
    return s.replace("&", "&amp;").replace("<", "&lt;").replace(">", "&gt;").replace("\r", "&#13;")


def _esc_attr(s):
    return (s.replace("&", "&amp;").replace("<", "&lt;").replace(">", "&gt;").replace('"', "&quot;")
            .replace("\t", "&#9;").replace("\n", "&#10;").replace("\r", "&#13;"))


def _prefixes(doc, mode):
    uris = [NS_XMI, NS_CAS]
    for e in doc["elems"]:
        if e["ns"] and e["ns"] not in uris:
            uris.append(e["ns"])
    if isinstance(mode, dict):
        return {u: mode[u] for u in uris}
    out, used = {}, set()
    for i, u in enumerate(uris):
        if mode == "fresh":
            p = "n%d" % i
        else:
            p = "xmi" if u == NS_XMI else u[len("http:///"):].rsplit(".ecore", 1)[0].split("/")[-1] or "ns"
        base, k = p, 2
        while p in used:
            p = "%s%d" % (base, k)
            k += 1
        used.add(p)
        out[u] = p
    return out


def write(doc, order=None, prefixes="uima", shuffle_attrs=None, pretty=False, omit_empty_views=False, self_close=True):
    elems = list(doc["elems"])
    if omit_empty_views:
        elems = [e for e in elems if not (is_cas(e, "View") and not (attr(e, "members") or "").split())]
    if order is not None:
        if hasattr(order, "shuffle"):
            order.shuffle(elems)
        else:
            elems = [elems[i] for i in order if i < len(elems)]
    pf = _prefixes({"elems": elems}, prefixes)
    nl, ind = ("\n", "  ") if pretty else ("", "")

    def qattr(name):
        if name.startswith("xmi:"):
            return pf[NS_XMI] + ":" + name[4:]
        return name

    out = ['<?xml version="1.0" encoding="UTF-8"?>', nl]
    decl = " ".join('xmlns:%s="%s"' % (p, _esc_attr(u)) for u, p in pf.items())
    rattrs = (doc.get("root") or {}).get("attrs") or [["xmi:version", "2.0"]]
    out.append("<%s:XMI %s %s>%s" % (pf[NS_XMI], decl, " ".join('%s="%s"' % (qattr(k), _esc_attr(v)) for k, v in rattrs), nl))
    for e in elems:
        attrs = list(e["attrs"])
        if shuffle_attrs is not None:
            shuffle_attrs.shuffle(attrs)
        name = "%s:%s" % (pf[e["ns"]], e["tag"]) if e["ns"] else e["tag"]
        head = "<" + name + "".join(' %s="%s"' % (qattr(k), _esc_attr(v)) for k, v in attrs)
        if not e["kids"]:
            out.append(ind + head + ("/>" if self_close else "></%s>" % name) + nl)
            continue
        out.append(ind + head + ">" + nl)
        for k, v in e["kids"]:
            out.append(ind * 2 + ("<%s/>" % k if (v == "" and self_close) else "<%s>%s</%s>" % (k, _esc_text(v), k)) + nl)
        out.append(ind + "</%s>" % name + nl)
    out.append("</%s:XMI>%s" % (pf[NS_XMI], nl))
    return "".join(out).encode("utf-8")
