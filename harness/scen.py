"""Shared scenario IR for the heap-level properties (DESIGN.md section 2.5): type-system specs, CAS specs,
builders through the public API, an independent schema computation, canonical observation of a CAS by
identity-based traversal (never _find_all_fs / to_* / typecheck), generators and Gallina rendering.

tspec  := [ {"name": str, "super": str, "feats": [ {"name": str, "range": str, "elem": str|None, "multi": None|bool} ]} ]
          types are created in list order (supertypes first), then all features in list order.
cspec  := { "views":   [ {"name": str, "text": [codepoint]|None, "mime": str|None} ],          # views[0] is _InitialView
            "objs":    [ {"o": label>=1, "type": str, "id": int|None, "slots": {python_feature_name: value}} ],
            "members": [ [view_index, label] ] }                                                # in add order
value  := None | {"i": int} | {"f": float.hex()|"nan"|"inf"|"-inf"} | {"b": bool} | {"s": str}
        | {"ref": label} | {"list": [value]} | {"sofa": view_name}
Collections are objects of their own: arrays have one slot "elements" = {"list": [...]}, list nodes have "head"/"tail".
"""
import math

from harness.gallina import gbool, glist, gn, gopt, gstr, gz

T = "uima.cas."
PRIMS = {T + "Integer": "int32", T + "Long": "int64", T + "Short": "int16", T + "Byte": "int8", T + "Float": "float",
         T + "Double": "float", T + "Boolean": "bool", T + "String": "str"}
ARRS = {T + "IntegerArray": "int32", T + "LongArray": "int64", T + "ShortArray": "int16", T + "ByteArray": "uint8",
        T + "FloatArray": "float", T + "DoubleArray": "float", T + "BooleanArray": "bool", T + "StringArray": "str"}
LISTS = {T + "IntegerList": ("Integer", "int32"), T + "FloatList": ("Float", "float"), T + "StringList": ("String", "str")}
FS_ARRAY, FS_LIST, TOP, ANNOTATION = T + "FSArray", T + "FSList", T + "TOP", "uima.tcas.Annotation"
ANNOTATION_BASE = T + "AnnotationBase"
RESERVED = {"self": "self_", "type": "type_"}


def pyname(n):
    return RESERVED.get(n, n)


# ------------------------------------------------------------------------------------------------ type systems


def build_ts(cassis, tspec):
    ts = cassis.TypeSystem()
    for t in tspec:
        ts.create_type(t["name"], t["super"])
    for t in tspec:
        for f in t["feats"]:
            ts.create_feature(ts.get_type(t["name"]), f["name"], f["range"], elementType=f.get("elem"),
                              multipleReferencesAllowed=f.get("multi"))
    return ts


_BUILTIN = {}


def builtin_table(cassis):
    """name -> (supertype name | None, [(pyname, xname, range, elem, multi)]) of a fresh TypeSystem() (own features)."""
    if not _BUILTIN:
        ts = cassis.TypeSystem()
        for t in ts.get_types(built_in=True):
            _BUILTIN[t.name] = (t.supertype.name if t.supertype is not None else None,
                                [(f.name, f.name[:-1] if f._has_reserved_name else f.name, f.rangeType.name,
                                  f.elementType.name if f.elementType is not None else None,
                                  bool(f.multipleReferencesAllowed)) for f in t.features])
    return _BUILTIN


def schema_of(cassis, tspec):
    """Independent computation of ancestors and effective features (Type.all_features order: own features, then what
    was inherited when the type was created, then features later added to ancestors, in creation order)."""
    bt = builtin_table(cassis)
    sup = {n: s for n, (s, _f) in bt.items()}
    own = {n: list(f) for n, (_s, f) in bt.items()}
    user_order = []
    for t in tspec:
        sup[t["name"]] = t["super"]
        own[t["name"]] = []
    for t in tspec:
        for f in t["feats"]:
            fd = (pyname(f["name"]), f["name"], f["range"], f.get("elem"), bool(f.get("multi")))
            own[t["name"]].append(fd)
            user_order.append((t["name"], fd))
    user_names = {t["name"] for t in tspec}

    def anc(n):
        out = []
        while n is not None:
            out.append(n)
            n = sup.get(n)
        return out

    schema = {}
    for n in sup:
        a = anc(n)
        feats = list(own[n])
        seen = {f[0] for f in feats}
        # inherited at creation: the built-in features of the ancestors in supertype.all_features order
        inh = []

        def builtin_all(m):
            if m is None:
                return []
            res = [f for f in own[m] if m not in user_names]
            for f in builtin_all(sup.get(m)):
                if f[0] not in {g[0] for g in res}:
                    res.append(f)
            return res

        for f in builtin_all(sup.get(n)):
            if f[0] not in seen:
                inh.append(f)
                seen.add(f[0])
        for dom, fd in user_order:
            if dom != n and dom in a and fd[0] not in seen:
                inh.append(fd)
                seen.add(fd[0])
        schema[n] = {"anc": a, "feats": feats + inh}
    return schema


def g_schema(schema, names=None):
    items = []
    for n in (names if names is not None else sorted(schema)):
        s = schema[n]
        fds = glist([f"mkFd {gstr(f[0])} {gstr(f[1])} {gstr(f[2])} {gopt(f[3], gstr)} {gbool(f[4])}" for f in s["feats"]])
        items.append(f"mkTi {gstr(n)} {glist([gstr(a) for a in s['anc']])} {fds}")
    return glist(items, ";\n  ")


def used_type_names(schema, cspec):
    """Types needed to interpret a cspec: types of objects, their ancestors, ranges and element types, closed."""
    todo = [o["type"] for o in cspec["objs"]] + ["uima.cas.Sofa", ANNOTATION, "uima.cas.AnnotationBase"]
    seen = []
    while todo:
        n = todo.pop()
        if n in seen or n not in schema:
            continue
        seen.append(n)
        todo.extend(schema[n]["anc"])
        for f in schema[n]["feats"]:
            todo.append(f[2])
            if f[3]:
                todo.append(f[3])
            if f[2].endswith("List"):
                base = f[2][len(T):]
                todo.extend([T + "Empty" + base, T + "NonEmpty" + base])
    return sorted(seen)


# ------------------------------------------------------------------------------------------------ CAS


def fl(x):
    return "nan" if math.isnan(x) else ("inf" if x == math.inf else ("-inf" if x == -math.inf else x.hex()))


def unfl(s):
    return float(s) if s in ("nan", "inf", "-inf") else float.fromhex(s)


def build_cas(cassis, ts, cspec, lenient=False):
    cas = cassis.Cas(typesystem=ts, lenient=lenient)
    views = []
    for i, v in enumerate(cspec["views"]):
        view = cas if i == 0 else cas.create_view(v["name"])
        if v.get("text0") is not None and v.get("text") is not None:  # the text of the view is replaced: the offset table has to follow
            view.sofa_string = "".join(chr(c) for c in v["text0"])
        if v.get("text") is not None:
            view.sofa_string = "".join(chr(c) for c in v["text"])
        if v.get("mime") is not None:
            view.sofa_mime = v["mime"]
        views.append(view)
    vname = {v["name"]: views[i] for i, v in enumerate(cspec["views"])}
    objs = {}
    for o in cspec["objs"]:
        kw = {}
        if o.get("id") is not None:
            kw["xmiID"] = o["id"]
        objs[o["o"]] = ts.get_type(o["type"])(**kw)

    def conv(v):
        if v is None:
            return None
        if "i" in v:
            return v["i"]
        if "f" in v:
            return unfl(v["f"])
        if "b" in v:
            return v["b"]
        if "s" in v:
            return v["s"]
        if "ref" in v:
            return objs[v["ref"]]
        if "list" in v:
            return [conv(e) for e in v["list"]]
        if "sofa" in v:
            return vname[v["sofa"]].get_sofa()
        raise ValueError(v)

    for o in cspec["objs"]:
        for k, v in o["slots"].items():
            setattr(objs[o["o"]], k, conv(v))
    for vi, lab in cspec["members"]:
        views[vi].add(objs[lab], keep_id=True)
    return cas, views, objs


def canon(cas, fmt="xmi"):
    """Canonical id-keyed content by identity-based traversal from the indexed structures.  fmt decides whether collections
    held by features without multipleReferencesAllowed are taken by content ("xmi") or as references ("json")."""
    ts = cas.typesystem
    seen, order = {}, []

    def is_fs(x):
        return hasattr(x, "type") and hasattr(x, "xmiID") and not hasattr(x, "sofaID")

    def arr_like(tn):
        return tn in ARRS or tn == FS_ARRAY

    def list_like(tn):
        return tn in LISTS or tn == FS_LIST

    def inline(f):
        return fmt == "xmi" and not f.multipleReferencesAllowed and (arr_like(f.rangeType.name) or list_like(f.rangeType.name))

    def is_prim_range(t):
        while t is not None:
            if t.name in PRIMS:
                return True
            t = t.supertype
        return False

    def succs(x):
        """What the format writes separately because x is written: the independent statement of reachability."""
        t = ts.get_type(x.type.name)
        if arr_like(t.name):
            return [e for e in (x.elements or []) if is_fs(e)] if t.name == FS_ARRAY else []
        out = []
        for f in t.all_features:
            if f.name == "sofa" or is_prim_range(f.rangeType):
                continue
            v = getattr(x, f.name, None)
            if v is None:
                continue
            if inline(f):
                if f.rangeType.name == FS_ARRAY:
                    out.extend(e for e in (v.elements or []) if is_fs(e))
                elif f.rangeType.name == FS_LIST:
                    cur, nodes = v, set()
                    while hasattr(cur, "head") and id(cur) not in nodes:
                        nodes.add(id(cur))
                        if is_fs(cur.head):
                            out.append(cur.head)
                        cur = cur.tail
            elif is_fs(v):
                out.append(v)
        return out

    def visit(fs):
        stack = [fs]
        while stack:
            x = stack.pop()
            if x is None or not is_fs(x) or id(x) in seen or x.type.name == T + "NULL" or x.xmiID == 0:
                continue
            seen[id(x)] = x
            order.append(x)
            stack.extend(succs(x))

    for sofa in cas.sofas:
        for fs in cas.get_view(sofa.sofaID).select_all():
            visit(fs)
    for sofa in cas.sofas:  # the byte array holding the data of a sofa is written by both formats
        if sofa.sofaArray is not None:
            visit(sofa.sofaArray)

    # a collection inlined somewhere may also be indexed or referenced through another path; then it is written separately too
    def cv(v):
        if v is None:
            return None
        if isinstance(v, bool):
            return ["b", v]
        if isinstance(v, int):
            return ["i", v]
        if isinstance(v, float):
            return ["f", fl(v)]
        if isinstance(v, str):
            return ["s", v]
        if isinstance(v, (bytes, bytearray)):
            return ["list", [["i", x] for x in v]]
        if isinstance(v, list):
            return ["list", [cv(e) for e in v]]
        if hasattr(v, "sofaID"):
            return ["sofa", v.xmiID]
        if is_fs(v):
            return ["ref", v.xmiID]   # also for an instance of uima.cas.NULL: a null value is None, not that structure
        return ["?", repr(v)]

    def content(kind, v):
        if v is None:
            return None
        if arr_like(kind):
            return ["coll", kind, None if v.elements is None else [cv(e) for e in v.elements]]
        out, cur, n = [], v, 0
        while hasattr(cur, "head"):
            out.append(cv(cur.head))
            cur = cur.tail
            n += 1
            if n > 100000:
                raise RuntimeError("cyclic list")
        return ["coll", kind, out]

    out = {"sofas": [], "fs": {}}
    for sofa in cas.sofas:
        v = cas.get_view(sofa.sofaID)
        out["sofas"].append({"id": sofa.xmiID, "num": sofa.sofaNum, "name": sofa.sofaID,
                             "text": None if sofa.sofaString is None else [ord(c) for c in sofa.sofaString],
                             "mime": sofa.mimeType, "uri": sofa.sofaURI,
                             "arr": None if sofa.sofaArray is None else sofa.sofaArray.xmiID,
                             "members": sorted(x.xmiID for x in v.select_all())})
    for fs in order:
        d = {}
        for f in ts.get_type(fs.type.name).all_features:
            xname = f.name[:-1] if f._has_reserved_name else f.name
            v = getattr(fs, f.name, None)
            d[xname] = content(f.rangeType.name, v) if inline(f) else cv(v)
        if fs.xmiID in out["fs"]:
            raise RuntimeError(f"two structures with id {fs.xmiID}: {fs.type.name}")
        out["fs"][fs.xmiID] = {"type": fs.type.name, "feats": d}
    out["sofas"].sort(key=lambda s: s["id"])
    return out


# ------------------------------------------------------------------------------------------------ rendering


def g_val(v):
    if v is None:
        return "VNone"
    if "i" in v:
        return f"VInt {gz(v['i'])}"
    if "f" in v:
        return f"VFlt {gstr(v['f'])}"
    if "b" in v:
        return f"VBool {gbool(v['b'])}"
    if "s" in v:
        return f"VStr {gstr(v['s'])}"
    if "ref" in v:
        return f"VRef {gn(v['ref'])}"
    if "list" in v:
        return "VList " + glist(["(" + g_val(e) + ")" for e in v["list"]])
    if "sofa" in v:
        return f"VSofa {gstr(v['sofa'])}"
    raise ValueError(v)


def g_heap(cspec):
    items = []
    for o in cspec["objs"]:
        slots = glist([f"({gstr(k)}, {g_val(v)})" for k, v in o["slots"].items()])
        items.append(f"({gn(o['o'])}, mkFs {gstr(o['type'])} {gopt(o.get('id'), gz)} {slots})")
    return glist(items, ";\n  ")


def g_text(t):
    return "None" if t is None else "(Some " + glist([gn(c) for c in t]) + ")"


def g_cval(c):
    if c is None:
        return "CNull"
    k = c[0]
    if k == "i":
        return f"CInt {gz(c[1])}"
    if k == "f":
        return f"CFlt {gstr(c[1])}"
    if k == "b":
        return f"CBool {gbool(c[1])}"
    if k == "s":
        return f"CStr {gstr(c[1])}"
    if k in ("ref", "sofa"):
        return f"CRef {gz(c[1])}"
    if k == "coll":
        return f"CColl {gstr(c[1])} " + glist(["(" + g_cval(e) + ")" for e in (c[2] or [])])
    if k == "list":
        return "CColl \"\"%string " + glist(["(" + g_cval(e) + ")" for e in c[1]])
    raise ValueError(c)


def g_ccas(cc):
    sofas = glist([
        f"mkCsofa {gz(s['id'])} {gz(s['num'])} {gstr(s['name'])} {g_text(s['text'])} {gopt(s['mime'], gstr)} "
        f"{gopt(s['uri'], gstr)} {gopt(s['arr'], gz)} {glist([gz(m) for m in s['members']])}" for s in cc["sofas"]])
    fs = glist([
        f"({gz(int(i))}, mkCfs {gstr(d['type'])} "
        + glist([f"({gstr(k)}, {g_cval(v)})" for k, v in sorted(d["feats"].items())]) + ")"
        for i, d in sorted(cc["fs"].items(), key=lambda kv: int(kv[0]))], ";\n  ")
    return f"mkCcas {sofas} {fs}"


# ------------------------------------------------------------------------------------------------ generators

TEXTS = [[], [104, 101, 108, 108, 111, 32, 119, 111, 114, 108, 100], [97, 0x1F600, 98, 0x10000, 99, 0xE9],
         [0x10FFFF, 0xFFFD, 120, 121, 122], [0x4E2D, 0x6587, 0x1F1E9, 0x1F1EA, 0x0301, 97]]
STRS = ["", "a", "a b", " lead", "x<y&\"z'", "é\U0001F600", "1", "true", "None"]


def rval(r, k):
    if k.startswith("int") or k == "uint8":
        bits = int(k.replace("uint", "").replace("int", ""))
        lo, hi = (0, 2 ** bits - 1) if k == "uint8" else (-2 ** (bits - 1), 2 ** (bits - 1) - 1)
        return {"i": r.choice([lo, hi, 0, 1, -1 if lo < 0 else 2, r.randint(lo, hi)])}
    if k == "float":
        return {"f": fl(r.choice([0.0, -0.0, 1.5, 1e-7, 1e300, float("nan"), float("inf"), float("-inf"), 5e-324,
                                  1.7976931348623157e308, round(r.random() * 1e6, 3), 1 / 3]))}
    if k == "bool":
        return {"b": r.random() < 0.5}
    if k == "str":
        return {"s": r.choice(STRS)}
    raise ValueError(k)


def gen_tspec(r, n_types=6, max_feats=5, awkward=True):
    # two pairs share a short name across packages (T0, T5): anything keyed by short name mixes them up
    names = ["a.b.T0", "a.c.T1", "x.b.T0", "NoNs", "q.cas.T4", "q.type.T5", "c.type0.T5", "r.type.T7"][:n_types]
    spec = []
    for n in names:
        sup = r.choice([ANNOTATION, ANNOTATION, TOP, ANNOTATION_BASE] + [t["name"] for t in spec])
        spec.append({"name": n, "super": sup, "feats": []})
    spec.append({"name": "a.MyStr", "super": T + "String", "feats": []})

    def is_ann(t):
        while True:
            if t["super"] == ANNOTATION:
                return True
            nxt = [u for u in spec if u["name"] == t["super"]]
            if not nxt:
                return False
            t = nxt[0]

    def chain_names(t):
        out = set()
        names_by = {u["name"]: u for u in spec}
        cur = t
        while cur is not None:
            out.update(f["name"] for f in cur["feats"])
            cur = names_by.get(cur["super"])
        # also descendants
        for u in spec:
            c = u
            while c is not None and c is not t:
                c = names_by.get(c["super"])
            if c is t:
                out.update(f["name"] for f in u["feats"])
        return out

    for t in spec[:-1]:
        for j in range(r.randint(0, max_feats)):
            kind = r.choice(["prim", "prim", "arr", "lst", "ref", "fsarr", "fslist", "top", "mystr"])
            pool = ["f%d" % j, "g%d" % j] + (["self", "type", "begin", "end", "id"] if awkward else [])
            fn = r.choice(pool) if j else "f0"
            if fn in ("begin", "end") and is_ann(t):
                fn = "h%d" % j
            if fn in chain_names(t) or fn in ("begin", "end") and any(True for _ in ()):  # one definition per chain
                continue
            multi = r.choice([None, True, False])
            f = {"name": fn, "elem": None, "multi": None}
            if kind == "prim":
                f["range"] = r.choice(sorted(PRIMS))
            elif kind == "arr":
                f["range"] = r.choice(sorted(ARRS))
                f["multi"] = multi
            elif kind == "lst":
                f["range"] = r.choice(sorted(LISTS))
                f["multi"] = multi
            elif kind == "ref":
                f["range"] = r.choice(spec[:-1])["name"]
            elif kind == "fsarr":
                f["range"] = FS_ARRAY
                f["elem"] = r.choice([None] + [x["name"] for x in spec[:-1]])
                f["multi"] = multi
            elif kind == "fslist":
                f["range"] = FS_LIST
                f["multi"] = multi
            elif kind == "top":
                f["range"] = TOP
            else:
                f["range"] = "a.MyStr"
            t["feats"].append(f)
    return spec


def gen_cspec(r, cassis, tspec, n_objs=(1, 12), all_ids=True, max_views=3, nulls=True, share=True):
    """A well-formed CAS over tspec (wf in the sense of DESIGN 4.4): annotations carry the sofa of the view they are indexed
    in and valid offsets, references point to live objects of a suitable type, collections are proper objects."""
    schema = schema_of(cassis, tspec)
    user = [t["name"] for t in tspec if t["name"] != "a.MyStr"]
    nviews = r.randint(1, max_views)
    views = [{"name": "_InitialView" if i == 0 else "view%d" % i, "text": r.choice(TEXTS),
              "mime": r.choice([None, "text/plain"])} for i in range(nviews)]
    for v in views:
        if r.random() < 0.25:
            v["text0"] = r.choice(TEXTS[2:])  # an earlier text with astral characters
    objs, members = [], []
    lab = [0]

    def new(type_, slots):
        lab[0] += 1
        objs.append({"o": lab[0], "type": type_, "id": None, "slots": slots})
        return lab[0]

    n = r.randint(*n_objs)
    main = [new(TOP if r.random() < 0.04 else r.choice(user), {}) for _ in range(n)]   # now and then a bare uima.cas.TOP
    by_label = {o["o"]: o for o in objs}

    def isa(tn, anc):
        return anc in schema[tn]["anc"]

    def pick_ref(range_):
        c = [l for l in main if isa(by_label[l]["type"], range_)]
        return {"ref": r.choice(c)} if c else None

    def mklist(base, elems):
        cur = new(T + "Empty" + base + "List", {})
        for e in reversed(elems):
            cur = new(T + "NonEmpty" + base + "List", {"head": e, "tail": {"ref": cur}})
        return cur

    shared = {}
    ann_view = {}
    for l in main:
        o = by_label[l]
        if isa(o["type"], ANNOTATION):
            vi = r.randrange(nviews)
            L = len(views[vi]["text"] or [])
            b = r.randint(0, L)
            o["slots"].update({"sofa": {"sofa": views[vi]["name"]}, "begin": {"i": b}, "end": {"i": r.randint(b, L)}})
            ann_view[l] = vi
        elif isa(o["type"], ANNOTATION_BASE):
            # a direct subtype of AnnotationBase: bound to the sofa of one view, no offsets of its own
            vi = r.randrange(nviews)
            o["slots"]["sofa"] = {"sofa": views[vi]["name"]}
            ann_view[l] = vi
        for f in schema[o["type"]]["feats"]:
            pn, _xn, rng, _el, multi = f
            if pn in ("sofa",) or (isa(o["type"], ANNOTATION) and pn in ("begin", "end")):
                continue
            if r.random() < 0.3:
                continue
            prim = next((a for a in ([rng] + schema.get(rng, {"anc": []})["anc"]) if a in PRIMS), None)
            if prim:
                v = rval(r, PRIMS[prim])
            elif rng in ARRS:
                v = {"ref": new(rng, {"elements": {"list": [rval(r, ARRS[rng]) for _ in range(r.choice([0, 0, 1, 3]))]}})}
            elif rng in LISTS:
                v = {"ref": mklist(LISTS[rng][0], [rval(r, LISTS[rng][1]) for _ in range(r.choice([0, 0, 1, 3]))])}
            elif rng == FS_ARRAY:
                v = {"ref": new(rng, {"elements": {"list": [
                    (None if (nulls and r.random() < 0.2) else {"ref": r.choice(main)}) for _ in range(r.choice([0, 1, 3]))]}})}
            elif rng == FS_LIST:
                v = {"ref": mklist("FS", [(None if (nulls and r.random() < 0.2) else {"ref": r.choice(main)})
                                          for _ in range(r.choice([0, 1, 3]))])}
            else:
                v = pick_ref(rng)
            if v is not None and multi and share and "ref" in v and (rng in ARRS or rng in LISTS or rng in (FS_ARRAY, FS_LIST)):
                if rng in shared and r.random() < 0.35:
                    v = {"ref": shared[rng]}
                else:
                    shared[rng] = v["ref"]
            if v is not None:
                o["slots"][pn] = v
    for l in main:
        if r.random() < 0.6:
            if l in ann_view:
                members.append([ann_view[l], l])
            else:
                for vi in r.sample(range(nviews), r.randint(1, nviews)):
                    members.append([vi, l])
    if not members:
        l = main[0]
        members.append([ann_view.get(l, 0), l])
    if all_ids:
        ids = list(range(1, 4 * len(objs) + 20))
        r.shuffle(ids)
        sofa_ids = set(range(1, nviews + 1))  # fresh Cas gives sofas ids 1..n
        ids = [i for i in ids if i not in sofa_ids]
        for o, i in zip(objs, ids):
            o["id"] = i
    return {"views": views, "objs": objs, "members": members}
