"""Engine shared by all property checks (DESIGN.md section 2.3).

A property module (harness/props/Cxx.py) provides

    ID            "C07"
    COQ_TARGETS   [".vo files (relative to coq/) that must build: model, proofs, Props/Cxx.vo, CorrCxx.vo"]
    PROPS_FILE    "Props/C07.v"
    CORR_IMPORTS  "Base Index CorrC07"          modules imported by generated case files
    RULE          text: how cases are generated and what makes one non-trivial
    TRUSTED       list of strings (trusted base, for the evidence file)
    generate(rng, tier)        -> iterable of scenarios (JSON-able dicts)
    run_impl(cassis, sc)       -> observation (JSON-able) of the implementation on the scenario
    oracle(cassis, sc, obs)    -> None, or a string saying how the property statement fails on this input
    render(sc, obs)            -> Gallina term of type `case` (defined in CorrCxx.v), or None to skip the case
    nontrivial(sc)             -> bool
  optional
    shrink_candidates(sc)      -> iterable of smaller scenarios
    signature(sc, msg)         -> dict used to match known findings
    CASES_PER_SHARD, SHARD_BYTES, CASE_TIMEOUT_S, CHECK_FN, PREMISES_FN, CASE_TYPE, OPEN_SCOPES
    extra_checks(ctx)          -> list of (name, ok, detail): further obligations (e.g. subprocess oracles)

The engine builds the Coq targets, re-checks Props/Cxx.v (Print Assumptions), runs the implementation and the
oracle on every case, evaluates the model on the same cases inside Coq and compares there, searches for a
failing input when something does not check, consults known_findings.json, writes evidence and replays.
"""

import fcntl
import hashlib
import importlib
import json
import os
import random
import re
import signal
import subprocess
import sys
import time
import traceback

VERIF = os.path.dirname(os.path.dirname(os.path.abspath(__file__)))
COQ = os.path.join(VERIF, "coq")
GEN = os.path.join(COQ, "gen")
REPO = os.environ.get("VERIF_REPO", "/repo")

FORBIDDEN = re.compile(
    r"\b(Admitted|admit|Axiom|Axioms|Parameter|Parameters|Conjecture|Conjectures|Admit\s+Obligations)\b"
    r"|Unset\s+Guard|bypass_check|Unset\s+Positivity|Unset\s+Universe|type-in-type|impredicative-set"
)
SECTION_ONLY = re.compile(r"^\s*(Variable|Variables|Hypothesis|Hypotheses|Context)\b")


class CaseTimeout(BaseException):
    pass


def _alarm(signum, frame):
    raise CaseTimeout()


def with_timeout(seconds, fn, *args):
    """Run fn(*args) under a wall-clock alarm; CaseTimeout derives from BaseException on purpose."""
    old = signal.signal(signal.SIGALRM, _alarm)
    signal.setitimer(signal.ITIMER_REAL, seconds)
    try:
        return fn(*args)
    finally:
        signal.setitimer(signal.ITIMER_REAL, 0)
        signal.signal(signal.SIGALRM, old)


def load_impl():
    """Import cassis from the tree under test (VERIF_REPO, default /repo), never from elsewhere."""
    sys.path.insert(0, REPO)
    for m in [m for m in sys.modules if m == "cassis" or m.startswith("cassis.")]:
        del sys.modules[m]
    import warnings

    warnings.simplefilter("ignore")
    cassis = importlib.import_module("cassis")
    where = os.path.realpath(os.path.dirname(cassis.__file__))
    want = os.path.realpath(os.path.join(REPO, "cassis"))
    if where != want:
        raise RuntimeError(f"cassis imported from {where}, expected {want}")
    return cassis


# ------------------------------------------------------------------------------------------------ Coq side


def _run(cmd, cwd, timeout):
    try:
        p = subprocess.run(cmd, cwd=cwd, timeout=timeout, capture_output=True, text=True)
        return p.returncode, p.stdout + p.stderr
    except subprocess.TimeoutExpired as e:
        return 124, f"timeout after {timeout}s: {' '.join(cmd)}\n{(e.stdout or b'').decode() if isinstance(e.stdout, bytes) else (e.stdout or '')}"


class CoqLock:
    def __enter__(self):
        os.makedirs(GEN, exist_ok=True)
        self.f = open(os.path.join(COQ, ".lock"), "w")
        fcntl.flock(self.f, fcntl.LOCK_EX)
        return self

    def __exit__(self, *a):
        fcntl.flock(self.f, fcntl.LOCK_UN)
        self.f.close()


def scan_forbidden():
    """No Axiom/Parameter/Admitted/...; Variable/Hypothesis only inside a Section."""
    bad = []
    for root, _dirs, files in os.walk(COQ):
        if os.path.basename(root) == "gen":
            continue
        for fn in files:
            if not fn.endswith(".v"):
                continue
            path = os.path.join(root, fn)
            depth = 0
            src = open(path, encoding="utf-8").read()
            src_nc = re.sub(r"\(\*.*?\*\)", lambda m: "\n" * m.group(0).count("\n"), src, flags=re.S)
            for ln, line in enumerate(src_nc.split("\n"), 1):
                if re.match(r"^\s*Section\b", line):
                    depth += 1
                elif re.match(r"^\s*End\b", line) and depth > 0:
                    depth -= 1
                if FORBIDDEN.search(line):
                    bad.append(f"{os.path.relpath(path, COQ)}:{ln}: {line.strip()}")
                if SECTION_ONLY.match(line) and depth == 0:
                    bad.append(f"{os.path.relpath(path, COQ)}:{ln}: outside a Section: {line.strip()}")
    return bad


def coq_build(targets, timeout=1500):
    """Full .vo build (no -vos) of the given targets with the generated Makefile."""
    with CoqLock():
        mk = os.path.join(COQ, "Makefile")
        cp = os.path.join(COQ, "_CoqProject")
        # _CoqProject always lists exactly the .v files present (a stale or missing entry would break every build)
        want = "-Q . Cassis\n" + "".join(f + "\n" for f in sorted(x for x in os.listdir(COQ) if x.endswith(".v"))) \
            + "".join("Props/" + f + "\n" for f in sorted(x for x in os.listdir(os.path.join(COQ, "Props")) if x.endswith(".v")))
        if not os.path.exists(cp) or open(cp).read() != want:
            with open(cp, "w") as f:
                f.write(want)
        if not os.path.exists(mk) or os.path.getmtime(mk) < os.path.getmtime(cp):
            rc, out = _run(["coq_makefile", "-f", "_CoqProject", "-o", "Makefile"], COQ, 120)
            if rc != 0:
                return False, out
        rc, out = _run(["make", "-j8"] + list(targets), COQ, timeout)
        return rc == 0, out


def check_props(props_file, allowed_axioms=()):
    """Re-compile Props/Cxx.v and read its Print Assumptions output.
    Returns (n_theorems, n_closed, problems, output)."""
    src = open(os.path.join(COQ, props_file), encoding="utf-8").read()
    src_nc = re.sub(r"\(\*.*?\*\)", "", src, flags=re.S)
    theorems = re.findall(r"^\s*(?:Theorem|Lemma|Corollary)\s+(\w+)", src_nc, flags=re.M)
    printed = re.findall(r"^\s*Print Assumptions\s+(\w+)\s*\.", src_nc, flags=re.M)
    problems = []
    for t in theorems:
        if t not in printed:
            problems.append(f"no Print Assumptions for {t}")
    with CoqLock():
        rc, out = _run(["coqc", "-Q", ".", "Cassis", props_file], COQ, 600)
    if rc != 0:
        problems.append(f"coqc {props_file} failed: {out[-1500:]}")
        return len(theorems), 0, problems, out
    # split output per Print Assumptions
    closed = out.count("Closed under the global context")
    blocks = re.findall(r"Axioms:\n((?:.+\n?)+?)(?=\n\S|\Z)", out)
    axioms_seen = []
    if "Axioms:" in out:
        for m in re.finditer(r"^(\S+)\s*:", out[out.index("Axioms:"):], flags=re.M):
            name = m.group(1)
            if name != "Axioms":
                axioms_seen.append(name)
    n_ok = closed
    n_ax_blocks = out.count("Axioms:")
    bad_ax = [a for a in axioms_seen if a not in allowed_axioms]
    if bad_ax:
        problems.append("theorem depends on axioms not in the trusted base: " + ", ".join(sorted(set(bad_ax))))
    else:
        n_ok += n_ax_blocks
    if n_ok < len(printed):
        problems.append(f"{len(printed)} Print Assumptions but only {n_ok} acceptable answers")
    return len(theorems), min(n_ok, len(theorems)), problems, out


def write_shards(mod, terms):
    """terms: list of (case_index, gallina_text).  Returns list of (path, [case_index...])."""
    per = getattr(mod, "CASES_PER_SHARD", 400)
    maxb = getattr(mod, "SHARD_BYTES", 200_000)
    case_type = getattr(mod, "CASE_TYPE", "case")
    check_fn = getattr(mod, "CHECK_FN", "check_case")
    prem_fn = getattr(mod, "PREMISES_FN", "premises")
    scopes = getattr(mod, "OPEN_SCOPES", ["Z_scope"])
    os.makedirs(GEN, exist_ok=True)
    tag = f"cases_{mod.ID}_{os.getpid()}_"
    now = time.time()
    for fn in os.listdir(GEN):  # own leftovers, and anybody's leftovers older than two hours
        fp = os.path.join(GEN, fn)
        try:
            if fn.startswith(tag) or (fn.startswith("cases_") and now - os.path.getmtime(fp) > 7200):
                os.remove(fp)
        except OSError:
            pass
    shards, cur, cur_idx, size = [], [], [], 0

    def flush():
        nonlocal cur, cur_idx, size
        if not cur:
            return
        k = len(shards)
        path = os.path.join(GEN, f"{tag}{k}.v")
        with open(path, "w", encoding="utf-8") as f:
            f.write(f"From Cassis Require Import {mod.CORR_IMPORTS}.\n")
            for s in scopes:
                f.write(f"Open Scope {s}.\n")
            f.write(f"Definition cases : list {case_type} := [\n")
            f.write(";\n".join(cur))
            f.write("\n].\n")
            f.write(
                f"Eval vm_compute in (List.length cases, mismatches {check_fn} cases, count_true {prem_fn} cases).\n"
            )
        shards.append((path, cur_idx))
        cur, cur_idx, size = [], [], 0

    for idx, t in terms:
        if cur and (len(cur) >= per or size + len(t) > maxb):
            flush()
        cur.append(t)
        cur_idx.append(idx)
        size += len(t)
    flush()
    return shards


def run_shards(shards, jobs=8, timeout=600):
    """Compile every shard with coqc; returns list of dict(path, n, mismatch_idx, premises, error)."""
    procs = []
    results = []
    pending = list(shards)
    running = []

    def start(sh):
        path, idxs = sh
        rel = os.path.relpath(path, COQ)
        p = subprocess.Popen(
            ["timeout", str(timeout), "coqc", "-Q", ".", "Cassis", rel],
            cwd=COQ, stdout=subprocess.PIPE, stderr=subprocess.STDOUT, text=True,
        )
        return (p, sh)

    while pending or running:
        while pending and len(running) < jobs:
            running.append(start(pending.pop(0)))
        p, sh = running.pop(0)
        out, _ = p.communicate()
        path, idxs = sh
        r = {"path": path, "n": len(idxs), "mismatch_idx": [], "premises": 0, "error": None}
        flat = re.sub(r"\s+", " ", out)
        m = re.search(r"=\s*\(\s*(\d+)(?:%nat)?\s*,\s*\[(.*?)\]\s*,\s*(\d+)(?:%nat)?\s*\)", flat)
        if p.returncode != 0 or not m:
            r["error"] = out[-2000:] or f"coqc exit {p.returncode}"
        else:
            if int(m.group(1)) != len(idxs):
                r["error"] = f"shard evaluated {m.group(1)} cases, expected {len(idxs)}"
            local = [int(x.replace("%nat", "").strip()) for x in m.group(2).split(";") if x.strip()]
            r["mismatch_idx"] = [idxs[i] for i in local]
            r["premises"] = int(m.group(3))
        results.append(r)
    for r in results:  # keep the tree small; the .v of a shard that agreed is of no further use
        base = r["path"][:-2]
        if not r["error"] and not r["mismatch_idx"] and os.path.exists(r["path"]):
            os.remove(r["path"])
        for ext in (".vo", ".vok", ".vos", ".glob", ".aux"):
            for cand in (base + ext, os.path.join(os.path.dirname(base), "." + os.path.basename(base) + ext)):
                if os.path.exists(cand):
                    os.remove(cand)
    return results


# ------------------------------------------------------------------------------------------------ findings


def load_known():
    p = os.path.join(VERIF, "known_findings.json")
    if not os.path.exists(p):
        return []
    return json.load(open(p)).get("findings", [])


def match_known(mod, sc, msg):
    if isinstance(sc, dict) and set(sc) == {"suite", "scenario"} and sc["suite"] in getattr(mod, "SUBSUITES", {}):
        pid = mod.ID
        mod, sc = mod.SUBSUITES[sc["suite"]], sc["scenario"]   # a case of a sub-suite: its own signature()
    else:
        pid = mod.ID
    try:
        sig = mod.signature(sc, msg) if hasattr(mod, "signature") else {}
    except Exception:  # noqa - a signature that cannot read the scenario matches nothing
        sig = {}
    for e in load_known():
        if e.get("property") != pid or e.get("status") != "open":
            continue
        want = e.get("signature", {})
        if want and all(sig.get(k) == v for k, v in want.items()):
            return e
    return None


def write_replay(mod, payload):
    os.makedirs(os.path.join(VERIF, "replays"), exist_ok=True)
    h = hashlib.sha1(json.dumps(payload, sort_keys=True, default=str).encode()).hexdigest()[:12]
    path = os.path.join(VERIF, "replays", f"{mod.ID}-{h}.json")
    payload = dict(payload)
    payload["property"] = mod.ID
    payload["how_to_replay"] = f"cd /verif && ./check {mod.ID} --replay {path}"
    with open(path, "w") as f:
        json.dump(payload, f, indent=1, default=str)
    return path


def is_timeout_msg(msg):
    return bool(msg) and "did not finish within" in msg


def shrink(mod, cassis, sc, fails, wall_s=240):
    """Greedy delta debugging with `fails(sc) -> msg or None` as the test; bounded in candidates and in wall time (a
    hanging implementation costs CASE_TIMEOUT_S per failing candidate)."""
    if not hasattr(mod, "shrink_candidates"):
        return sc
    budget = 400
    deadline = time.time() + wall_s
    progress = True
    while progress and budget > 0 and time.time() < deadline:
        progress = False
        for cand in mod.shrink_candidates(sc):
            budget -= 1
            if budget <= 0 or time.time() > deadline:
                break
            try:
                if fails(cand):
                    sc = cand
                    progress = True
                    break
            except Exception:
                continue
    return sc


def impl_and_oracle(mod, cassis, sc):
    """Returns (obs, failure message or None).  An unexpected exception in run_impl is an oracle failure only when
    the module says so through oracle(); by default it is reported as such because scenarios are inside the premises."""
    tmo = getattr(mod, "CASE_TIMEOUT_S", 20)
    try:
        obs = with_timeout(tmo, mod.run_impl, cassis, sc)
    except CaseTimeout:
        return None, f"implementation did not finish within {tmo}s"
    except Exception as e:  # noqa
        return None, f"implementation raised {type(e).__name__}: {e}"
    try:
        msg = with_timeout(tmo, mod.oracle, cassis, sc, obs)
    except CaseTimeout:
        return obs, f"oracle did not finish within {tmo}s"
    except Exception as e:  # noqa - an observation the oracle cannot even read is a failing input, not a crash of the check
        return obs, f"oracle could not evaluate the observation ({type(e).__name__}: {e})"
    return obs, msg


def run_subsuite(sub, ctx, label=None):
    """Runs a further suite of cases (another case type / Corr file, e.g. the JSON half of a property) with the same
    stages as the main suite and returns extra-obligation tuples (name, ok, detail, scenario_or_None) for
    `extra_checks`: one per agreeing shard (ok), one per case the oracle rejects (with the scenario: a concrete
    failing input), one per case where only model and implementation disagree (scenario None)."""
    label = label or getattr(sub, "SUITE", sub.__name__.split(".")[-1])
    cassis, tier, seed = ctx["cassis"], ctx["tier"], ctx["seed"]
    out = []
    ok_build, log = coq_build(sub.COQ_TARGETS)
    if not ok_build:
        return [(f"{label}: coq build", False, log[-1500:], None)]
    rng = random.Random(seed * 7919 + 17)
    scenarios = list(sub.generate(rng, tier))
    terms, fails = [], {}
    observations = []
    n_timeouts = 0
    for i, sc in enumerate(scenarios):
        if n_timeouts >= 3:  # hanging implementation: see run_check
            observations.append(None)
            continue
        obs, msg = impl_and_oracle(sub, cassis, sc)
        observations.append(obs)
        if msg:
            fails[i] = msg
            n_timeouts += 1 if is_timeout_msg(msg) else 0
        if obs is not None:
            try:
                t = sub.render(sc, obs)
            except Exception as e:  # noqa
                t = None
                fails.setdefault(i, f"observation cannot be rendered for the model ({type(e).__name__}: {e})")
            if t is not None:
                terms.append((i, t))
    results = run_shards(write_shards(sub, terms), jobs=getattr(sub, "SHARD_JOBS", 8)) if terms else []
    reported = 0
    for i, msg in sorted(fails.items()):
        if reported >= 5 or (reported >= 1 and is_timeout_msg(msg)):
            break
        small = shrink(sub, cassis, scenarios[i], lambda c: impl_and_oracle(sub, cassis, c)[1])
        out.append((f"{label}: oracle", False, (impl_and_oracle(sub, cassis, small)[1] if small is not scenarios[i] else None) or msg,
                    {"suite": label, "scenario": small}))
        reported += 1
    for k, r in enumerate(results):
        if r["error"]:
            out.append((f"{label}: shard {k}", False, r["error"][-800:], None))
        else:
            bad = [i for i in r["mismatch_idx"] if i not in fails]
            if bad:
                out.append((f"{label}: shard {k}", False,
                            "model and implementation disagree on " + json.dumps(scenarios[bad[0]], default=str)[:1500], None))
            elif not r["mismatch_idx"]:
                out.append((f"{label}: shard {k} ({r['n']} cases, {r['premises']} inside the premises)", True, "agree", None))
    nontriv = 0
    for sc in scenarios:
        try:
            nontriv += 1 if sub.nontrivial(sc) else 0
        except Exception:
            pass
    out.append((f"{label}: {len(scenarios)} cases, {len(terms)} compared in Coq, {nontriv} non-trivial", not fails or bool(reported), "summary", None))
    return out


# ------------------------------------------------------------------------------------------------ main flow


def write_evidence(mod, ev):
    # evidence describes /repo; a run against another tree (self-test of a seeded change) must not overwrite it
    d = os.path.join(VERIF, "evidence") if os.path.realpath(REPO) == "/repo" else os.path.join(VERIF, ".work", "evidence-other-tree")
    os.makedirs(d, exist_ok=True)
    with open(os.path.join(d, f"{mod.ID}.json"), "w") as f:
        json.dump(ev, f, indent=1, default=str)


def run_check(mod, tier, seed):
    t0 = time.time()
    cassis = load_impl()
    rng = random.Random(seed)
    violations = []  # (kind, scenario, message, extra)
    known_hits = []
    notes = []

    # 1. proofs
    forb = scan_forbidden()
    ok_build, build_log = coq_build(mod.COQ_TARGETS)
    n_thm, n_closed, prop_problems, props_out = (0, 0, [], "")
    if ok_build:
        n_thm, n_closed, prop_problems, props_out = check_props(mod.PROPS_FILE, getattr(mod, "ALLOWED_AXIOMS", ()))
    else:
        src = open(os.path.join(COQ, mod.PROPS_FILE), encoding="utf-8").read()
        n_thm = len(re.findall(r"^\s*(?:Theorem|Lemma|Corollary)\s+(\w+)", re.sub(r"\(\*.*?\*\)", "", src, flags=re.S), flags=re.M))
        prop_problems = [f"coq build failed: {build_log[-2500:]}"]
    if forb:
        prop_problems.append("forbidden vernacular: " + "; ".join(forb[:10]))
    proof_ok = ok_build and not prop_problems

    # 2. cases: implementation + oracle
    scenarios = []
    corpus_dir = os.path.join(VERIF, "harness", "corpus", mod.ID)
    if os.path.isdir(corpus_dir):
        for fn in sorted(os.listdir(corpus_dir)):
            if fn.endswith(".json"):
                scenarios.append(json.load(open(os.path.join(corpus_dir, fn)))["scenario"])
    n_corpus = len(scenarios)
    scenarios.extend(mod.generate(rng, tier))
    observations = []
    oracle_fail = []
    n_timeouts = 0
    for i, sc in enumerate(scenarios):
        if n_timeouts >= 3:  # the implementation hangs: three witnesses are enough, the rest would cost CASE_TIMEOUT_S each
            observations.append(None)
            continue
        obs, msg = impl_and_oracle(mod, cassis, sc)
        observations.append(obs)
        if msg:
            oracle_fail.append((i, msg))
            if is_timeout_msg(msg):
                n_timeouts += 1

    # 3. model in Coq on the same cases
    terms = []
    skipped = 0
    if ok_build:
        for i, (sc, obs) in enumerate(zip(scenarios, observations)):
            if obs is None:
                continue
            try:
                t = mod.render(sc, obs)
            except Exception as e:  # noqa
                t = None
                if not any(j == i for j, _m in oracle_fail):
                    oracle_fail.append((i, f"observation cannot be rendered for the model ({type(e).__name__}: {e})"))
            if t is None:
                skipped += 1
                continue
            terms.append((i, t))
    shards = write_shards(mod, terms) if terms else []
    results = run_shards(shards, jobs=getattr(mod, "SHARD_JOBS", 8)) if shards else []
    mismatch = sorted(i for r in results for i in r["mismatch_idx"])
    shard_errors = [r for r in results if r["error"]]
    premises = sum(r["premises"] for r in results)

    # 3b. extra obligations
    extra = []
    coqchk_summary = None
    if tier == "thorough" and ok_build:
        modname = "Cassis." + mod.PROPS_FILE[:-2].replace("/", ".")
        with CoqLock():
            rc, out = _run(["coqchk", "-o", "-Q", ".", "Cassis", modname], COQ, 1800)
        tail = out[out.find("CONTEXT SUMMARY"):] if "CONTEXT SUMMARY" in out else out[-1500:]
        coqchk_summary = [l.strip() for l in tail.split("\n") if l.strip()][:40]
        ax = re.search(r"\* Axioms:\s*(.*?)\n\s*\n\s*\*", tail + "\n\n*", flags=re.S)
        ax_txt = ax.group(1).strip() if ax else "?"
        allowed = set(getattr(mod, "ALLOWED_AXIOMS", ()))
        names = [a.strip() for a in re.split(r"\s+", ax_txt) if a.strip() and a.strip() != "<none>"]
        bad = [a for a in names if a.split(".")[-1] not in allowed and a not in allowed]
        ok_chk = rc == 0 and "Modules were successfully checked" in out and not bad \
            and "type-in-type: <none>" in tail and "unsafe (co)fixpoints: <none>" in tail and "positivity is assumed: <none>" in tail
        extra.append(("coqchk -o " + modname, ok_chk, "axioms: " + ax_txt if rc == 0 else out[-800:], None))
    if hasattr(mod, "extra_checks"):
        try:
            extra = extra + list(mod.extra_checks({"cassis": cassis, "tier": tier, "seed": seed, "rng": rng}))
        except Exception as e:  # noqa
            extra = extra + [("extra_checks", False, f"raised {type(e).__name__}: {e}\n{traceback.format_exc()[-800:]}", None)]

    # 4. verdict
    def fails_oracle(sc):
        _o, m = impl_and_oracle(mod, cassis, sc)
        return m

    reported = set()

    def report_counterexample(sc, msg, origin):
        small = shrink(mod, cassis, sc, fails_oracle)
        m2 = (fails_oracle(small) if small is not sc else None) or msg
        key = json.dumps(mod.signature(small, m2) if hasattr(mod, "signature") else {"msg": m2[:80]}, sort_keys=True)
        if key in reported:
            return
        reported.add(key)
        k = match_known(mod, small, m2)
        if k:
            known_hits.append((k, small, m2))
            return
        path = write_replay(mod, {"kind": "counterexample", "scenario": small, "failure": m2, "found_by": origin,
                                  "seed": seed, "tier": tier})
        violations.append((path, ""))

    timeouts_reported = 0
    for i, msg in oracle_fail[:50]:
        if is_timeout_msg(msg):
            timeouts_reported += 1
            if timeouts_reported > 1:
                continue
        report_counterexample(scenarios[i], msg, "oracle on generated case")
    for name, ok, detail, *rest in extra:
        if not ok and rest and rest[0] is not None:
            k = match_known(mod, rest[0], str(detail))
            if k:
                known_hits.append((k, rest[0], str(detail)))
                continue
            path = write_replay(mod, {"kind": "counterexample", "obligation": name, "scenario": rest[0],
                                      "failure": str(detail), "found_by": "extra obligation " + name,
                                      "seed": seed, "tier": tier})
            violations.append((path, ""))

    oracle_idx = {i for i, _ in oracle_fail}
    unexplained = [i for i in mismatch if i not in oracle_idx and not match_known(mod, scenarios[i], "model mismatch")]
    extra_broken = [(n, d) for n, ok, d, *rest in extra if not ok and not (rest and rest[0] is not None)]
    broken = bool(unexplained) or bool(shard_errors) or not proof_ok or bool(extra_broken)
    if broken and not violations:
        # no concrete failing input yet: neighbours of the mismatching scenarios, then a larger budget of fresh cases
        cands = []
        if hasattr(mod, "mutate"):
            for i in unexplained[:20]:
                cands.extend(mod.mutate(scenarios[i], rng))
        try:
            cands.extend(mod.generate(random.Random(seed + 1), "search"))
        except Exception:
            pass
        deadline = time.time() + getattr(mod, "SEARCH_BUDGET_S", 120)
        for sc in cands:
            if time.time() > deadline:
                break
            _o, m = impl_and_oracle(mod, cassis, sc)
            if m and not match_known(mod, sc, m):
                report_counterexample(sc, m, "wider oracle search after a broken obligation")
                if violations:
                    break
    if broken and not violations:
        # still a violation: the property is no longer shown to hold
        if not proof_ok:
            path = write_replay(mod, {"kind": "proof", "theorem_file": mod.PROPS_FILE, "problems": prop_problems,
                                      "seed": seed, "tier": tier})
            violations.append((path, " no-failing-input-found"))
        for r in shard_errors[:3]:
            path = write_replay(mod, {"kind": "correspondence", "what": "case file did not evaluate", "shard": r["path"],
                                      "coqc_output": r["error"], "seed": seed, "tier": tier})
            violations.append((path, " no-failing-input-found"))
        for i in unexplained[:5]:
            path = write_replay(mod, {"kind": "correspondence", "model": mod.CORR_IMPORTS.split()[-1] + ".check_case",
                                      "implementation_entry_point": getattr(mod, "ENTRY", ""),
                                      "scenario": scenarios[i], "implementation_observation": observations[i],
                                      "note": "model and implementation disagree on this scenario; the oracle (the property "
                                              "statement run on the implementation) accepts it", "seed": seed, "tier": tier})
            violations.append((path, " no-failing-input-found"))
        for name, detail in extra_broken:
            path = write_replay(mod, {"kind": "obligation", "name": name, "detail": detail, "seed": seed, "tier": tier})
            violations.append((path, " no-failing-input-found"))

    # 5. evidence
    nontriv = set()
    for sc in scenarios:
        try:
            if mod.nontrivial(sc):
                nontriv.add(json.dumps(sc, sort_keys=True, default=str))
        except Exception:
            pass
    n_extra_ok = sum(1 for _n, ok, *_ in extra if ok)
    obligations = n_thm + len(shards) + len(extra)
    discharged = n_closed + sum(1 for r in results if not r["error"] and not r["mismatch_idx"]) + n_extra_ok
    if not proof_ok:
        discharged = min(discharged, obligations - 1)
    dist = mod.distribution(scenarios, observations) if hasattr(mod, "distribution") else {}
    ev = {
        "property_id": mod.ID, "tier": tier, "seed": seed, "level": "proof",
        "coverage": {
            "obligations": obligations, "discharged": discharged,
            "theorems_in_props_file": n_thm, "theorems_closed": n_closed,
            "correspondence_shards": len(shards), "shards_agreeing": sum(1 for r in results if not r["error"] and not r["mismatch_idx"]),
            "extra_obligations": [{"name": n, "ok": ok, "detail": str(d)[:300]} for n, ok, d, *_ in extra],
            "checker_cmd": f"make -C /verif/coq {' '.join(mod.COQ_TARGETS)} && coqc -Q . Cassis {mod.PROPS_FILE} (Print Assumptions) && coqc gen/cases_{mod.ID}_*.v",
            "trusted_base": list(getattr(mod, "TRUSTED", [])),
            "evaluations": len(scenarios), "corpus_cases": n_corpus,
            "cases_compared_in_coq": len(terms), "cases_not_rendered": skipped,
            "traces_validated_against_impl": len(terms) - len(mismatch),
            "premises_satisfied": premises,
            "distinct_nontrivial": len(nontriv), "rule": mod.RULE,
            "samples": [scenarios[i] for i in sorted(set([0, len(scenarios) // 2, len(scenarios) - 1])) if scenarios][:3],
            "input_distribution": dist,
            "oracle_failures": len(oracle_fail), "model_mismatches": len(mismatch),
            "print_assumptions": [l for l in props_out.split("\n") if l.strip()][:40],
            "coqchk": coqchk_summary,
            "exhaustive": bool(getattr(mod, "EXHAUSTIVE", False)),
        },
        "assumptions": list(getattr(mod, "ASSUMPTIONS", [])),
        "wall_s": round(time.time() - t0, 2),
        "violations": len(violations),
        "known_findings_hit": [k["what"] for k, _s, _m in known_hits],
        "notes": notes,
    }
    write_evidence(mod, ev)

    for k, _sc, _m in known_hits:
        print(f"KNOWN-FINDING: property={mod.ID} {k['what']}")
    for path, suffix in violations:
        print(f"VIOLATION property={mod.ID} replay={path}{suffix}")
    print(f"[{mod.ID}] tier={tier} seed={seed} theorems={n_closed}/{n_thm} cases={len(scenarios)} in_coq={len(terms)} "
          f"mismatch={len(mismatch)} oracle_fail={len(oracle_fail)} nontrivial={len(nontriv)} extra={n_extra_ok}/{len(extra)} "
          f"wall={ev['wall_s']}s")
    return 1 if violations else 0


def run_replay(mod, path):
    cassis = load_impl()
    rp = json.load(open(path))
    if rp.get("kind") in ("proof", "obligation") or "scenario" not in rp:
        print(f"replay {path}: kind={rp.get('kind')} carries no scenario; re-run ./check {mod.ID}")
        print(json.dumps({k: rp[k] for k in rp if k not in ("coqc_output",)}, indent=1)[:3000])
        return 1
    sc = rp["scenario"]
    if rp.get("obligation") and not (isinstance(sc, dict) and set(sc) == {"suite", "scenario"}):
        # a concrete input found by an extra obligation (subprocess / oracle-only stream): re-run that obligation
        print(f"replay {path}: failing input of obligation [{rp['obligation']}]: {json.dumps(sc, default=str)[:1500]}")
        print(f"failure: {rp.get('failure')}")
        results = list(mod.extra_checks({"cassis": cassis, "tier": rp.get("tier", "quick"), "seed": rp.get("seed", 0),
                                         "rng": random.Random(rp.get("seed", 0))})) if hasattr(mod, "extra_checks") else []
        bad = [r for r in results if not r[1]]
        for r in bad:
            print("still failing:", r[0], str(r[2])[:300])
        if bad:
            print(f"VIOLATION property={mod.ID} replay={path}")
        return 1 if bad else 0
    if isinstance(sc, dict) and set(sc) == {"suite", "scenario"}:  # a case of a sub-suite (see run_subsuite)
        subs = getattr(mod, "SUBSUITES", {})
        if sc["suite"] not in subs:
            print(f"replay {path}: unknown sub-suite {sc['suite']}")
            return 1
        mod, sc = subs[sc["suite"]], sc["scenario"]
    obs, msg = impl_and_oracle(mod, cassis, sc)
    print("scenario:", json.dumps(sc)[:2000])
    print("observation:", json.dumps(obs, default=str)[:2000])
    agree = None
    if obs is not None:
        ok_build, _ = coq_build(mod.COQ_TARGETS)
        t = mod.render(sc, obs) if ok_build else None
        if t is not None:
            res = run_shards(write_shards(mod, [(0, t)]))
            agree = not res[0]["mismatch_idx"] and not res[0]["error"]
    print("oracle:", msg or "accepts", "| model agrees:" , agree)
    if msg or agree is False:
        print(f"VIOLATION property={mod.ID} replay={path}" + ("" if msg else " no-failing-input-found"))
        return 1
    return 0
