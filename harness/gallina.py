"""Rendering of Python values as Gallina terms (text).  Numbers always carry their scope key."""


def gz(i):
    i = int(i)
    return f"({i})%Z" if i < 0 else f"{i}%Z"


def gn(i):
    assert int(i) >= 0
    return f"{int(i)}%N"


def gnat(i):
    assert 0 <= int(i) < 5000, "no large nat literals"
    return f"{int(i)}%nat"


def gbool(b):
    return "true" if b else "false"


def gstr(s):
    """Coq string literal; only the double quote needs doubling.  Non-ASCII passes through as UTF-8 bytes.
    Control characters cannot be written in a Coq string literal portably: use String (ascii) constructors."""
    if all(32 <= ord(c) < 127 for c in s):
        return '"' + s.replace('"', '""') + '"%string'
    # build from bytes
    bs = s.encode("utf-8")
    out = "EmptyString"
    for b in reversed(bs):
        out = f'(String (Ascii.ascii_of_N {b}%N) {out})'
    return out


def glist(items, sep="; "):
    return "[" + sep.join(items) + "]"


def gopt(x, f):
    return "None" if x is None else f"(Some {f(x)})"


def gpair(a, b):
    return f"({a}, {b})"


def gzlist(l):
    return glist([gz(i) for i in l])


def gnlist(l):
    return glist([gn(i) for i in l])
