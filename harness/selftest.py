#!/venv/bin/python
"""Self-test of the checks against a seeded change (DESIGN.md 2.8).  Not one of the registered checks.

    harness/selftest.py <dir with patch.diff [demo.py meta.json]> [--props C07,C06] [--tier quick] [--no-suite]

Copies /repo's HEAD into a scratch worktree outside /repo and /verif, applies the patch, confirms the unedited suite
still passes and the demonstration fails with / passes without the change, runs the quick check of the affected
properties with VERIF_REPO=<scratch>, prints CAUGHT/MISSED per property, updates meta.json ("ran" key) and removes
the worktree.
"""
import argparse
import json
import os
import re
import shutil
import subprocess
import sys
import tempfile

VERIF = os.path.dirname(os.path.dirname(os.path.abspath(__file__)))


def sh(cmd, cwd=None, env=None, timeout=3600):
    p = subprocess.run(cmd, cwd=cwd, env=env, shell=isinstance(cmd, str), capture_output=True, text=True, timeout=timeout)
    return p.returncode, p.stdout + p.stderr


def main():
    ap = argparse.ArgumentParser()
    ap.add_argument("dir")
    ap.add_argument("--props")
    ap.add_argument("--tier", default="quick")
    ap.add_argument("--no-suite", action="store_true")
    a = ap.parse_args()
    d = os.path.abspath(a.dir)
    meta_p = os.path.join(d, "meta.json")
    meta = json.load(open(meta_p)) if os.path.exists(meta_p) else {}
    props = a.props.split(",") if a.props else [meta.get("property") or meta.get("breaks")]
    wt = tempfile.mkdtemp(prefix="selftest-", dir="/tmp")
    os.rmdir(wt)
    ran = {"worktree_base": sh("git -C /repo rev-parse --short HEAD")[1].strip()}
    try:
        rc, out = sh(f"git -C /repo worktree add -q --detach {wt} HEAD")
        assert rc == 0, out
        rc, out = sh(f"git apply {os.path.join(d, 'patch.diff')}", cwd=wt)
        if rc != 0:
            rc, out = sh(f"patch -p1 -s --no-backup-if-mismatch < {os.path.join(d, 'patch.diff')}", cwd=wt)
        ran["patch_applies"] = rc == 0
        if rc != 0:
            print("PATCH-DOES-NOT-APPLY", out[-500:])
            return 2
        if not a.no_suite:
            rc, out = sh("/venv/bin/python -m pytest -q -p no:cacheprovider tests 2>&1 | tail -1", cwd=wt)
            ran["suite"] = out.strip()
            print("suite:", out.strip())
        demo = os.path.join(d, "demo.py")
        if os.path.exists(demo):
            env = dict(os.environ)
            env["PYTHONPATH"] = wt
            rc1, o1 = sh(["/venv/bin/python", demo], cwd="/", env=env, timeout=600)
            env["PYTHONPATH"] = "/repo"
            rc0, o0 = sh(["/venv/bin/python", demo], cwd="/", env=env, timeout=600)
            ran["demo_changed_exit"], ran["demo_unchanged_exit"] = rc1, rc0
            print(f"demo: changed exit={rc1} unchanged exit={rc0}")
        ran["checks"] = {}
        for p in props:
            env = dict(os.environ)
            env["VERIF_REPO"] = wt
            rc, out = sh([os.path.join(VERIF, "check"), p, "--tier", a.tier], cwd=VERIF, env=env)
            viol = re.findall(r"^VIOLATION .*$", out, flags=re.M)
            verdict = "CAUGHT" if rc != 0 and viol else "MISSED"
            ran["checks"][p] = {"exit": rc, "verdict": verdict, "violation_lines": viol[:3],
                                "summary": [l for l in out.split("\n") if l.startswith("[")][-1:]}
            print(f"{p}: {verdict} (exit {rc}) {viol[:1]}")
            for v in viol[:1]:
                m = re.search(r"replay=(\S+)", v)
                if m and os.path.exists(m.group(1)):
                    rp = json.load(open(m.group(1)))
                    ran["checks"][p]["replay_kind"] = rp.get("kind")
                    ran["checks"][p]["replay_failure"] = str(rp.get("failure", rp.get("problems", "")))[:300]
        meta["ran"] = ran
        if os.path.exists(meta_p) or True:
            json.dump(meta, open(meta_p, "w"), indent=1)
    finally:
        sh(f"git -C /repo worktree remove --force {wt}")
        shutil.rmtree(wt, ignore_errors=True)
    return 0


if __name__ == "__main__":
    sys.exit(main())
