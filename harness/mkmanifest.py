#!/venv/bin/python
"""Regenerates /verif/MANIFEST.json from the property modules that exist (harness/props/Cxx.py with a MANIFEST dict)."""
import importlib, json, os, sys
HERE = os.path.dirname(os.path.dirname(os.path.abspath(__file__)))
sys.path.insert(0, HERE)
props = [json.loads(l) for l in open(os.path.join(HERE, "properties.jsonl"))]
checks, na = [], []
PENDING = json.load(open(os.path.join(HERE, "harness", "pending.json"))) if os.path.exists(os.path.join(HERE, "harness", "pending.json")) else {}
for p in props:
    pid = p["id"]
    path = os.path.join(HERE, "harness", "props", pid + ".py")
    mod = None
    if os.path.exists(path):
        mod = importlib.import_module(f"harness.props.{pid}")
    done = os.path.exists(os.path.join(HERE, "design-notes", "reports", pid + ".md")) or pid == "C07"
    if mod is not None and hasattr(mod, "MANIFEST") and pid not in PENDING and done:
        m = mod.MANIFEST
        checks.append({
            "property_id": pid,
            "quick_cmd": f"./check {pid} --tier quick",
            "thorough_cmd": f"./check {pid} --tier thorough",
            "evidence_file": f"/verif/evidence/{pid}.json",
            "replay_cmd_template": f"./check {pid} --replay {{path}}",
            "engine": "coq-proof-and-correspondence",
            "level_claimed": {"category": "proof", "text": m["level_text"], "design_ref": m.get("design_ref", "DESIGN.md section 5")},
            "level_note": m["level_note"],
            "technique": m["technique"],
        })
    else:
        na.append({"property_id": pid, "reason": PENDING.get(pid, "check not yet built in this phase (planned: DESIGN.md sections 5 and 9); not a claim that the technique cannot apply")})
man = {
    "version": 1,
    "setup_cmd": "cd /verif && harness/mkcoqproject.sh && cd coq && coq_makefile -f _CoqProject -o Makefile && (timeout 3000 make -k -j16 > /verif/coq/setup.log 2>&1; tail -3 /verif/coq/setup.log; true)",
    "hooks": {"guard": "DKPRO_CASSIS_VERIF",
              "enable": "no instrumentation hooks are used: checks import the working tree of /repo (VERIF_REPO, default /repo) through sys.path and drive its public API",
              "baseline_off_cmd": "cd /repo && /venv/bin/python -m pytest -q -p no:cacheprovider --timeout=900",
              "source_commits": [], "add_only": True},
    "engines": [{"name": "coq-proof-and-correspondence", "path": "/verif/check",
                 "serves_properties": [c["property_id"] for c in checks],
                 "kind_free_text": "Coq 8.16.1 development under /verif/coq (hand-written executable models, theorems in coq/Props), "
                                   "re-built and re-checked (Print Assumptions) on every run; behavioural correspondence: the "
                                   "implementation in /repo and the model are run on the same generated cases and compared inside Coq "
                                   "with vm_compute; direct oracles search for concrete failing inputs"}],
    "checks": checks,
    "notes": "See DESIGN.md. known_findings.json lists repaired defects (fixed:) and open findings; replays are written to /verif/replays.",
    "not_applicable": na,
}
json.dump(man, open(os.path.join(HERE, "MANIFEST.json"), "w"), indent=1)
print("checks:", [c["property_id"] for c in checks], "not claimed:", [x["property_id"] for x in na])
