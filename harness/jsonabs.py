"""Abstract JSON for the JSON-CAS checks (coq/JsonDoc.v `json`): bytes -> abstract value with the stdlib parser only,
Gallina rendering, and a deliberately dumb writer with presentation knobs (an independent producer of documents).

abstract value := ("null",) | ("bool", b) | ("int", z) | ("flt", token) | ("str", s) | ("arr", [v]) | ("obj", [(key, v)])
  token = float.hex() of the parsed double, or "nan" / "inf" / "-inf" for the bare constants NaN / Infinity / -Infinity
  (cassis never writes those: allow_nan=False; a foreign document may).  Object members keep document order and
  duplicates, so that `doc_ok_json` can see them.
"""
import json
import random

from harness.gallina import gbool, glist, gstr, gz


class _Flt:
    __slots__ = ("tok",)

    def __init__(self, tok):
        self.tok = tok


class _Obj:
    __slots__ = ("pairs",)

    def __init__(self, pairs):
        self.pairs = pairs


def _const(name):
    return _Flt({"NaN": "nan", "Infinity": "inf", "-Infinity": "-inf"}[name])


def _lift(x):
    if x is None:
        return ("null",)
    if isinstance(x, bool):
        return ("bool", x)
    if isinstance(x, int):
        return ("int", x)
    if isinstance(x, _Flt):
        return ("flt", x.tok)
    if isinstance(x, str):
        return ("str", x)
    if isinstance(x, list):
        return ("arr", [_lift(e) for e in x])
    if isinstance(x, _Obj):
        return ("obj", [(k, _lift(v)) for k, v in x.pairs])
    raise TypeError(type(x))


def parse(data):
    """bytes (UTF-8) or str -> abstract value.  Floats are never rounded through text: the token is float(lit).hex()."""
    if isinstance(data, (bytes, bytearray)):
        data = bytes(data).decode("utf-8")
    raw = json.loads(data, parse_float=lambda s: _Flt(float(s).hex()), parse_constant=_const,
                     object_pairs_hook=lambda pairs: _Obj(list(pairs)))
    return _lift(raw)


# ------------------------------------------------------------------------------------------------ access helpers


def get(v, key, default=None):
    if v[0] != "obj":
        return default
    for k, x in v[1]:
        if k == key:
            return x
    return default


def plain(v):
    """abstract -> ordinary Python data (floats as ("flt", token) tuples, objects as dicts); for oracles."""
    k = v[0]
    if k == "null":
        return None
    if k in ("bool", "int", "str"):
        return v[1]
    if k == "flt":
        return ("flt", v[1])
    if k == "arr":
        return [plain(e) for e in v[1]]
    return {key: plain(x) for key, x in v[1]}


def canon(v):
    """Member order inside objects is not significant: members sorted by key (UTF-8 bytes), recursively."""
    k = v[0]
    if k == "arr":
        return ("arr", [canon(e) for e in v[1]])
    if k == "obj":
        return ("obj", sorted(((key, canon(x)) for key, x in v[1]), key=lambda kv: kv[0].encode("utf-8")))
    return v


# ------------------------------------------------------------------------------------------------ Gallina


def gallina(v):
    k = v[0]
    if k == "null":
        return "JNull"
    if k == "bool":
        return f"JBool {gbool(v[1])}"
    if k == "int":
        return f"JInt {gz(v[1])}"
    if k == "flt":
        return f"JFlt {gstr(v[1])}"
    if k == "str":
        return f"JStr {gstr(v[1])}"
    if k == "arr":
        return "JArr " + glist([_paren(gallina(e)) for e in v[1]])
    if k == "obj":
        return "JObj " + glist([f"({gstr(key)}, {gallina(x)})" for key, x in v[1]])
    raise ValueError(v)


def _paren(t):
    return t if t in ("JNull",) else "(" + t + ")"


# ------------------------------------------------------------------------------------------------ dumb writer


def _num(tok):
    if tok in ("nan", "inf", "-inf"):
        return {"nan": "NaN", "inf": "Infinity", "-inf": "-Infinity"}[tok]
    return repr(float.fromhex(tok))


def emit(v, pretty=False, ensure_ascii=False, _ind=0):
    """abstract value -> JSON text.  String escaping is json.dumps on the single string (lexical layer, not modelled)."""
    k = v[0]
    if k == "null":
        return "null"
    if k == "bool":
        return "true" if v[1] else "false"
    if k == "int":
        return str(v[1])
    if k == "flt":
        return _num(v[1])
    if k == "str":
        return json.dumps(v[1], ensure_ascii=ensure_ascii)
    nl = "\n" + " " * (_ind + 1) if pretty else ""
    end = "\n" + " " * _ind if pretty else ""
    sep = "," + (nl if pretty else " ")
    if k == "arr":
        if not v[1]:
            return "[]"
        return "[" + nl + sep.join(emit(e, pretty, ensure_ascii, _ind + 1) for e in v[1]) + end + "]"
    if not v[1]:
        return "{}"
    return "{" + nl + sep.join(json.dumps(key, ensure_ascii=ensure_ascii) + ": " + emit(x, pretty, ensure_ascii, _ind + 1)
                               for key, x in v[1]) + end + "}"


FS, TYPES, VIEWS, ID = "%FEATURE_STRUCTURES", "%TYPES", "%VIEWS", "%ID"


def entries(doc):
    """[(id, members)] of a JSON-CAS document in either form (the harness's own reading; mirrors JsonDoc.fs_entries)."""
    fs = get(doc, FS)
    if fs is None:
        return []
    if fs[0] == "arr":
        return [(((get(e, ID) or ("null",)) + (None,))[1], e[1]) for e in fs[1]]
    return [(int(k), e[1]) for k, e in fs[1]]


def present(doc, rng=None, fs_form="list", fs_order="keep", type_order="keep", member_order="keep", keep_id_in_dict=False,
            top_order="keep"):
    """The same document in another presentation.  fs_form: list | dict; *_order: keep | reverse | shuffle | sofa_last.
    Nothing here knows what the members mean, except that sofa_last moves the uima.cas.Sofa entries behind the others
    (forward references to sofas) and that the dict form keys entries by the decimal id."""
    rng = rng or random.Random(0)

    def order(seq, how):
        seq = list(seq)
        if how == "reverse":
            seq.reverse()
        elif how == "shuffle":
            rng.shuffle(seq)
        return seq

    def members(v):
        k = v[0]
        if k == "arr":
            return ("arr", [members(e) for e in v[1]])
        if k == "obj":
            return ("obj", order([(key, members(x)) for key, x in v[1]], member_order))
        return v

    out = []
    for key, val in doc[1]:
        if key == FS:
            es = entries(doc)
            if fs_order == "sofa_last":
                def is_sofa(m):
                    return any(k == "%TYPE" and x == ("str", "uima.cas.Sofa") for k, x in m)
                es = [e for e in es if not is_sofa(e[1])] + [e for e in es if is_sofa(e[1])]
            else:
                es = order(es, fs_order)
            if fs_form == "dict":
                val = ("obj", [("null" if i is None else str(i), members(("obj", [(k, x) for k, x in m if keep_id_in_dict or k != ID]))) for i, m in es])
            else:
                val = ("arr", [members(("obj", ([] if any(k == ID for k, _ in m) else [(ID, ("int", i))]) + list(m)))
                               for i, m in es])
        elif key == TYPES and val[0] == "obj":
            val = ("obj", order([(k, members(x)) for k, x in val[1]], type_order))
        else:
            val = members(val)
        out.append((key, val))
    return ("obj", order(out, top_order))


# ------------------------------------------------------------------------------------------------ independent reading

SOFA_T, FS_ARRAY_T, BYTE_ARRAY_T = "uima.cas.Sofa", "uima.cas.FSArray", "uima.cas.ByteArray"
FLOAT_ARRAYS = ("uima.cas.FloatArray", "uima.cas.DoubleArray")
PRIM_NAMES = {"uima.cas." + n for n in ("Boolean", "Byte", "Short", "Integer", "Long", "Float", "Double", "String")}


def _is_sofa(m):
    return any(k == "%TYPE" and x == ("str", SOFA_T) for k, x in m)


def _mget(m, key):
    for k, x in m:
        if k == key:
            return x
    return None


def closed_problems(doc):
    """C04's 'closed' clause read off the document alone (no schema, no model): ids distinct; every '@' member, every
    element of an FSArray, every view member names a feature structure of the document; every %SOFA names a sofa entry
    that carries the view's name.  Returns a message or None."""
    es = entries(doc)
    ids = [i for i, _m in es]
    if any(not isinstance(i, int) for i in ids):
        return "a feature structure without an integer id"
    dup = sorted({i for i in ids if ids.count(i) > 1})
    if dup:
        return f"ids written more than once: {dup}"
    idset = set(ids)
    sofa_by_id = {i: m for i, m in es if _is_sofa(m)}
    for i, m in es:
        t = _mget(m, "%TYPE")
        tn = t[1] if t and t[0] == "str" else ""
        if tn == FS_ARRAY_T or tn.endswith("[]"):
            el = _mget(m, "%ELEMENTS")
            for e in (el[1] if el and el[0] == "arr" else []):
                if e[0] == "int" and e[1] not in idset:
                    return f"element {e[1]} of the FSArray {i} is not in the document"
                if e[0] not in ("int", "null"):
                    return f"element {e} of the FSArray {i} is not a reference"
        else:
            for k, x in m:
                if k.startswith("@"):
                    if x[0] == "int" and x[1] not in idset:
                        return f"reference {k}={x[1]} of {i} does not resolve"
                    if k == "@sofa" and x[0] == "int" and x[1] not in sofa_by_id:
                        return f"@sofa={x[1]} of {i} is not a sofa of the document"
                    if x[0] not in ("int", "null"):
                        return f"reference member {k} of {i} holds {x}"
    views = get(doc, VIEWS)
    if views is None or views[0] != "obj":
        return "no %VIEWS object"
    for name, v in views[1]:
        sid = get(v, "%SOFA")
        if not sid or sid[0] != "int" or sid[1] not in sofa_by_id:
            return f"%SOFA of view {name} does not name a sofa of the document"
        if _mget(sofa_by_id[sid[1]], "sofaID") != ("str", name):
            return f"%SOFA of view {name} names the sofa {_mget(sofa_by_id[sid[1]], 'sofaID')}"
        mem = get(v, "%MEMBERS")
        if not mem or mem[0] != "arr":
            return f"view {name} has no %MEMBERS array"
        for x in mem[1]:
            if x[0] != "int" or x[1] not in idset or x[1] in sofa_by_id:
                return f"member {x} of view {name} is not a feature structure of the document"
    for i, m in sofa_by_id.items():
        nm = _mget(m, "sofaID")
        if nm is None or get(views, nm[1]) is None:
            return f"sofa {i} has no entry in %VIEWS"
    return None


def _u16_to_cp(text, u):
    """UTF-16 code unit offset -> code point offset in text (a list of code points); other positions pass through."""
    pos = 0
    for k, c in enumerate(text):
        if pos == u:
            return k
        pos += 2 if c > 0xFFFF else 1
    return len(text) if pos == u else u


def _special(x):
    if x[0] == "flt":
        return ["f", x[1]]
    if x[0] == "int":
        return ["i", x[1]]
    if x[0] == "str":
        tok = {"NaN": "nan", "Infinity": "inf", "Inf": "inf", "-Infinity": "-inf", "-Inf": "-inf"}.get(x[1])
        if tok:
            return ["f", tok]
    raise ValueError(f"not a float value: {x}")


def _prim(x):
    k = x[0]
    if k == "null":
        return None
    if k in ("bool", "int", "str"):
        return [{"bool": "b", "int": "i", "str": "s"}[k], x[1]]
    if k == "flt":
        return ["f", x[1]]
    raise ValueError(f"not a primitive value: {x}")


def _ref(x):
    if x[0] == "null":
        return None
    if x[0] == "int":
        return ["ref", x[1]]
    raise ValueError(f"not a reference: {x}")


def py_denote(schema, doc):
    """The CAS a JSON-CAS document describes, in the shape of scen.canon(cas, "json"): an independent reading of the
    format (stdlib only; neither cassis nor the Coq model).  schema: name -> {"anc": [...], "feats": [(py, x, range,
    elem, multi)]} as scen.schema_of computes it.  The `sofa` feature is reported as ["ref", id] (scen.g_cval maps both
    spellings to CRef)."""
    import base64
    es = entries(doc)
    views = get(doc, VIEWS)
    out = {"sofas": [], "fs": {}}
    texts = {}
    for i, m in es:
        if not _is_sofa(m):
            continue
        name = _mget(m, "sofaID")[1]
        st = _mget(m, "sofaString")
        text = None if st is None or st[0] == "null" else [ord(c) for c in st[1]]
        v = get(views, name)
        mem = get(v, "%MEMBERS") if v is not None else None
        arr = _mget(m, "@sofaArray")

        def s_opt(key):
            x = _mget(m, key)
            return None if x is None or x[0] == "null" else x[1]

        out["sofas"].append({"id": i, "num": _mget(m, "sofaNum")[1], "name": name, "text": text, "mime": s_opt("mimeType"),
                             "uri": s_opt("sofaURI"), "arr": None if arr is None or arr[0] == "null" else arr[1],
                             "members": sorted(x[1] for x in (mem[1] if mem else []))})
        texts[i] = text
    out["sofas"].sort(key=lambda s: s["id"])

    def is_prim(t):
        return any(a in PRIM_NAMES for a in schema.get(t, {"anc": [t]})["anc"])

    for i, m in es:
        if _is_sofa(m):
            continue
        tn = _mget(m, "%TYPE")[1]
        if tn.endswith("[]"):
            tn = FS_ARRAY_T
        if tn not in schema:
            raise ValueError(f"type {tn} is not declared")
        if "uima.cas.ArrayBase" in schema[tn]["anc"]:
            el = _mget(m, "%ELEMENTS")
            if el is None or el[0] == "null" or el == ("str", "") or el == ("arr", []):
                vals = []
            elif tn == BYTE_ARRAY_T:
                vals = [["i", b] for b in base64.b64decode(el[1], validate=True)]
            elif tn in FLOAT_ARRAYS:
                vals = [_special(x) for x in el[1]]
            elif tn == FS_ARRAY_T:
                vals = [_ref(x) for x in el[1]]
            else:
                vals = [_prim(x) for x in el[1]]
            out["fs"][i] = {"type": tn, "feats": {"elements": ["list", vals]}}
            continue
        feats = {}
        for _py, x, rng, _el, _multi in schema[tn]["feats"]:
            if _mget(m, "@" + x) is not None:
                feats[x] = _ref(_mget(m, "@" + x))
            elif _mget(m, "#" + x) is not None:
                feats[x] = _special(_mget(m, "#" + x))
            elif _mget(m, x) is not None:
                feats[x] = _prim(_mget(m, x))
            else:
                feats[x] = None
        known = {f[1] for f in schema[tn]["feats"]}
        for k, _x in m:
            if not k.startswith("%") and (k[1:] if k[:1] in ("@", "#") else k) not in known:
                raise ValueError(f"member {k} of {i} is not a feature of {tn}")
        if "uima.tcas.Annotation" in schema[tn]["anc"]:
            sid = feats.get("sofa")
            if not sid or sid[1] not in texts:
                raise ValueError(f"annotation {i} has no sofa of the document")
            text = texts[sid[1]]
            for k in ("begin", "end"):
                if feats.get(k) and feats[k][0] == "i" and text is not None:
                    feats[k] = ["i", _u16_to_cp(text, feats[k][1])]
        out["fs"][i] = {"type": tn, "feats": feats}
    return out


def norm_canon(cc):
    """scen.canon / py_denote results made comparable: ids as ints, the sofa feature as a plain reference."""
    def nv(v):
        if isinstance(v, (list, tuple)) and v and v[0] == "sofa":
            return ["ref", v[1]]
        if isinstance(v, (list, tuple)) and v and v[0] == "list":
            return ["list", [nv(e) for e in v[1]]]
        return list(v) if isinstance(v, tuple) else v
    return {"sofas": [dict(s) for s in cc["sofas"]],
            "fs": {int(i): {"type": d["type"], "feats": {k: nv(v) for k, v in d["feats"].items()}} for i, d in cc["fs"].items()}}


def canon_diff(a, b):
    """first difference between two canonical contents (a: wanted, b: got), or None"""
    a, b = norm_canon(a), norm_canon(b)
    if a["sofas"] != b["sofas"]:
        for x, y in zip(a["sofas"], b["sofas"]):
            if x != y:
                return f"sofa {x} vs {y}"
        return f"sofas {[s['name'] for s in a['sofas']]} vs {[s['name'] for s in b['sofas']]}"
    if set(a["fs"]) != set(b["fs"]):
        return f"ids only in the first {sorted(set(a['fs']) - set(b['fs']))} / only in the second {sorted(set(b['fs']) - set(a['fs']))}"
    for k in sorted(a["fs"]):
        if a["fs"][k] != b["fs"][k]:
            fa, fb = a["fs"][k]["feats"], b["fs"][k]["feats"]
            bad = [f for f in sorted(set(fa) | set(fb)) if fa.get(f) != fb.get(f)]
            return f"fs {k} ({a['fs'][k]['type']} vs {b['fs'][k]['type']}): " + "; ".join(f"{f}: {fa.get(f)} vs {fb.get(f)}" for f in bad[:3])
    return None


def nulls(doc, how, schema=None):
    """Null feature values absent or explicit.  how: keep | drop (members of feature structures whose value is null are
    left out) | explicit (every feature of a non-array, non-sofa structure that has no member gets one with value null:
    '@name' for a non-primitive range, the plain name otherwise; needs the schema).  Presentation only."""
    if how == "keep":
        return doc
    fs = get(doc, FS)
    if fs is None:
        return doc

    def prim(t):
        return any(a in PRIM_NAMES for a in schema.get(t, {"anc": [t]})["anc"])

    def one(m):
        if _is_sofa(m):
            return m
        if how == "drop":
            return [(k, x) for k, x in m if k.startswith("%") or x != ("null",)]
        t = _mget(m, "%TYPE")
        tn = t[1] if t else None
        if tn is None or tn.endswith("[]") or tn not in schema or "uima.cas.ArrayBase" in schema[tn]["anc"]:
            return m
        have = {(k[1:] if k[:1] in ("@", "#") else k) for k, _x in m}
        return list(m) + [(x if prim(rng) else "@" + x, ("null",)) for _py, x, rng, _e, _mu in schema[tn]["feats"] if x not in have]

    if fs[0] == "arr":
        new = ("arr", [("obj", one(e[1])) for e in fs[1]])
    else:
        new = ("obj", [(k, ("obj", one(e[1]))) for k, e in fs[1]])
    return ("obj", [(k, new if k == FS else v) for k, v in doc[1]])
