"""Abstract JSON for the JSON-CAS checks (coq/JsonDoc.v `json`): bytes -> abstract value with the stdlib parser only,
Gallina rendering, and a deliberately dumb writer with presentation knobs (an independent producer of documents).

abstract value := ("null",) | ("bool", b) | ("int", z) | ("flt", token) | ("str", s) | ("arr", [v]) | ("obj", [(key, v)])
  token = float.hex() of the parsed double, or "nan" / "inf" / "-inf" for the bare constants NaN / Infinity / -Infinity
  (cassis never writes those: allow_nan=False; a foreign document may).  Object members keep document order and
  duplicates, so that `doc_ok_json` can see them.
"""
import json
import random

from harness.gallina import gbool, glist, gstr, gz


class _Flt:
    __slots__ = ("tok",)

    def __init__(self, tok):
        self.tok = tok


class _Obj:
    __slots__ = ("pairs",)

    def __init__(self, pairs):
        self.pairs = pairs


def _const(name):
    return _Flt({"NaN": "nan", "Infinity": "inf", "-Infinity": "-inf"}[name])


def _lift(x):
    if x is None:
        return ("null",)
    if isinstance(x, bool):
        return ("bool", x)
    if isinstance(x, int):
        return ("int", x)
    if isinstance(x, _Flt):
        return ("flt", x.tok)
    if isinstance(x, str):
        return ("str", x)
    if isinstance(x, list):
        return ("arr", [_lift(e) for e in x])
    if isinstance(x, _Obj):
        return ("obj", [(k, _lift(v)) for k, v in x.pairs])
    raise TypeError(type(x))


def parse(data):
    """bytes (UTF-8) or str -> abstract value.  Floats are never rounded through text: the token is float(lit).hex()."""
    if isinstance(data, (bytes, bytearray)):
        data = bytes(data).decode("utf-8")
    raw = json.loads(data, parse_float=lambda s: _Flt(float(s).hex()), parse_constant=_const,
                     object_pairs_hook=lambda pairs: _Obj(list(pairs)))
    return _lift(raw)


# ------------------------------------------------------------------------------------------------ access helpers


def get(v, key, default=None):
    if v[0] != "obj":
        return default
    for k, x in v[1]:
        if k == key:
            return x
    return default


def plain(v):
    """abstract -> ordinary Python data (floats as ("flt", token) tuples, objects as dicts); for oracles."""
    k = v[0]
    if k == "null":
        return None
    if k in ("bool", "int", "str"):
        return v[1]
    if k == "flt":
        return ("flt", v[1])
    if k == "arr":
        return [plain(e) for e in v[1]]
    return {key: plain(x) for key, x in v[1]}


def canon(v):
    """Member order inside objects is not significant: members sorted by key (UTF-8 bytes), recursively."""
    k = v[0]
    if k == "arr":
        return ("arr", [canon(e) for e in v[1]])
    if k == "obj":
        return ("obj", sorted(((key, canon(x)) for key, x in v[1]), key=lambda kv: kv[0].encode("utf-8")))
    return v


# ------------------------------------------------------------------------------------------------ Gallina


def gallina(v):
    k = v[0]
    if k == "null":
        return "JNull"
    if k == "bool":
        return f"JBool {gbool(v[1])}"
    if k == "int":
        return f"JInt {gz(v[1])}"
    if k == "flt":
        return f"JFlt {gstr(v[1])}"
    if k == "str":
        return f"JStr {gstr(v[1])}"
    if k == "arr":
        return "JArr " + glist([_paren(gallina(e)) for e in v[1]])
    if k == "obj":
        return "JObj " + glist([f"({gstr(key)}, {gallina(x)})" for key, x in v[1]])
    raise ValueError(v)


def _paren(t):
    return t if t in ("JNull",) else "(" + t + ")"


# ------------------------------------------------------------------------------------------------ dumb writer


def _num(tok):
    if tok in ("nan", "inf", "-inf"):
        return {"nan": "NaN", "inf": "Infinity", "-inf": "-Infinity"}[tok]
    return repr(float.fromhex(tok))


def emit(v, pretty=False, ensure_ascii=False, _ind=0):
    """abstract value -> JSON text.  String escaping is json.dumps on the single string (lexical layer, not modelled)."""
    k = v[0]
    if k == "null":
        return "null"
    if k == "bool":
        return "true" if v[1] else "false"
    if k == "int":
        return str(v[1])
    if k == "flt":
        return _num(v[1])
    if k == "str":
        return json.dumps(v[1], ensure_ascii=ensure_ascii)
    nl = "\n" + " " * (_ind + 1) if pretty else ""
    end = "\n" + " " * _ind if pretty else ""
    sep = "," + (nl if pretty else " ")
    if k == "arr":
        if not v[1]:
            return "[]"
        return "[" + nl + sep.join(emit(e, pretty, ensure_ascii, _ind + 1) for e in v[1]) + end + "]"
    if not v[1]:
        return "{}"
    return "{" + nl + sep.join(json.dumps(key, ensure_ascii=ensure_ascii) + ": " + emit(x, pretty, ensure_ascii, _ind + 1)
                               for key, x in v[1]) + end + "}"


FS, TYPES, VIEWS, ID = "%FEATURE_STRUCTURES", "%TYPES", "%VIEWS", "%ID"


def entries(doc):
    """[(id, members)] of a JSON-CAS document in either form (the harness's own reading; mirrors JsonDoc.fs_entries)."""
    fs = get(doc, FS)
    if fs is None:
        return []
    if fs[0] == "arr":
        return [(((get(e, ID) or ("null",)) + (None,))[1], e[1]) for e in fs[1]]
    return [(int(k), e[1]) for k, e in fs[1]]


def present(doc, rng=None, fs_form="list", fs_order="keep", type_order="keep", member_order="keep", keep_id_in_dict=False,
            top_order="keep"):
    """The same document in another presentation.  fs_form: list | dict; *_order: keep | reverse | shuffle | sofa_last.
    Nothing here knows what the members mean, except that sofa_last moves the uima.cas.Sofa entries behind the others
    (forward references to sofas) and that the dict form keys entries by the decimal id."""
    rng = rng or random.Random(0)

    def order(seq, how):
        seq = list(seq)
        if how == "reverse":
            seq.reverse()
        elif how == "shuffle":
            rng.shuffle(seq)
        return seq

    def members(v):
        k = v[0]
        if k == "arr":
            return ("arr", [members(e) for e in v[1]])
        if k == "obj":
            return ("obj", order([(key, members(x)) for key, x in v[1]], member_order))
        return v

    out = []
    for key, val in doc[1]:
        if key == FS:
            es = entries(doc)
            if fs_order == "sofa_last":
                def is_sofa(m):
                    return any(k == "%TYPE" and x == ("str", "uima.cas.Sofa") for k, x in m)
                es = [e for e in es if not is_sofa(e[1])] + [e for e in es if is_sofa(e[1])]
            else:
                es = order(es, fs_order)
            if fs_form == "dict":
                val = ("obj", [("null" if i is None else str(i), members(("obj", [(k, x) for k, x in m if keep_id_in_dict or k != ID]))) for i, m in es])
            else:
                val = ("arr", [members(("obj", ([] if any(k == ID for k, _ in m) else [(ID, ("int", i))]) + list(m)))
                               for i, m in es])
        elif key == TYPES and val[0] == "obj":
            val = ("obj", order([(k, members(x)) for k, x in val[1]], type_order))
        else:
            val = members(val)
        out.append((key, val))
    return ("obj", order(out, top_order))
