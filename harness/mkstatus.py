#!/venv/bin/python
"""Regenerates the measured tables of DESIGN.md section 11.3 / 11.4 (between the BEGIN/END markers) from
coq/Props/*.v, evidence/*.json and seeded/*/m*/meta.json.  The prose column 'still open' is kept in OPEN below and is
maintained by hand from the builder reports."""
import glob
import json
import os
import re

HERE = os.path.dirname(os.path.dirname(os.path.abspath(__file__)))

OPEN = {
    "C01": "reader success on writer output / round trip of a CAS that was itself loaded (see reports/C01.md); byte layer (escaping, prefixes, whitespace, float lexemes) below the abstract documents",
    "C02": "see reports/C02.md; `lex_ok` (UTF-8/base64) is a premise instantiated by concrete codecs and tested per case; JSON text layer is `json`'s",
    "C03": "nothing partial; document theorems are stated on the small document model of Offsets.v; `str.encode('utf-16-le')` is a contract checked exhaustively in the thorough tier",
    "C04": "nothing partial for XMI (closure, ids, references, completeness derived from the traversal); JSON half: reports/JSON-halves.md",
    "C05": "see reports/C05.md (documents without `_InitialView`); lxml namespace resolution and iterparse event order are below the model",
    "C06": "nothing partial; xmiID / sofa assignment inside add are C08/C09's",
    "C07": "nothing partial; composed with C10's descendants through Bridge.v",
    "C08": "nothing partial; `handles_equivalent` is immediate in the model because a handle is (view name, lenient): the correspondence validates that modelling",
    "C09": "premise `forced_clearb` (no FS carries a sofa's id from outside) - the open known finding; refuted without it",
    "C10": "XML / JSON / merge constructors establish WFh in C12 / C02 / C13; object identity is observed (`is`), not modelled",
    "C11": "nothing partial for create_type / create_feature / instantiate histories (mechanism form = functional form proved)",
    "C12": "see reports/C12.md",
    "C13": "full order independence under the property's side condition, regrouping (see reports/C13.md)",
    "C14": "PARTIAL by nature: byte identity across processes, hash seeds and sinks is observed by the subprocess oracle, not proved; theorems are order-independence / idempotence of the model with every set-iteration site an explicit permutation",
    "C15": "PARTIAL by nature: theorems bound loop iterations of the model (pops <= live objects, list walk, traversal total); wall-clock polynomiality is a measured deadline + growth-ratio oracle",
    "C16": "`inline_outline_at` (relation between the two traversals) is a premise evaluated on every case; see reports/C16.md",
    "C17": "nothing partial",
    "C18": "`set_then_get` needs the aliasing premise `avoidsb` (refuted without it: not a defect, plain attribute access behaves the same)",
    "C19": "nothing partial",
    "C20": "full 'different whenever content differs' for arbitrary pairs not proved (single-point sensitivity is); two open known findings",
}


def main():
    rows = []
    for f in sorted(glob.glob(os.path.join(HERE, "coq/Props/C*.v"))):
        pid = os.path.basename(f)[:-2]
        src = re.sub(r"\(\*.*?\*\)", "", open(f, encoding="utf-8").read(), flags=re.S)
        thms = re.findall(r"^\s*Theorem\s+(\w+)", src, flags=re.M)
        ev_p = os.path.join(HERE, "evidence", pid + ".json")
        ev = json.load(open(ev_p)) if os.path.exists(ev_p) else None
        c = ev["coverage"] if ev else {}
        rows.append((pid, len(thms), sum(1 for t in thms if t.endswith("_partial")), sum(1 for t in thms if "refuted" in t),
                     c.get("evaluations"), c.get("cases_compared_in_coq"), c.get("premises_satisfied"), c.get("distinct_nontrivial"),
                     len(c.get("extra_obligations", [])), ev.get("tier") if ev else None, ev.get("wall_s") if ev else None))
    out = ["| id | theorems in Props (of which `_partial` / `_refuted` witnesses) | last run: cases / compared in Coq / inside premises / non-trivial / extra obligations | tier, wall | still open |",
           "|----|------|------|------|------|"]
    for r in rows:
        out.append(f"| {r[0]} | {r[1]} ({r[2]} / {r[3]}) | {r[4]} / {r[5]} / {r[6]} / {r[7]} / {r[8]} | {r[9]}, {r[10]} s | {OPEN.get(r[0], '')} |")
    t113 = "\n".join(out)

    out = ["| seeded change | what it does (one line) | needs | suite | checks run -> verdict |", "|----|----|----|----|----|"]
    for d in sorted(glob.glob(os.path.join(HERE, "seeded/C*/[mnpqr][0-9]"))):
        mp = os.path.join(d, "meta.json")
        if not os.path.exists(mp):
            continue
        m = json.load(open(mp))
        ran = m.get("ran", {})
        fin = m.get("final")
        if fin:
            if not fin.get("applies", True):
                verdicts = "patch no longer applies to the repaired /repo; last scratch-worktree run: " + ", ".join(
                    f"{k}: {v['verdict']}" for k, v in sorted(ran.get("checks", {}).items()))
            else:
                parts = []
                for k, v in sorted(fin.get("checks", {}).items()):
                    if v["exit"] != 0 and v["violation"]:
                        parts.append(f"{k}: CAUGHT" + (" (no-failing-input-found)" if "no-failing-input-found" in v["violation"][0] else ""))
                    else:
                        parts.append(f"{k}: quiet")
                verdicts = fin.get("verdict", "") + " — " + ", ".join(parts)
            ran = dict(ran, suite=fin.get("suite", ran.get("suite", "")))
        else:
            verdicts = ", ".join(f"{k}: {v['verdict']}" + (" (no-failing-input-found)" if any("no-failing-input-found" in x for x in v.get("violation_lines", [])) else "")
                                 for k, v in sorted(ran.get("checks", {}).items()))
        summ = (m.get("summary") or "").replace("|", "/").replace("\n", " ")
        needs = (m.get("needs") or "").replace("|", "/").replace("\n", " ")
        out.append(f"| {d.split('/')[-2]}/{d.split('/')[-1]} | {summ[:170]} | {needs[:150]} | {ran.get('suite', m.get('suite', ''))} | {verdicts} |")
    t114 = "\n".join(out)
    out = ["| rewrite | what it does | checks run against it in /repo -> verdict |", "|----|----|----|"]
    for d in sorted(glob.glob(os.path.join(HERE, "seeded/harmless/h*")), key=lambda x: int(x.rsplit("h", 1)[1])):
        m = json.load(open(os.path.join(d, "meta.json")))
        fin = m.get("final", {})
        ran = m.get("ran", {}).get("checks", {})
        if fin.get("checks"):
            verdict, n = fin.get("verdict", ""), len(fin["checks"])
        else:  # run in a scratch worktree (VERIF_REPO) by harness/selftest.py: "MISSED" there means the check stayed quiet
            loud = [k for k, v in ran.items() if v.get("exit") != 0]
            verdict, n = ("QUIET" if not loud else "FALSE-ALARM " + ",".join(loud)), len(ran)
        out.append(f"| {os.path.basename(d)} | {(m.get('summary') or '').replace('|', '/')[:200]} | {verdict} ({n} checks; suite {m.get('suite', '415 passed')}) |")
    t115 = "\n".join(out)

    p = os.path.join(HERE, "DESIGN.md")
    s = open(p, encoding="utf-8").read()
    for tag, body in (("STATUS", t113), ("SEEDED", t114), ("HARMLESS", t115)):
        a, b = f"<!-- BEGIN {tag} -->", f"<!-- END {tag} -->"
        if a in s and b in s:
            s = s[:s.index(a) + len(a)] + "\n" + body + "\n" + s[s.index(b):]
    open(p, "w", encoding="utf-8").write(s)
    print("DESIGN.md tables refreshed:", len(rows), "properties")


if __name__ == "__main__":
    main()
