#!/bin/bash
# Regenerates coq/_CoqProject from the .v files present (gen/ excluded). coq_makefile + coqdep order them.
cd /verif/coq || exit 1
{ echo "-Q . Cassis"; ls *.v | sort; ls Props/*.v | sort; } > _CoqProject.tmp && mv _CoqProject.tmp _CoqProject
