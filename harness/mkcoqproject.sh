#!/bin/bash
# Regenerates coq/_CoqProject from the .v files present (gen/ excluded). coq_makefile + coqdep order them.
# Same content and order as harness/core.py:coq_build writes (LC_ALL=C = Python's sorted()).
cd /verif/coq || exit 1
export LC_ALL=C
{ echo "-Q . Cassis"; ls *.v | sort; ls Props/*.v | sort; } > _CoqProject.tmp && mv _CoqProject.tmp _CoqProject
