"""Subprocess driver of the C14 oracle (harness/props/C14.py).  Run as

    PYTHONPATH=<repo>:/verif PYTHONHASHSEED=<seed> /venv/bin/python /verif/harness/c14_driver.py <job.json>

job.json = {"repo": <tree under test>, "work": <scratch dir, exists>, "scenarios": [{"tspec": .., "cspec": ..}, ..]}.
For every scenario the CAS is built once through the public API (harness/scen.py builders) and written with every option
combination to a returned string, a str path and a pathlib.Path; the sha256 of the bytes of each result is printed (one
JSON document on stdout).  Type systems: built through the API, loaded from its XML, reconstructed from the JSON document
of the CAS (FULL and MINIMAL) and merged from two halves.  Nothing here decides anything: the parent compares digests.
"""
import hashlib
import json
import os
import pathlib
import sys
import warnings


DOCANN = "uima.tcas.DocumentAnnotation"
REDECL = ["uima.tcas.Annotation", "uima.cas.AnnotationBase", DOCANN]


def redeclare_xml(xml):
    """The descriptor with three predefined types declared again, exactly as they are built in."""

    def td(name, sup, feats):
        s = "<typeDescription><name>%s</name><description/><supertypeName>%s</supertypeName><features>" % (name, sup)
        s += "".join("<featureDescription><name>%s</name><description/><rangeTypeName>%s</rangeTypeName></featureDescription>"
                     % f for f in feats)
        return s + "</features></typeDescription>"

    snip = (td("uima.tcas.Annotation", "uima.cas.AnnotationBase", [("begin", "uima.cas.Integer"), ("end", "uima.cas.Integer")])
            + td("uima.cas.AnnotationBase", "uima.cas.TOP", [("sofa", "uima.cas.Sofa")])
            + td(DOCANN, "uima.tcas.Annotation", [("language", "uima.cas.String")]))
    assert "</types>" in xml
    return xml.replace("</types>", snip + "</types>")


def set_sofa_arrays(cspec, views, objs):
    """The sofa knob of the C14 scenarios: a view may carry "array", the label of the uima.cas.ByteArray object that holds
    its sofa data (set through the public API: view.sofa_array = ...)."""
    for i, v in enumerate(cspec["views"]):
        if v.get("array") is not None:
            views[i].sofa_array = objs[v["array"]]


def sha(b):
    if isinstance(b, str):
        b = b.encode("utf-8")
    return hashlib.sha256(b).hexdigest()[:20]


def three_sinks(out, key, work, call):
    """call(path_or_None) -> str | None.  Records digests for the string result, a str path and a Path."""
    try:
        out[key + "|string"] = sha(call(None))
    except Exception as e:  # noqa
        out[key + "|string"] = "ERR:" + type(e).__name__
    for kind in ("strpath", "Path"):
        p = os.path.join(work, "out_%d.bin" % os.getpid())
        try:
            call(p if kind == "strpath" else pathlib.Path(p))
            with open(p, "rb") as f:
                out[key + "|" + kind] = sha(f.read())
        except Exception as e:  # noqa
            out[key + "|" + kind] = "ERR:" + type(e).__name__
        finally:
            if os.path.exists(p):
                os.remove(p)


def main():
    warnings.simplefilter("ignore")
    job = json.load(open(sys.argv[1]))
    import cassis
    from cassis.typesystem import TypeSystemMode

    where = os.path.realpath(os.path.dirname(cassis.__file__))
    want = os.path.realpath(os.path.join(job["repo"], "cassis"))
    if where != want:
        print(json.dumps({"fatal": "cassis imported from %s, expected %s" % (where, want)}))
        return
    from harness import scen

    work = job["work"]
    results = []
    for sc in job["scenarios"]:
        out = {}
        try:
            ts = scen.build_ts(cassis, sc["tspec"])
            cas, _views, _objs = scen.build_cas(cassis, ts, sc["cspec"])
            set_sofa_arrays(sc["cspec"], _views, _objs)
        except Exception as e:  # noqa
            results.append({"build": "ERR:" + type(e).__name__ + ":" + str(e)[:100]})
            continue
        for pp in (False, True):
            three_sinks(out, "xmi|pp=%d" % pp, work, lambda p, pp=pp: cas.to_xmi(p, pretty_print=pp))
        for pp, ea, mode in ((False, False, "FULL"), (True, False, "FULL"), (False, True, "MINIMAL"),
                             (True, True, "MINIMAL"), (False, False, "MINIMAL"), (False, False, "NONE"), (True, True, "NONE")):
            three_sinks(out, "json|pp=%d|ea=%d|mode=%s" % (pp, ea, mode), work,
                        lambda p, pp=pp, ea=ea, mode=mode: cas.to_json(p, pretty_print=pp, ensure_ascii=ea,
                                                                        type_system_mode=TypeSystemMode[mode]))
        three_sinks(out, "tsxml|api", work, lambda p: ts.to_xml(p))
        # the same once more at the end: nothing in between may have changed what is written
        try:
            out["xmi|pp=0|string-again"] = sha(cas.to_xmi())
            out["json|pp=0|ea=0|mode=FULL|string-again"] = sha(cas.to_json())
        except Exception as e:  # noqa
            out["again"] = "ERR:" + type(e).__name__
        # type systems obtained in other ways
        try:
            ts_xml = cassis.load_typesystem(ts.to_xml())
            three_sinks(out, "tsxml|loaded", work, lambda p: ts_xml.to_xml(p))
        except Exception as e:  # noqa
            out["tsxml|loaded"] = "ERR:" + type(e).__name__
        try:
            ts_red = cassis.load_typesystem(redeclare_xml(ts.to_xml()))
            three_sinks(out, "tsxml|redeclared", work, lambda p: ts_red.to_xml(p))
        except Exception as e:  # noqa
            out["tsxml|redeclared"] = "ERR:" + type(e).__name__
        for mode in ("FULL", "MINIMAL"):
            try:
                ts_j = cassis.load_cas_from_json(cas.to_json(type_system_mode=TypeSystemMode[mode])).typesystem
                out["tsxml|from-json-%s|string" % mode] = sha(ts_j.to_xml())
            except Exception as e:  # noqa
                out["tsxml|from-json-%s|string" % mode] = "ERR:" + type(e).__name__
        try:
            halves = []
            for par in (0, 1):
                half = [dict(t, feats=[f for k, f in enumerate(t["feats"]) if (k + i) % 2 == par])
                        for i, t in enumerate(sc["tspec"])]
                halves.append(scen.build_ts(cassis, half))
            merged = cassis.merge_typesystems(halves[0], halves[1], ts_xml)
            three_sinks(out, "tsxml|merged", work, lambda p: merged.to_xml(p))
        except Exception as e:  # noqa
            out["tsxml|merged"] = "ERR:" + type(e).__name__
        results.append(out)
    print(json.dumps({"results": results}))


if __name__ == "__main__":
    main()
