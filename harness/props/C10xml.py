"""C10, sub-suite "xml": the hierarchy queries on type systems obtained by XML LOADING (load_typesystem of a descriptor
written by the harness's own writer), possibly extended afterwards by create_type / create_feature / instantiation.

Scenario IR (JSON-able):
  {"decls": [{"n": name, "s": supertypeName, "d": description|None,
              "f": [{"n": feature name, "r": rangeTypeName, "e": elementType|None, "m": bool|None, "d": str|None}, ...]}, ...]
            the typeDescriptions in DOCUMENT order (any order: children before parents, shuffled),
   "ops": [tscommon ops applied to the loaded type system],
   "names" / "lookups" / "pairs": the query sets of c10queries.py}
Names may be dot-free ('A' next to 'a.A' and 'b.A'): get_type / contains_type resolve a full name first.
"""
import json

from harness.gallina import glist, gstr
from harness.props import c10queries as Q
from harness.props import tscommon as T
from harness.props.tscommon import Tree, gobool, gostr, gout, gstrs

ID = "C10xml"
SUITE = "xml"
COQ_TARGETS = ["TS.vo", "Descr.vo", "DescrTS.vo", "Merge.vo", "C10Load.vo", "CorrC10.vo", "CorrC10xml.vo"]
CORR_IMPORTS = "Base TS CorrC10 CorrC10xml"
OPEN_SCOPES = ["string_scope", "list_scope"]
CASE_TYPE = "xcase"
CHECK_FN = "check_xcase"
PREMISES_FN = "premises_x"
CASES_PER_SHARD = 24
SHARD_BYTES = 120_000
SHARD_JOBS = 14

ENTRY = "cassis.load_typesystem, TypeSystem.create_type/get_type/contains_type/subsumes/is_instance_of, Type.children/descendants/subsumes"
RULE = ("a descriptor written by the harness (forest of 1-12 user types below built-in types, full and dot-free names with equal "
        "short names, typeDescriptions in any document order, features with built-in / user range and element types) is loaded "
        "with load_typesystem; 0-3 create_type / create_feature / instantiation calls follow on the loaded object; then the "
        "whole query battery of the main suite; see C10.RULE")
TRUSTED = ["coq/Descr.v + coq/DescrTS.v (C12's model of TypeSystemDeserializer: reader at descriptor level, replayed on TS.v as "
           "create_type in creation order then create_feature; C12's own correspondence check ties it to /repo; here it is "
           "evaluated on every case and compared again); the creation order (toposort_flatten, external) is observed and "
           "constrained by Descr.order_okb",
           "the harness's own XML writer (plain typeSystemDescription, ASCII identifiers)",
           "oracle: the declared tree is read off the descriptor (hand-written bookkeeping tscommon.Tree)"]
ASSUMPTIONS = ["descriptors declare every user type once, every supertype / range / element type is a built-in or declared, no "
               "feature name is declared twice in a case, DocumentAnnotation and other built-ins are not redeclared (which "
               "descriptors load, and what is written back, is C12); the one malformed family: a type below a final array type, "
               "which must be refused with ValueError"]
ANN, TOP = "uima.tcas.Annotation", T.TOP
DOCANN = "uima.tcas.DocumentAnnotation"
NODOC = [n for n in T.BUILTIN_NAMES if n != DOCANN]
POOL = ["a.A", "A", "b.A", "B"]
BASE_LOOKUPS = ["a.A", "A", "b.A", "B", "a.B", "Annotation", ANN, "TOP", "no.Such", "Nope", "DocumentAnnotation", "String"]


def decl(n, s, d=None, f=()):
    return {"n": n, "s": s, "d": d, "f": [dict(x) for x in f]}


def feat(n, r, e=None, m=None, d=None):
    return {"n": n, "r": r, "e": e, "m": m, "d": d}


def ct(n, s, d=None):
    return {"op": "ct", "n": n, "s": s, "d": d}


def cf(dom, n, r, e=None, m=None, d=None):
    return {"op": "cf", "dom": dom, "n": n, "r": r, "e": e, "m": m, "d": d}


# ---------------------------------------------------------------------------------------------- generators
def _queries(decls, ops, rng=None, full=False):
    users = [t["n"] for t in decls]
    for op in ops:
        if op["op"] == "ct" and op["n"] not in users and op["n"] not in T.BUILTIN_NAMES:
            users.append(op["n"])
    if full:
        names = list(T.BUILTIN_NAMES) + users
    else:
        names = []
        for n in users[:7] + [t["s"] for t in decls if t["s"] in T.BUILTIN_NAMES][:1] + [ANN, TOP, DOCANN]:
            if n not in names:
                names.append(n)
        names = names[:9]
    lookups = []
    for s in BASE_LOOKUPS + users + [T.short(u) for u in users]:
        if s not in lookups:
            lookups.append(s)
    lookups = lookups[:22]
    # (parent, child): the parent by any spelling get_type accepts or refuses, the child mostly a registered full name
    cand = [["Annotation", "A"], ["a.A", "B"], ["TOP", "Nope"], ["A", "a.A"], ["a.A", "A"]]
    for u in users[:3]:
        cand += [["Annotation", u], ["AnnotationBase", T.short(u)], [T.short(u), u]]
    for u in users[:3]:
        cand += [[T.short(u), v] for v in users[:4] if v != u]
        cand += [[u, v] for v in users[:4] if v != u]
    if users:
        cand += [["Nope", users[0]], ["TOP", users[-1]]]
    pairs = []
    if rng is not None:
        par = [T.short(u) for u in users] + users[:4] + ["Annotation", "TOP", "Nope", "no.Such"]
        for _ in range(5):
            pairs.append([rng.choice(par), rng.choice(users) if users else rng.choice(lookups)])
        pairs.append([rng.choice(lookups), rng.choice(lookups)])
    for p in cand:
        if p not in pairs:
            pairs.append(p)
    return {"decls": decls, "ops": ops, "names": names, "lookups": lookups, "pairs": pairs[:12]}


def _small_forests(k):
    """every forest of k distinct names of POOL, each below Annotation, TOP or an earlier name"""
    def rec(chosen):
        if len(chosen) == k:
            yield list(chosen)
            return
        used = [n for n, _ in chosen]
        for n in POOL:
            if n in used:
                continue
            for p in [ANN, TOP] + used:
                yield from rec(chosen + [(n, p)])
    yield from rec([])


POST = [[], [ct("z.N", "A")], [ct("A", "a.A"), ct("z.M", "B")], [ct("c.A", "A"), cf("A", "z1", "uima.cas.String")]]


def _enumerated(rng, n_three):
    k = 0
    for size in (1, 2):
        for forest in _small_forests(size):
            decls = [decl(n, p) for n, p in forest]
            if k % 2:
                decls.reverse()
            if k % 5 == 3 and len(decls) == 2:      # a reference from a feature to the other declared type
                decls[0]["f"] = [feat("ref", decls[1]["n"]), feat("arr", "uima.cas.FSArray", e=decls[1]["n"])]
            yield _queries(decls, T.clone(POST[k % 4]), full=(k % 50 == 7))
            k += 1
    three = list(_small_forests(3))
    for forest in rng.sample(three, min(n_three, len(three))):
        decls = [decl(n, p) for n, p in forest]
        rng.shuffle(decls)
        yield _queries(decls, T.clone(POST[k % 4]))
        k += 1


def _random_case(rng, k):
    n_types = rng.randint(4, 12)
    users, par, depth = [], {}, {}
    while len(users) < n_types:
        sh = rng.choice(["T", "U", "V", "W"]) + str(rng.randint(0, 2))
        p = rng.choice(["a", "b", "c", "", "", ""])
        name = (p + "." + sh) if p else sh
        if rng.random() < 0.08:
            name = "x.y." + sh
        if name in users:
            continue
        cands = [u for u in users if depth[u] < 7]
        if cands and rng.random() < 0.75:
            cands.sort(key=lambda u: -depth[u])
            q = rng.choice(cands[:3]) if rng.random() < 0.6 else rng.choice(cands)
            depth[name] = depth[q] + 1
        else:
            q = rng.choice([ANN, ANN, TOP, "uima.cas.AnnotationBase", "uima.cas.String", "uima.cas.FSArray", DOCANN])
            depth[name] = 1
        users.append(name)
        par[name] = q
    fnames = ["f", "g", "h", "self", "type", "lemma", "k", "l"]
    rng.shuffle(fnames)
    decls = []
    for u in users:
        fs = []
        while fnames and rng.random() < 0.3:
            r = rng.choice(["uima.cas.Integer", "uima.cas.String", "uima.cas.FSArray", "uima.cas.FSList", rng.choice(users), ANN])
            e = rng.choice([None, ANN, rng.choice(users), rng.choice(users)]) if r in ("uima.cas.FSArray", "uima.cas.FSList") else None
            fs.append(feat(fnames.pop(), r, e, rng.choice([None, None, True, False]), rng.choice([None, None, "d"])))
        decls.append(decl(u, par[u], rng.choice([None, None, "d"]), fs))
    if rng.random() < 0.06:   # the malformed family: a type below a final array type
        decls.append(decl("z.F", rng.choice(sorted(T.FINAL))))
    order = rng.random()
    if order < 0.4:
        rng.shuffle(decls)
    elif order < 0.7:
        decls.reverse()
    ops = []
    if rng.random() < 0.5:
        for i in range(rng.randint(1, 3)):
            r = rng.random()
            if r < 0.6:
                new = rng.choice(["z.N" + str(i), "N" + str(i), T.short(rng.choice(users)), "q." + T.short(rng.choice(users)),
                                  rng.choice(users)])
                ops.append(ct(new, rng.choice(users + [T.short(rng.choice(users)), T.short(rng.choice(users)), ANN, "no.Such",
                                                      "uima.cas.StringArray", "N0"])))
            elif r < 0.85:
                ops.append(cf(rng.choice(users + [T.short(rng.choice(users))]), rng.choice(["z1", "z2"]),
                              rng.choice(["uima.cas.String", "uima.cas.FSArray", rng.choice(users), T.short(rng.choice(users))])))
            else:
                ops.append({"op": "inst", "t": rng.choice(users + [T.short(rng.choice(users))])})
    sc = _queries(decls, ops, rng, full=(k % 40 == 7))
    deep = sorted(users, key=lambda u: -depth[u])[:4]
    if k % 40 != 7:
        names = []
        for n in deep + sc["names"]:
            if n not in names:
                names.append(n)
        sc["names"] = names[:9]
    return sc


def generate(rng, tier):
    if tier != "search":
        yield from _enumerated(rng, {"quick": 50, "thorough": 576}[tier])
    for k in range({"quick": 70, "thorough": 800, "search": 1500}[tier]):
        yield _random_case(rng, k)


# ---------------------------------------------------------------------------------------------- implementation
def descriptor_xml(decls):
    """the harness's own writer: plain typeSystemDescription, document order as given"""
    out = ['<?xml version="1.0" encoding="UTF-8"?>',
           '<typeSystemDescription xmlns="http://uima.apache.org/resourceSpecifier">', "  <types>"]

    def d_(x):
        return "<description/>" if x is None else f"<description>{x}</description>"

    for t in decls:
        out += ["    <typeDescription>", f"      <name>{t['n']}</name>", "      " + d_(t["d"]),
                f"      <supertypeName>{t['s']}</supertypeName>"]
        if t["f"]:
            out.append("      <features>")
            for f in t["f"]:
                out += ["        <featureDescription>", f"          <name>{f['n']}</name>", "          " + d_(f["d"]),
                        f"          <rangeTypeName>{f['r']}</rangeTypeName>"]
                if f["e"] is not None:
                    out.append(f"          <elementType>{f['e']}</elementType>")
                if f["m"] is not None:
                    out.append(f"          <multipleReferencesAllowed>{'true' if f['m'] else 'false'}</multipleReferencesAllowed>")
                out.append("        </featureDescription>")
            out.append("      </features>")
        out.append("    </typeDescription>")
    out += ["  </types>", "</typeSystemDescription>"]
    return "\n".join(out)


def parents_first(decls):
    """a creation order of the harness's own (used for the model when the load raised, and by the oracle)"""
    done, todo, out = set(T.BUILTIN_NAMES), list(decls), []
    while todo:
        nxt = [t for t in todo if t["s"] in done]
        if not nxt:
            break
        for t in nxt:
            out.append(t)
            done.add(t["n"])
        todo = [t for t in todo if t["n"] not in done]
    return out + todo


def run_impl(cassis, sc):
    xml = descriptor_xml(sc["decls"])
    try:
        ts = cassis.load_typesystem(xml)
    except Exception as e:  # noqa
        return {"load": T.err_kind(cassis, e), "created": [DOCANN] + [t["n"] for t in parents_first(sc["decls"])]}
    loaded = [t.name for t in ts.get_types(built_in=True)]
    obs = {"load": "ok", "loaded": loaded, "created": [n for n in loaded if n not in NODOC],
           "ident_loaded": T.identity_failures(ts)[:5]}
    outcomes, changed = [], []
    before = T.dump(ts)
    for i, op in enumerate(sc["ops"]):
        out = T.apply_op(cassis, ts, op)
        outcomes.append(out)
        after = T.dump(ts)
        if out != "ok" and after != before:
            changed.append(i)
        before = after
    obs["out"], obs["changed_on_failure"] = outcomes, changed
    obs.update(Q.observe(cassis, ts, sc))
    return obs


# ---------------------------------------------------------------------------------------------- oracle
def declared_tree(decls):
    """the tree the descriptor declares: every typeDescription below its supertypeName, features as declared (a feature
    declared as self / type is held as self_ / type_), next to the built-in types and the default DocumentAnnotation"""
    tree = Tree()
    for t in parents_first(decls):
        tree.sup[t["n"]] = t["s"]
        tree.own[t["n"]] = {}
        for f in t["f"]:
            name = f["n"] + "_" if f["n"] in ("self", "type") else f["n"]
            tree.own[t["n"]][name] = (f["r"], f["e"], f["m"], f["d"])
    return tree


def oracle(cassis, sc, obs):
    below_final = [t["n"] for t in sc["decls"] if t["s"] in T.FINAL]
    if obs["load"] != "ok":
        if below_final:
            return None if obs["load"] == "EValue" else (f"final: the descriptor declares {below_final[0]} below a final array type; "
                                                         f"load_typesystem raised {obs['load']}, expected ValueError")
        return f"load: load_typesystem refused a descriptor of distinct, closed, clash-free declarations with {obs['load']}"
    if below_final:
        return f"final: load_typesystem accepted a descriptor declaring {below_final[0]} below a final array type"
    tree = declared_tree(sc["decls"])
    if sorted(obs["loaded"]) != sorted(tree.sup):
        return (f"registry: after load_typesystem the registered types differ from the declared ones: unexpected "
                f"{sorted(set(obs['loaded']) - set(tree.sup))[:5]}, missing {sorted(set(tree.sup) - set(obs['loaded']))[:5]}, "
                f"listed twice {sorted({n for n in obs['loaded'] if obs['loaded'].count(n) > 1})[:3]}")
    if obs["ident_loaded"]:
        return "identity: after load_typesystem: " + obs["ident_loaded"][0]
    for i, (op, out) in enumerate(zip(sc["ops"], obs["out"])):
        allowed = tree.apply(op, out)
        if out not in allowed:
            return f"outcome: operation {i} {json.dumps(op)} on the loaded type system gave {out}, the property allows {sorted(allowed)}"
    if obs["changed_on_failure"]:
        i = obs["changed_on_failure"][0]
        return f"unchanged: refused operation {i} {json.dumps(sc['ops'][i])} changed the loaded type system"
    return Q.judge(tree, sc, obs, exact_order=False)


# ---------------------------------------------------------------------------------------------- Gallina
EMPTY_OBS = {"order": list(NODOC), "names": [], "sub_ts": [], "sub_ty": [], "iio": [], "super": [], "children": [], "desc": [],
             "prim": [], "get": [], "contains": [], "contains_exact": [], "pairs_sub": [], "pairs_iio": []}


def _gfeat(f):
    return f'XF {gstr(f["n"])} {gostr(f["d"])} {gstr(f["r"])} {gostr(f["e"])} {gobool(f["m"])}'


def _gdecl(t):
    return f'XT {gstr(t["n"])} {gostr(t["d"])} {gstr(t["s"])} {glist([_gfeat(f) for f in t["f"]])}'


def render(sc, obs):
    descr = glist([_gdecl(t) for t in sc["decls"]], sep=";  ")
    if obs["load"] != "ok":
        q = Q.render_case([], [], {"lookups": [], "pairs": []}, EMPTY_OBS, len(T.BUILTIN_NAMES), True)
    else:
        # c_users: registered names from position |TypeSystem()| on = created[1:] + what the history added (CorrC10xml.v)
        q = Q.render_case(sc["ops"], obs["out"], sc, obs, len(T.BUILTIN_NAMES), not obs["ident"] and not obs["ident_loaded"])
    return f"mkXCase ({descr}) ({gstrs(obs['created'])}) ({gout(obs['load'])}) ({q})"


def nontrivial(sc):
    """two user types in an ancestor relation, or two registered names with one short name (full / dot-free)"""
    users = [t["n"] for t in sc["decls"]]
    shorts = [T.short(u) for u in users]
    return any(t["s"] in users for t in sc["decls"]) or len(set(shorts)) < len(shorts)


def shrink_candidates(sc):
    ops = sc["ops"]
    for i in range(len(ops)):
        c = T.clone(sc)
        c["ops"] = ops[:i] + ops[i + 1:]
        yield c
    supers = {t["s"] for t in sc["decls"]}
    refs = {x for t in sc["decls"] for f in t["f"] for x in (f["r"], f["e"])}
    for i, t in enumerate(sc["decls"]):
        if t["n"] not in supers and t["n"] not in refs:      # a leaf nothing refers to
            c = T.clone(sc)
            c["decls"] = sc["decls"][:i] + sc["decls"][i + 1:]
            yield c
    for i, t in enumerate(sc["decls"]):
        if t["f"]:
            c = T.clone(sc)
            c["decls"][i]["f"] = []
            yield c
    if len(sc["names"]) > 2:
        for i in range(len(sc["names"])):
            c = T.clone(sc)
            c["names"] = sc["names"][:i] + sc["names"][i + 1:]
            yield c
    for key in ("lookups", "pairs"):
        if len(sc[key]) > 1:
            c = T.clone(sc)
            c[key] = sc[key][:len(sc[key]) // 2]
            yield c
            c = T.clone(sc)
            c[key] = sc[key][len(sc[key]) // 2:]
            yield c


def signature(sc, msg):
    return {"what": msg.split(":")[0] if msg else ""}
