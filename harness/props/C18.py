"""C18 — feature paths read and write exactly what step-by-step attribute access does."""
import itertools
import json

from harness.gallina import glist, gn, gstr, gbool

ID = "C18"
COQ_TARGETS = ["Paths.vo", "PathsProofs.vo", "CorrC18.vo", "Props/C18.vo"]
PROPS_FILE = "Props/C18.v"
CORR_IMPORTS = "Base Paths CorrC18"
OPEN_SCOPES = ["string_scope", "list_scope"]
CASE_TYPE = "mcase"          # a scenario is a list of stages (CorrC18.v): the type system grows between them
CHECK_FN = "check_mcase"
PREMISES_FN = "mpremises"
ENTRY = "cassis.typesystem.FeatureStructure.get / set / __getitem__ / __setitem__ / value"
RULE = (
    "quick: (a) every string of length <= 5 over {feature, unknown name, '.'} as a get path and as a set path on a "
    "cyclic two-type heap; (b) seeded random heaps of <= 7 objects (self loops, mutual references, subtypes with "
    "inherited features, annotation types, NonEmptyFSList chains incl. cyclic tails, FSArray elements, primitives in "
    "reference slots) with <= 10 operations: guided walks up to 12 segments with injected unknown names, empty "
    "segments, Python attribute names that are not features (type, xmiID, get, set, value, __class__, ...), set / []= "
    "followed by get of the same path and of other paths, value(), and non-string path arguments (None, int, bytes, "
    "list, tuple, an object whose str() is a valid path); (c) staged scenarios (about 30 % of (b), and every string of "
    "length <= 4 of (a)): the same operations are first run while some features of the final type system do not exist "
    "yet (on the type itself or on its supertype), so that paths naming them are looked up and sets through them "
    "refused, then the features are added with create_feature, fresh structures are built and the operations of "
    "(b) run; every stage is compared with the step-by-step reading on the type system of that moment; "
    "(d) features declared with the reserved UIMA names self / type (about 30 % of the types of (b); stored and "
    "reachable as self_ / type_): guided walks replace a feature name by its near miss (type_ -> type, next -> next_) "
    "with probability 0.3 / 0.03, and every path of <= 3 segments over {type_, type, self_, self, next} is read and "
    "assigned on a two-node cycle of such a type; (e) paths of 1 100 .. 2 600 segments (and 300 .. 1 010 beside them) "
    "round rings of 1..4 structures of random types, and a linked list of 1 040 .. 1 200 nodes (built-in list nodes or "
    "a user type) read and assigned near the front, in the middle, at the last node and beyond the end: get, set, []= "
    "and get again, some with a segment that names no feature. "
    "thorough: more of (b), (c), (e), length <= 6 in (a) and <= 4 segments in (d). A case is non-trivial when a string "
    "path has >= 3 segments."
)
TRUSTED = [
    "Coq 8.16.1 kernel and vm_compute; theorems in Props/C18.v are closed under the global context",
    "hand-written model coq/Paths.v of FeatureStructure.get/set/[]/value (typesystem.py:404-480): heap of labelled "
    "objects, schema = effective feature names per type, str.split('.') and str.rindex('.') modelled on Coq strings",
    "correspondence harness: harness/props/C18.py builds real objects through the public API; harness/core.py compares in Coq",
    "the effective feature names of the built-in types used (Annotation, NonEmptyFSList, FSArray, ...) are a table in the "
    "harness; inheritance of user types is computed from the scenario (C11 proves all_features is that set); the case "
    "carries the DECLARED names and the model renames self/type to self_/type_ (Paths.declared), the oracle renames "
    "them on its own (RESERVED table)",
    "primitive values are compared by a canonical text (kind:repr)",
    "staged scenarios: the model is stateless in the type system (get/set take the schema of the moment); each stage "
    "is rendered as its own case with the effective features of that moment and fresh structures",
]
ASSUMPTIONS = [
    "accessor names of features are not among the structural attribute names (type, xmiID, get, set, value, ...): "
    "DESIGN.md preconditions; a feature DECLARED as self / type is inside (cassis stores it as self_ / type_)",
    "set_then_get needs the walk along the prefix not to read the assigned slot (refuted without it: C18_set_then_get_aliasing_refuted)",
    "structures created before a feature was added to their type are not accessed after the addition (they are instances "
    "of the superseded class and lack the slot, so plain attribute access itself raises); every stage works on structures "
    "created after the last create_feature",
]

BUILTIN_FEATURES = {
    "uima.cas.TOP": [],
    "uima.tcas.Annotation": ["begin", "end", "sofa"],
    "uima.cas.AnnotationBase": ["sofa"],
    "uima.cas.NonEmptyFSList": ["head", "tail"],
    "uima.cas.EmptyFSList": [],
    "uima.cas.FSArray": ["elements"],
}
PY_ATTRS = ["type", "xmiID", "get", "set", "value", "__class__", "__slots__", "__dict__", "get_covered_text",
            "__init__", "typesystem", "name", "all_features", "__getitem__"]
UNKNOWN = ["zzz", "Next", "nex", "heads", "a b", "0", "begin_", "-", "*", "self"]
# UIMA feature names that cassis cannot use as Python attribute names: create_feature stores (and looks up) the
# feature under the accessor name with a trailing underscore.  Scenarios DECLARE features (schema lists, what is
# passed to create_feature); slots, paths and the oracle use the accessor names.
RESERVED = {"self": "self_", "type": "type_"}
FEATURE_POOL = ["next", "b", "s", "n", "a", "x", "other", "prev"]
RANGES = ["uima.cas.TOP", "uima.cas.String", "uima.cas.Integer", "uima.cas.Boolean", "uima.cas.FSArray",
          "uima.cas.NonEmptyFSList", "uima.cas.FSList", "SELF", "PEER"]


# ------------------------------------------------------------------------------------------------ scenario helpers


def accessor(f):
    return RESERVED.get(f, f)


def declared_features(schema):
    """type name -> ordered list of all feature names as declared, from the scenario (own features + parents')."""
    out = dict(BUILTIN_FEATURES)
    for t in schema:  # parents are listed before children
        out[t["name"]] = list(out[t["parent"]]) + [f for f, _r in t["features"]]
    return out


def effective_features(schema):
    """type name -> ordered list of the names under which the features are reachable (declared `self`/`type` are
    `self_`/`type_`): the names step-by-step attribute access uses, and the only names that name a feature."""
    return {t: [accessor(f) for f in fs] for t, fs in declared_features(schema).items()}


def stages(sc):
    """The stages of a scenario in order: the optional earlier ones (sc['pre'], each with the schema of that moment,
    a subset of the final one, its own structures and operations), then the scenario itself."""
    return list(sc.get("pre") or []) + [sc]


def _strip(objs, eff):
    """the same structures without the slots that are no feature (yet)"""
    return [{"t": o["t"], "slots": {f: v for f, v in o["slots"].items() if f in eff[o["t"]]}} for o in objs]


def _rand_pre(rng, sc):
    """Earlier stages for sc: every (type, feature) of the final schema gets the stage at which it is created; the
    operations of the earlier stages are guided by the FINAL schema and heap, so they name the features that do
    not exist yet (and are therefore unknown names at that moment)."""
    k = 1 if rng.random() < 0.8 else 2
    pairs = [(t["name"], f) for t in sc["schema"] for f, _r in t["features"]]
    when = {p: rng.choice([0] * 2 + list(range(1, k + 1)) * 3) for p in pairs}
    when[rng.choice(pairs)] = k  # at least one feature appears at the last stage
    pre = []
    for j in range(k):
        schema_j = [{"name": t["name"], "parent": t["parent"],
                     "features": [[f, r] for f, r in t["features"] if when[(t["name"], f)] <= j]} for t in sc["schema"]]
        objs_j = _strip(json.loads(json.dumps(sc["objs"])), effective_features(schema_j))
        ops_j = _rand_ops(rng, {"schema": sc["schema"], "objs": sc["objs"]}, rng.randint(2, 5))
        pre.append({"schema": schema_j, "objs": objs_j, "ops": ops_j})
    return pre


def _rand_schema(rng):
    schema = []
    names = ["t.A", "t.B", "t.N", "t.Sub"]
    parents = {"t.A": "uima.cas.TOP", "t.B": "uima.cas.TOP", "t.N": "uima.tcas.Annotation", "t.Sub": "t.A"}
    k = rng.randint(1, 4)
    for name in names[:k]:
        parent = parents[name]
        taken = set()
        cur = parent
        for t in schema:
            if t["name"] == parent:
                taken |= {f for f, _ in t["features"]}
        taken |= set(BUILTIN_FEATURES.get(parent, []))
        feats = []
        for f in rng.sample(FEATURE_POOL, rng.randint(1, 4)):
            if f in taken:
                continue
            r = rng.choice(RANGES)
            if r == "SELF":
                r = name
            elif r == "PEER":
                r = rng.choice(names[:k])
            feats.append([f, r])
        if not any(r.startswith("t.") or r == "uima.cas.TOP" for _f, r in feats):
            f = next(x for x in FEATURE_POOL + ["link"] if x not in taken and x not in [g for g, _ in feats])
            feats.append([f, name])
        if rng.random() < 0.3:  # features declared with a reserved UIMA name (reachable as type_ / self_)
            for f in rng.choice([["type"], ["self"], ["type", "self"], ["self", "type"]]):
                if f not in taken:
                    feats.insert(rng.randrange(len(feats) + 1),
                                 [f, rng.choice(["uima.cas.String", "uima.cas.String", name, "uima.cas.TOP"])])
        schema.append({"name": name, "parent": parent, "features": feats})
    return schema


def _rand_prim(rng):
    return rng.choice([["s", ""], ["s", "abc"], ["s", "a.b"], ["i", 0], ["i", 7], ["i", -3], ["b", True], ["b", False],
                       ["f", 1.5], ["l", [1, 2]], ["l", []], ["s", "None"]])


def _rand_val(rng, n_objs, p_none=0.2, p_prim=0.2):
    x = rng.random()
    if x < p_none or n_objs == 0:
        return None
    if x < p_none + p_prim:
        return ["p", _rand_prim(rng)]
    return ["r", rng.randrange(n_objs)]


def _rand_heap(rng, schema):
    eff = effective_features(schema)
    tnames = [t["name"] for t in schema] + ["uima.cas.NonEmptyFSList"] * 2 + ["uima.cas.EmptyFSList", "uima.cas.FSArray"]
    n = rng.randint(1, 7)
    objs = [{"t": rng.choice(tnames), "slots": {}} for _ in range(n)]
    if rng.random() < 0.5:
        objs[0]["t"] = schema[0]["name"]
    dense = rng.random()
    for i, o in enumerate(objs):
        for f in eff[o["t"]]:
            if f == "elements":
                if rng.random() < 0.7:
                    o["slots"][f] = ["p", ["l", [rng.randrange(10) for _ in range(rng.randint(0, 3))]]]
                continue
            if rng.random() < 0.4 + 0.6 * dense:
                v = _rand_val(rng, n, p_none=0.1, p_prim=0.15)
                if v is not None and v[0] == "r" and rng.random() < 0.25:
                    v = ["r", i]  # self loop
                if v is not None:
                    o["slots"][f] = v
    return objs


class OracleHeap:
    """Independent bookkeeping: what step-by-step attribute access restricted to declared features yields."""

    def __init__(self, sc):
        self.eff = effective_features(sc["schema"])
        self.objs = [{"t": o["t"], "slots": dict(o["slots"])} for o in sc["objs"]]

    def step(self, cur, name):
        if cur is None or cur[0] != "r":
            return None
        o = self.objs[cur[1]]
        if name not in self.eff[o["t"]]:
            return None
        return o["slots"].get(name)

    def get(self, root, path):
        cur = ["r", root]
        for part in path.split("."):
            cur = self.step(cur, part)
            if cur is None:
                return None
        return cur

    def set(self, root, path, v):
        """returns None when assigned, else the expected error kind; mutates only on success"""
        parts = path.split(".")
        cur = ["r", root]
        for part in parts[:-1]:
            cur = self.step(cur, part)
            if cur is None:
                return "EAttribute"
        if cur[0] != "r" or parts[-1] not in self.eff[self.objs[cur[1]]["t"]]:
            return "EAttribute"
        self.objs[cur[1]]["slots"][parts[-1]] = v
        return None

    def dump(self):
        return [[[f, canon_val(o["slots"].get(f))] for f in self.eff[o["t"]]] for o in self.objs]


def canon_prim(p):
    kind, x = p
    if kind == "f":
        return "f:" + float(x).hex()
    if kind == "l":
        return "l:" + json.dumps(x)
    return f"{kind}:{x}"


def canon_val(v):
    if v is None:
        return ["none"]
    if v[0] == "r":
        return ["ref", v[1]]
    return ["prim", canon_prim(v[1])]


def _guided_path(rng, oh, root, maxlen):
    """A walk through the oracle heap that mostly follows features holding references (cycles make it long)."""
    segs = []
    cur = ["r", root]
    n = rng.randint(1, maxlen)
    for _ in range(n):
        if cur is None or cur[0] != "r":
            if segs and rng.random() < 0.8:
                break
            segs.append(rng.choice(FEATURE_POOL + ["head", "tail"]))
            continue
        o = oh.objs[cur[1]]
        feats = oh.eff[o["t"]]
        refs = [f for f in feats if (o["slots"].get(f) or [None])[0] == "r"]
        if refs and rng.random() < 0.85:
            f = rng.choice(refs)
        elif feats:
            f = rng.choice(feats)
        else:
            f = rng.choice(FEATURE_POOL)
        if rng.random() < (0.3 if f.endswith("_") else 0.03):
            f = f[:-1] if f.endswith("_") else f + "_"  # a near miss of a feature name names no feature
        segs.append(f)
        cur = oh.step(cur, f)
    return segs


def _inject(rng, segs):
    x = rng.random()
    segs = list(segs)
    pos = rng.randrange(len(segs) + 1)
    if x < 0.55:
        return segs
    if x < 0.60:
        segs.insert(pos, rng.choice(UNKNOWN))
    elif x < 0.72:
        segs.insert(pos, "")
    elif x < 0.90:
        segs.insert(pos, rng.choice(PY_ATTRS))
    elif x < 0.95 and segs:
        segs[min(pos, len(segs) - 1)] = rng.choice(PY_ATTRS)
    else:
        segs = segs[:pos] + ["type", "name"] + segs[pos:]
    return segs[:12]


NON_STRINGS = [["none"], ["int", 3], ["int", 0], ["bytes", "next"], ["list", ["next"]], ["list", ["."]],
               ["list", ["a", ".", "b"]], ["list", []], ["tuple", ["next", "."]], ["tuple", []]]


def _rand_ops(rng, sc, n_ops):
    oh = OracleHeap(sc)
    n = len(sc["objs"])
    ops = []
    while len(ops) < n_ops:
        root = rng.randrange(n)
        x = rng.random()
        if x < 0.06:
            k = rng.choice(["get", "getitem", "set", "setitem"])
            op = {"k": k, "root": root, "path": rng.choice(NON_STRINGS)}
            if rng.random() < 0.4:
                op["path"] = ["strlike", ".".join(_guided_path(rng, oh, root, 3))]
            if k.startswith("set"):
                op["v"] = _rand_val(rng, n)
            ops.append(op)
        elif x < 0.12:
            feats = oh.eff[oh.objs[root]["t"]]
            name = rng.choice(feats) if feats and rng.random() < 0.7 else rng.choice(UNKNOWN[:4] + FEATURE_POOL)
            if name in PY_ATTRS:
                continue
            ops.append({"k": "value", "root": root, "path": ["s", name]})
        elif x < 0.55:
            segs = _inject(rng, _guided_path(rng, oh, root, 12))
            ops.append({"k": rng.choice(["get", "getitem"]), "root": root, "path": ["s", ".".join(segs)]})
        else:
            segs = _guided_path(rng, oh, root, rng.choice([1, 2, 3, 5, 12]))
            y = rng.random()
            if y < 0.15:
                segs[-1] = rng.choice(PY_ATTRS[:6])
            elif y < 0.25:
                segs[-1] = rng.choice(UNKNOWN + [""])
            elif y < 0.40:
                segs = _inject(rng, segs)
            path = ".".join(segs[:12])
            v = _rand_val(rng, n)
            ops.append({"k": rng.choice(["set", "setitem"]), "root": root, "path": ["s", path], "v": v})
            oh.set(root, path, v)
            ops.append({"k": rng.choice(["get", "getitem"]), "root": root, "path": ["s", path]})
            if rng.random() < 0.5:
                r2 = rng.randrange(n)
                ops.append({"k": "get", "root": r2, "path": ["s", ".".join(_guided_path(rng, oh, r2, 8))]})
    return ops[: n_ops + 2]


SMALL_SCHEMA = [{"name": "t.A", "parent": "uima.cas.TOP", "features": [["a", "t.A"], ["c", "t.B"]]},
                {"name": "t.B", "parent": "uima.cas.TOP", "features": [["a", "t.A"]]}]
SMALL_OBJS = [{"t": "t.A", "slots": {"a": ["r", 0], "c": ["r", 1]}}, {"t": "t.B", "slots": {"a": ["r", 0]}},
              {"t": "t.A", "slots": {}}]


SMALL_SCHEMA_EARLY = [{"name": "t.A", "parent": "uima.cas.TOP", "features": [["a", "t.A"]]},
                      {"name": "t.B", "parent": "uima.cas.TOP", "features": []}]


def _exhaustive(maxlen, staged=False):
    strings = []
    for n in range(maxlen + 1):
        for tup in itertools.product(["a", "c", "z", "."], repeat=n):
            s = "".join(tup)
            if "zz" in s or "cc" in s or "az" in s or "za" in s or "ca" in s or "ac" in s or "cz" in s or "zc" in s or "aa" in s:
                continue  # multi-letter names are just other unknown names
            strings.append(s)
    per = 6
    for i in range(0, len(strings), per):
        chunk = strings[i:i + per]
        ops = []
        for j, s in enumerate(chunk):
            ops.append({"k": ["get", "getitem"][j % 2], "root": j % 2, "path": ["s", s]})
        for j, s in enumerate(chunk):
            ops.append({"k": ["set", "setitem"][j % 2], "root": (i + j) % 2, "path": ["s", s], "v": [["p", ["i", j]], ["r", 2], None][(i + j) % 3]})
            ops.append({"k": "get", "root": (i + j) % 2, "path": ["s", s]})
        sc = {"schema": SMALL_SCHEMA, "objs": json.loads(json.dumps(SMALL_OBJS)), "ops": ops}
        if staged:  # the same operations while t.A has no c and t.B has no a yet
            sc["pre"] = [{"schema": SMALL_SCHEMA_EARLY, "objs": _strip(SMALL_OBJS, effective_features(SMALL_SCHEMA_EARLY)),
                          "ops": json.loads(json.dumps(ops))}]
        yield sc


RES_SCHEMA = [{"name": "t.R", "parent": "uima.cas.TOP",
               "features": [["type", "uima.cas.String"], ["self", "t.R"], ["next", "t.R"]]}]
RES_OBJS = [{"t": "t.R", "slots": {"type_": ["p", ["s", "cause"]], "self_": ["r", 0], "next": ["r", 1]}},
            {"t": "t.R", "slots": {"type_": ["p", ["s", "effect"]], "self_": ["r", 1], "next": ["r", 0]}},
            {"t": "t.R", "slots": {}}]


def _exhaustive_reserved(maxlen):
    """Every path of <= maxlen segments over the accessor names of a type that declares `type` and `self`, and the
    bare reserved names themselves, as get path and as set path on a two-node cycle."""
    paths = [".".join(tup) for n in range(1, maxlen + 1)
             for tup in itertools.product(["type_", "type", "self_", "self", "next"], repeat=n)]
    per = 6
    for i in range(0, len(paths), per):
        chunk = paths[i:i + per]
        ops = []
        for j, s in enumerate(chunk):
            ops.append({"k": ["get", "getitem"][j % 2], "root": j % 2, "path": ["s", s]})
        for j, s in enumerate(chunk):
            ops.append({"k": ["set", "setitem"][j % 2], "root": (i + j) % 2, "path": ["s", s],
                        "v": [["p", ["s", f"v{j}"]], ["r", 2], None][(i + j) % 3]})
            ops.append({"k": "get", "root": (i + j) % 2, "path": ["s", s]})
        yield {"schema": RES_SCHEMA, "objs": json.loads(json.dumps(RES_OBJS)), "ops": ops}


LONG_LENGTHS = [1100, 1250, 1500, 1900, 2600]   # segments; a few hundred more than the default call depth of CPython


def _ring_heap(rng, schema):
    """1..4 structures joined in a ring through one reference feature each (user types always have one, list nodes
    have tail), the other slots random: a walk of any length exists from every structure."""
    eff = effective_features(schema)
    decl = {t["name"]: [accessor(f) for f, r in t["features"] if r.startswith("t.") or r == "uima.cas.TOP"] for t in schema}
    for t in schema:  # inherited reference features count as well
        decl[t["name"]] = decl.get(t["parent"], []) + decl[t["name"]]
    ring_types = [t for t in decl if decl[t]] + ["uima.cas.NonEmptyFSList"]
    n = rng.randint(1, 4)
    objs, ring = [], []
    for i in range(n):
        t = rng.choice(ring_types)
        f = "tail" if t == "uima.cas.NonEmptyFSList" else rng.choice(decl[t])
        slots = {}
        for g in eff[t]:
            v = _rand_val(rng, n, p_none=0.3, p_prim=0.3)
            if v is not None and g != "sofa":
                slots[g] = v
        slots[f] = ["r", (i + 1) % n]
        objs.append({"t": t, "slots": slots})
        ring.append(f)
    return objs, ring


def _long_walk(rng, oh, root, n_segs):
    """n_segs - 1 steps along features that hold a reference (always possible on a ring heap), then any feature of the
    structure reached."""
    segs, cur, habit = [], ["r", root], {}
    for k in range(n_segs - 1):
        o = oh.objs[cur[1]]
        refs = [f for f in oh.eff[o["t"]] if (o["slots"].get(f) or [None])[0] == "r"]
        if not refs:
            break
        if k < 6 or rng.random() < 0.004:  # a free choice at the start and at a few places later on; otherwise the
            f = rng.choice(refs)           # same turn is taken at the same structure (keeps the case file small)
        else:
            f = habit.setdefault(cur[1], rng.choice(refs))
        segs.append(f)
        cur = oh.step(cur, f)
    segs.append(rng.choice(oh.eff[oh.objs[cur[1]]["t"]]))
    return segs


def _long_ops(rng, sc):
    """get / set / []= through paths of more than a thousand segments, each set followed by get of the same path; one
    long path with a segment in the middle, or the last one, that names no feature."""
    oh = OracleHeap(sc)
    n = len(sc["objs"])
    ops = []
    lengths = [rng.choice(LONG_LENGTHS), rng.choice(LONG_LENGTHS[:3]), rng.choice([300, 700, 990, 1010])]
    rng.shuffle(lengths)
    for i, n_segs in enumerate(lengths):
        root = rng.randrange(n)
        segs = _long_walk(rng, oh, root, n_segs)
        bad = i == 2 or rng.random() < 0.2
        if bad:
            pos = rng.choice([len(segs) - 1, rng.randrange(len(segs))])
            segs[pos] = rng.choice(UNKNOWN + ["", "type", "xmiID"])
        path = ".".join(segs)
        if i == 0:
            ops.append({"k": rng.choice(["get", "getitem"]), "root": root, "path": ["s", path]})
        v = _rand_val(rng, n)
        if (oh.get(root, path) or [None])[0] == "r":
            v = ["r", rng.randrange(n)]  # a reference is replaced by a reference: every structure keeps a way on
        ops.append({"k": ["set", "setitem"][i % 2], "root": root, "path": ["s", path], "v": v})
        oh.set(root, path, v)
        ops.append({"k": rng.choice(["get", "getitem"]), "root": root, "path": ["s", path]})
    r2 = rng.randrange(n)
    ops.append({"k": "get", "root": r2, "path": ["s", ".".join(_guided_path(rng, oh, r2, 8))]})
    return ops


def _chain_case(rng):
    """A genuine linked list of more than a thousand nodes (list nodes of the built-in type, or a user type with a
    `n`ext feature), read and assigned at the front, in the middle, at the last node and beyond the end."""
    n = rng.randint(1040, 1200)
    if rng.random() < 0.5:
        schema = [{"name": "t.A", "parent": "uima.cas.TOP", "features": [["n", "t.A"], ["x", "uima.cas.Integer"]]}]
        t, nxt, val = "t.A", "n", "x"
    else:
        schema = [{"name": "t.A", "parent": "uima.cas.TOP", "features": [["a", "uima.cas.TOP"]]}]
        t, nxt, val = "uima.cas.NonEmptyFSList", "tail", "head"
    objs = [{"t": t, "slots": {nxt: ["r", i + 1], val: ["p", ["i", i]]}} for i in range(n - 1)]
    if t == "t.A" or rng.random() < 0.5:
        objs.append({"t": t, "slots": {val: ["p", ["i", n - 1]]}})
    else:
        objs.append({"t": "uima.cas.EmptyFSList", "slots": {}})
    ops = []
    depths = [rng.randint(1, 5), rng.randint(300, 900), n - 2, n + rng.randint(0, 3)]
    rng.shuffle(depths)
    for i, d in enumerate(depths):
        path = ".".join([nxt] * d + [val])
        if i == 0:
            ops.append({"k": "getitem", "root": 0, "path": ["s", path]})
        ops.append({"k": ["set", "setitem"][i % 2], "root": 0, "path": ["s", path], "v": ["p", ["i", -d]]})
        ops.append({"k": ["get", "getitem"][i % 2], "root": 0, "path": ["s", path]})
    ops.append({"k": "get", "root": rng.randint(1, 30), "path": ["s", ".".join([nxt] * (n - 40) + [val])]})
    return {"schema": schema, "objs": objs, "ops": ops}


def _long_cases(rng, tier):
    n_ring, n_chain = {"quick": (5, 1), "thorough": (40, 4), "search": (30, 3)}[tier]
    for _ in range(n_ring):
        schema = _rand_schema(rng)
        objs, _ring = _ring_heap(rng, schema)
        sc = {"schema": schema, "objs": objs, "ops": []}
        sc["ops"] = _long_ops(rng, sc)
        yield sc
    for _ in range(n_chain):
        yield _chain_case(rng)


def generate(rng, tier):
    if tier != "search":
        yield from _exhaustive(5 if tier == "quick" else 6)
        yield from _exhaustive(4 if tier == "quick" else 5, staged=True)
        yield from _exhaustive_reserved(3 if tier == "quick" else 4)
    yield from _long_cases(rng, tier)
    n_rand = {"quick": 1800, "thorough": 12000, "search": 6000}[tier]
    for _ in range(n_rand):
        schema = _rand_schema(rng)
        sc = {"schema": schema, "objs": _rand_heap(rng, schema), "ops": []}
        sc["ops"] = _rand_ops(rng, sc, rng.randint(2, 8))
        if rng.random() < 0.3:
            sc["pre"] = _rand_pre(rng, sc)
        yield sc


# ------------------------------------------------------------------------------------------------ implementation


def _errkind(e):
    return {"AttributeError": "EAttribute", "TypeError": "EType", "KeyError": "EKey", "ValueError": "EValue",
            "IndexError": "EIndex"}.get(type(e).__name__, "ERuntime:" + type(e).__name__)


def _py_path(p):
    k = p[0]
    if k == "s":
        return p[1]
    if k == "none":
        return None
    if k == "int":
        return p[1]
    if k == "bytes":
        return p[1].encode()
    if k == "list":
        return list(p[1])
    if k == "tuple":
        return tuple(p[1])
    if k == "strlike":
        return _StrLike(p[1])
    raise ValueError(k)


class _StrLike:
    """Not a str; str(), repr() and format() spell a path."""

    def __init__(self, s):
        self._s = s

    def __str__(self):
        return self._s

    __repr__ = __str__

    def __format__(self, spec):
        return self._s


def run_impl(cassis, sc):
    """One type system for the whole scenario; before each stage the features of that stage's schema that do not
    exist yet are created (types in scenario order, so a supertype's before its subtypes'), then the stage's own
    structures are built and its operations run."""
    import warnings
    from cassis import TypeSystem
    ts = TypeSystem()
    for t in sc["schema"]:
        ts.create_type(t["name"], t["parent"])
    created = set()
    out = []
    for st in stages(sc):
        for t in st["schema"]:
            for f, r in t["features"]:
                if (t["name"], f) not in created:
                    with warnings.catch_warnings():
                        warnings.simplefilter("ignore")  # "reserved name ... renamed accessor"
                        ts.create_feature(ts.get_type(t["name"]), f, r)
                    created.add((t["name"], f))
        out.append(_run_stage(ts, st))
    obs = out[-1]
    if len(out) > 1:
        obs["pre"] = out[:-1]
    return obs


def _run_stage(ts, sc):
    from cassis.typesystem import FeatureStructure
    eff = effective_features(sc["schema"])
    objs = [ts.get_type(o["t"])() for o in sc["objs"]]
    types0 = [o.type for o in objs]
    label = {id(o): i for i, o in enumerate(objs)}

    def to_py(v):
        if v is None:
            return None
        if v[0] == "r":
            return objs[v[1]]
        kind, x = v[1]
        return list(x) if kind == "l" else x

    def canon(x):
        if x is None:
            return ["none"]
        if isinstance(x, FeatureStructure):
            return ["ref", label[id(x)]] if id(x) in label else ["prim", "o:foreignFS"]
        if isinstance(x, bool):
            return ["prim", f"b:{x}"]
        if isinstance(x, int):
            return ["prim", f"i:{x}"]
        if isinstance(x, float):
            return ["prim", "f:" + x.hex()]
        if isinstance(x, str):
            return ["prim", "s:" + x]
        if isinstance(x, list):
            try:
                return ["prim", "l:" + json.dumps(x)]
            except TypeError:
                return ["prim", "o:list"]
        return ["prim", "o:" + type(x).__name__]

    for o, spec in zip(objs, sc["objs"]):
        for f, v in spec["slots"].items():
            setattr(o, f, to_py(v))

    def dump():
        out = []
        for o, spec in zip(objs, sc["objs"]):
            out.append([[f, canon(getattr(o, f))] for f in eff[spec["t"]]])
        return out

    results, dumps = [], []
    for op in sc["ops"]:
        fs = objs[op["root"]]
        p = _py_path(op["path"])
        try:
            if op["k"] == "get":
                r = ["val", canon(fs.get(p))]
            elif op["k"] == "getitem":
                r = ["val", canon(fs[p])]
            elif op["k"] == "value":
                r = ["val", canon(fs.value(p))]
            elif op["k"] == "set":
                ret = fs.set(p, to_py(op["v"]))
                r = ["ok"] if ret is None else ["val", canon(ret)]
            else:
                fs[p] = to_py(op["v"])
                r = ["ok"]
        except Exception as e:  # noqa
            r = ["err", _errkind(e)]
        results.append(r)
        dumps.append(dump() if op["k"] in ("set", "setitem") else None)
    meta_ok = all(o.type is t for o, t in zip(objs, types0)) and all(o.xmiID is None for o in objs)
    return {"results": results, "dumps": dumps, "final": dump(), "meta_ok": meta_ok}


# ------------------------------------------------------------------------------------------------ oracle


def oracle(cassis, sc, obs):
    sts = stages(sc)
    all_obs = list(obs.get("pre") or []) + [obs]
    if len(all_obs) != len(sts):
        return "stages_missing: observations do not cover every stage"
    for j, (st, ob) in enumerate(zip(sts, all_obs)):
        msg = _oracle_stage(st, ob)
        if msg is not None:
            if len(sts) == 1:
                return msg
            kind, _, rest = msg.partition(":")
            late = sorted({f"{t['name']}.{f}" for t, t0 in zip(st["schema"], sts[j - 1]["schema"]) for f, _r in t["features"]
                           if f not in [g for g, _ in t0["features"]]}) if j else []
            return f"{kind}: stage {j} of {len(sts)}" + (f" (after create_feature of {', '.join(late)})" if late else "") + ":" + rest
    return None


def _oracle_stage(sc, obs):
    oh = OracleHeap(sc)
    for i, (op, got) in enumerate(zip(sc["ops"], obs["results"])):
        p = op["path"]
        k = op["k"]
        shown = p[1] if p[0] == "s" else repr(p)
        if len(shown) > 120:
            shown = f"{shown[:60]}...{shown[-30:]} [{p[1].count('.') + 1} segments]"
        where = f"op {i} {k}({shown}) on object {op['root']}"
        if p[0] != "s":
            want = ["err", "EAttribute"]
            if got[0] != "err":
                return f"non_string_accepted: {where}: expected an exception, got {got}"
            if k in ("get", "getitem") and got != want:
                return f"non_string_error_kind: {where}: expected AttributeError, got {got}"
        elif k in ("get", "getitem"):
            want = ["val", canon_val(oh.get(op["root"], p[1]))]
            if got != want:
                return f"get_differs: {where}: step-by-step feature access gives {want}, got {got}"
        elif k == "value":
            o = oh.objs[op["root"]]
            want = ["val", canon_val(o["slots"].get(p[1]))] if p[1] in oh.eff[o["t"]] else ["err", "EAttribute"]
            if got != want:
                return f"value_differs: {where}: expected {want}, got {got}"
        else:
            before = oh.dump()
            err = oh.set(op["root"], p[1], op["v"])
            want = ["ok"] if err is None else ["err", err]
            if got != want:
                kind = "set_nonfeature_accepted" if (err and got[0] != "err") else "set_result_differs"
                return f"{kind}: {where}: expected {want}, got {got}"
            if err is not None and obs["dumps"][i] != before:
                return f"set_failure_modified: {where}: raised but the structures changed"
        if obs["dumps"][i] is not None and obs["dumps"][i] != oh.dump():
            return f"set_wrong_slot: {where}: slots afterwards differ from assigning exactly the last feature on the structure the prefix reaches"
    if obs["final"] != oh.dump():
        return "final_state_differs: slots at the end differ from the bookkeeping"
    if not obs["meta_ok"]:
        return "meta_modified: type or xmiID of a structure changed through a feature path"
    return None


# ------------------------------------------------------------------------------------------------ rendering


def _gval(c):
    if c[0] == "none":
        return "VNone"
    if c[0] == "ref":
        return f"(VRef {gn(c[1])})"
    return f"(VPrim {gstr(c[1])})"


def _rle(segs):
    """[(count, block)...] with block * count concatenated in order == segs; blocks of <= 8 segments"""
    blocks, lit, i = [], [], 0
    while i < len(segs):
        best = None
        for p in range(1, 9):
            blk = segs[i:i + p]
            if len(blk) < p:
                break
            c = 1
            while segs[i + c * p:i + (c + 1) * p] == blk:
                c += 1
            if c >= 3 and (best is None or c * p > best[0] * len(best[1])):
                best = (c, blk)
        if best is None:
            lit.append(segs[i])
            i += 1
            continue
        if lit:
            blocks.append((1, lit))
            lit = []
        blocks.append(best)
        i += best[0] * len(best[1])
    if lit:
        blocks.append((1, lit))
    assert [s for c, blk in blocks for _ in range(c) for s in blk] == segs
    return blocks


def _gparg(p):
    k = p[0]
    if k == "s" and p[1].count(".") >= 64:
        blocks = _rle(p[1].split("."))
        return "(PStr (rle " + glist([f"({gn(c)}, {glist([gstr(x) for x in blk])})" for c, blk in blocks]) + "))"
    if k == "s":
        return f"(PStr {gstr(p[1])})"
    if k == "none":
        return "PNone"
    if k == "int":
        return "PInt"
    if k == "bytes":
        return "PBytes"
    if k == "strlike":
        return f"(POther {gstr(p[1])})"
    return f"(PList {glist([gstr(x) for x in p[1]])})"


def _gobs(r):
    if r[0] == "val":
        return f"(ObVal {_gval(r[1])})"
    if r[0] == "ok":
        return "ObOk"
    kind = r[1] if r[1] in ("EAttribute", "EType", "EKey", "EValue", "EIndex") else "ERuntime"
    return f"(ObErr {kind})"


def render(sc, obs):
    sts = stages(sc)
    all_obs = list(obs.get("pre") or []) + [obs]
    used = sorted({o["t"] for st in sts for o in st["objs"]})
    if max(len(st["objs"]) for st in sts) <= 40:
        return glist([_render_stage(st, ob, used, gstr) for st, ob in zip(sts, all_obs)])
    # a large heap: type and feature names are bound once (let s0 := "..." in ...) instead of being spelled per object
    table = {}

    def name(s):
        return table.setdefault(s, f"s{len(table)}_")

    body = glist([_render_stage(st, ob, used, name) for st, ob in zip(sts, all_obs)])
    return "(" + "".join(f"let {v} := {gstr(s)} in " for s, v in table.items()) + body + ")"


def _render_stage(sc, obs, used, gname):
    decl = declared_features(sc["schema"])  # the renaming self -> self_, type -> type_ is done by the model
    sch = "(declared " + glist([f"({gstr(t)}, {glist([gstr(f) for f in decl[t]])})" for t in used]) + ")"
    heap = glist([
        f"({gn(i)}, mkObj {gname(o['t'])} {glist([f'({gname(f)}, {_gval(canon_val(v))})' for f, v in o['slots'].items()])})"
        for i, o in enumerate(sc["objs"])])
    ops = []
    for op, r in zip(sc["ops"], obs["results"]):
        k = op["k"]
        if k in ("get", "getitem"):
            t = f"OGet {gbool(k == 'getitem')} {gn(op['root'])} {_gparg(op['path'])}"
        elif k == "value":
            t = f"OValue {gn(op['root'])} {gstr(op['path'][1])}"
        else:
            t = f"OSet {gbool(k == 'setitem')} {gn(op['root'])} {_gparg(op['path'])} {_gval(canon_val(op['v']))}"
        ops.append(f"({t}, {_gobs(r)})")
    final = glist([f"({gn(i)}, {glist([f'({gname(f)}, {_gval(c)})' for f, c in slots])})" for i, slots in enumerate(obs["final"])])
    return f"mkCase {sch} {heap} {glist(ops)} {final}"


# ------------------------------------------------------------------------------------------------ evidence, shrinking


def nontrivial(sc):
    for st in stages(sc):
        for op in st["ops"]:
            if op["path"][0] == "s" and op["path"][1].count(".") >= 2:
                return True
    return False


def shrink_candidates(sc):
    if sc.get("pre"):
        c = json.loads(json.dumps(sc))
        del c["pre"]
        yield c
        for j in range(len(sc["pre"])):
            if len(sc["pre"]) > 1:
                c = json.loads(json.dumps(sc))
                del c["pre"][j]
                yield c
            for i in range(len(sc["pre"][j]["ops"])):
                c = json.loads(json.dumps(sc))
                del c["pre"][j]["ops"][i]
                yield c
    ops = sc["ops"]
    for i in range(len(ops)):
        c = json.loads(json.dumps(sc))
        del c["ops"][i]
        yield c
    for i, op in enumerate(ops):  # long paths: drop blocks of segments, largest first
        if op["path"][0] == "s" and op["path"][1].count(".") >= 24:
            parts = op["path"][1].split(".")
            size = len(parts) // 2
            while size >= 8:
                for j in range(0, len(parts) - size, size):
                    c = json.loads(json.dumps(sc))
                    c["ops"][i]["path"][1] = ".".join(parts[:j] + parts[j + size:])
                    yield c
                size //= 2
    for i, op in enumerate(ops):
        if op["path"][0] == "s" and "." in op["path"][1] and op["path"][1].count(".") < 40:
            parts = op["path"][1].split(".")
            for j in range(len(parts)):
                c = json.loads(json.dumps(sc))
                c["ops"][i]["path"][1] = ".".join(parts[:j] + parts[j + 1:])
                yield c
    for i, o in enumerate(sc["objs"][:40]):
        for f in list(o["slots"]):
            c = json.loads(json.dumps(sc))
            del c["objs"][i]["slots"][f]
            yield c


def mutate(sc, rng):
    for _ in range(20):
        c = json.loads(json.dumps(sc))
        c["ops"] = _rand_ops(rng, c, 6)
        yield c


def signature(sc, msg):
    return {"what": msg.split(":")[0] if msg else ""}


def distribution(scenarios, observations):
    paths = [op["path"][1] for s in scenarios for op in s["ops"] if op["path"][0] == "s"]
    sets = [(op, r) for s, o in zip(scenarios, observations) if o for op, r in zip(s["ops"], o["results"])
            if op["k"] in ("set", "setitem")]
    gets = [r for s, o in zip(scenarios, observations) if o for op, r in zip(s["ops"], o["results"])
            if op["k"] in ("get", "getitem") and op["path"][0] == "s"]
    staged = [s for s in scenarios if s.get("pre")]
    early_ops = late_named = 0
    for s in staged:
        final = effective_features(s["schema"])
        names_final = {f for fs in final.values() for f in fs}
        for st in s["pre"]:
            now = {f for fs in effective_features(st["schema"]).values() for f in fs}
            for op in st["ops"]:
                early_ops += 1
                if op["path"][0] in ("s", "strlike") and set(op["path"][1].split(".")) & (names_final - now):
                    late_named += 1
    def _declares_reserved(s):
        return any(f in RESERVED for t in s["schema"] for f, _r in t["features"])

    res_cases = [s for s in scenarios if _declares_reserved(s)]
    return {"cases": len(scenarios), "operations": sum(len(st["ops"]) for s in scenarios for st in stages(s)),
            "paths_of_1000_or_more_segments": sum(1 for p in paths if p.count(".") >= 999),
            "sets_ok_through_1000_or_more_segments": sum(1 for op, r in sets if r == ["ok"] and op["path"][0] == "s"
                                                          and op["path"][1].count(".") >= 999),
            "largest_heap": max([len(s["objs"]) for s in scenarios] or [0]),
            "cases_declaring_self_or_type": len(res_cases),
            "paths_naming_type__or_self_": sum(1 for p in paths if set(p.split(".")) & set(RESERVED.values())),
            "paths_with_bare_self_or_type_on_such_cases": sum(
                1 for s in res_cases for op in s["ops"]
                if op["path"][0] == "s" and set(op["path"][1].split(".")) & set(RESERVED)),
            "staged_cases": len(staged), "operations_in_earlier_stages": early_ops,
            "earlier_operations_naming_a_later_feature": late_named,
            "string_paths": len(paths), "max_segments": max([p.count(".") + 1 for p in paths] or [0]),
            "paths_with_empty_segment": sum(1 for p in paths if "" in p.split(".")),
            "paths_with_python_attr": sum(1 for p in paths if set(p.split(".")) & set(PY_ATTRS)),
            "non_string_paths": sum(1 for s in scenarios for op in s["ops"] if op["path"][0] != "s"),
            "gets_not_none": sum(1 for r in gets if r[0] == "val" and r[1] != ["none"]), "gets": len(gets),
            "sets_ok": sum(1 for _op, r in sets if r == ["ok"]), "sets_raising": sum(1 for _op, r in sets if r[0] == "err"),
            "sets_ok_dotted": sum(1 for op, r in sets if r == ["ok"] and "." in op["path"][1])}


MANIFEST = {
    "level_text": "Machine-checked proof (Coq 8.16) over an executable model of FeatureStructure.get/set/[]/value on arbitrary "
                  "heaps (cycles included) and arbitrary strings: get is the fold of single-step feature access over "
                  "path.split('.'), None propagates, set assigns exactly one slot (the last feature on the structure reached "
                  "by the prefix) or raises AttributeError leaving everything unchanged, get-after-set returns the value when "
                  "the prefix does not pass through the assigned slot (refuted otherwise), non-string paths are rejected, and "
                  "the '.'-splitter and rindex are proved against join; get/set are characterised by the segment list for every "
                  "length (and set by peeling the first segment), and for every list of declared features the names self / "
                  "type are features of no type (declared self/type live under self_/type_); the model is tied to /repo on every run by evaluating "
                  "it inside Coq on the cases the implementation was run on.",
    "level_note": "Trusted: Coq kernel + vm_compute; hand-written model coq/Paths.v; harness building real objects and rendering "
                  "cases; effective feature names of built-in types tabulated in the harness; primitives compared by canonical "
                  "text. Print Assumptions: closed under the global context.",
    "technique": "Coq proof over an executable Gallina model + in-Coq behavioural correspondence (exhaustive short paths, random "
                 "graphs and guided long paths) + direct step-by-step oracle",
    "design_ref": "DESIGN.md section 5, C18",
}
