"""C19 — typecheck reports exactly the FSArray element-type violations."""
import copy
import json
import random

from harness import scen
from harness.gallina import glist, gz
from harness.props import C15 as reach

ID = "C19"
COQ_TARGETS = ["Reach.vo", "ReachProofs.vo", "Typecheck.vo", "TypecheckProofs.vo", "CorrC19.vo", "Props/C19.vo"]
PROPS_FILE = "Props/C19.v"
CORR_IMPORTS = "Base Heap Schema Reach Typecheck CorrC19"
ENTRY = "cassis.cas.Cas.typecheck / cassis.typesystem.TypeSystem.typecheck"
CASE_TIMEOUT_S = 10
CASE_TYPE, CHECK_FN, PREMISES_FN = "staged", "check_staged", "premises_staged"     # a case is a sequence of calls
RULE = (
    "Type system with a four-level type tree and owner types whose FSArray features have no element type, element type "
    "TOP, a supertype, the exact type, a subtype and an unrelated type of what is stored (inline and shared arrays, also "
    "inherited and on an annotation type); CASes populate them with conforming, non-conforming, null and missing values "
    "(feature unset, elements=None, empty array), several violations per array, the same array under two features, instances "
    "of uima.cas.TOP, owners in other views than the one typecheck is called through, owners "
    "indexed or reachable only through references, arrays, lists and TOP features, unreachable owners, ids absent / "
    "partial / explicit; systematic small scopes (every stored type x every feature) plus random graphs, plus random "
    "scen.gen_tspec/gen_cspec CASes. Sequences of calls on ONE TypeSystem object that gains FSArray features between the "
    "calls (on the type of an instance checked before, on its supertype, on a subtype; a feature pulled up to the supertype "
    "with the definition its subtype already has, or declared again on a subtype), a fresh CAS per call, every call observed; "
    "CASes whose feature structures (all, the owners, the elements, a random part) were created with the Type objects of a "
    "second TypeSystem declaring the same types (built again or re-read from to_xml). Every call is made twice. "
    "How the CAS and the type system came about: structures added with keep_id under exactly the id the CAS would hand out "
    "next (or a little above; 1-3 views, several such adds in a row), id-less owners / arrays / elements behind them, explicit "
    "ids of referenced-only structures in the gaps below the generator; every create_feature call with domain, range and "
    "element type given by name or as the Type object, or made through the deprecated alias add_feature (all 16 ways "
    "systematically, random mixes, also in the sequences of calls); a type system whose types have no namespace (Item, "
    "Owner, Ann) next to types with the same short name (legacy.Item, pkg.Owner, x.Ann), owners, elements and declared "
    "element types among them (the harness keeps the Type objects create_type returned and never looks a user type up). "
    "Observation: sorted xmiIDs of the returned errors (or the error kind) of every call. A case is "
    "non-trivial when it has a violation, a null element, an unset FSArray feature or a referenced-only owner."
)
TRUSTED = [
    "Coq 8.16.1 kernel and vm_compute; theorems in Props/C19.v are closed under the global context",
    "hand-written models coq/Typecheck.v (TypeSystem.typecheck, Cas.typecheck) and coq/Reach.v (Cas._find_all_fs)",
    "the schema (ancestors, effective features with element types) is data here; that a TypeSystem answers like it is C10/C11",
    "harness/scen.py builders and harness/props/C19.py: build real objects, read TypeCheckError.xmiID, render cases",
]
ASSUMPTIONS = [
    "well-formed heaps: FSArray-valued features hold None or an array whose elements is None/empty or a list of None / "
    "feature structures of types known to the type system; explicit ids pairwise distinct and below the id generator",
    "seed order is the observed View.get_all_annotations order and is an input of the model",
    "sequences of calls: a CAS holds only feature structures created after the last feature was declared on their type or "
    "its supertypes (each call has a fresh CAS); a feature declared a second time (pull-up, repetition on a subtype) has "
    "the identical definition",
    "a second TypeSystem whose Type objects create feature structures declares exactly the same types and features",
    "a ValueError('Duplicate FS id') is accepted only when two reachable structures carry the same explicit id or an id-less "
    "reachable structure coexists with an explicit id at or above the id generator, the generator's position being derived "
    "from the scenario (one id per view, then the add(keep_id=True) calls in order), not read from the CAS",
]

T = scen.T
TOP, FS_ARRAY, FS_LIST, ANNOTATION = scen.TOP, scen.FS_ARRAY, scen.FS_LIST, scen.ANNOTATION
_f = reach._f

ARRAY_FEATS = [("any", None, None), ("tops", TOP, None), ("bases", "c.Base", None), ("mids", "c.Mid", None),
               ("leaves", "c.Leaf", None), ("others", "c.Other", None), ("shared", "c.Mid", True), ("owners", "c.Owner", False)]
C_TSPEC = [
    {"name": "c.Base", "super": TOP, "feats": [_f("n", T + "Integer")]},
    {"name": "c.Mid", "super": "c.Base", "feats": []},
    {"name": "c.Leaf", "super": "c.Mid", "feats": []},
    {"name": "c.Other", "super": TOP, "feats": []},
    {"name": "c.Owner", "super": TOP, "feats": [_f(n, FS_ARRAY, e, m) for n, e, m in ARRAY_FEATS]
     + [_f("ref", "c.Owner"), _f("top", TOP), _f("lst", FS_LIST), _f("slst", FS_LIST, None, True), _f("ints", T + "IntegerArray")]},
    {"name": "c.SubOwner", "super": "c.Owner", "feats": [_f("extra", FS_ARRAY, "c.Leaf")]},
    {"name": "c.AnnOwner", "super": ANNOTATION, "feats": [_f("items", FS_ARRAY, "c.Mid"), _f("owner", "c.Owner")]},
]
C_OBJ_TYPES = ["c.Base", "c.Mid", "c.Leaf", "c.Other", "c.Owner", "c.SubOwner", "c.AnnOwner", FS_ARRAY, T + "NonEmptyFSList",
               T + "EmptyFSList", T + "IntegerArray"]
STORED = ["c.Base", "c.Mid", "c.Leaf", "c.Other", "c.Owner", "c.SubOwner"]
OWNER_FEATS = {"c.Owner": [n for n, _e, _m in ARRAY_FEATS], "c.SubOwner": [n for n, _e, _m in ARRAY_FEATS] + ["extra"],
               "c.AnnOwner": ["items"]}


class B(reach.B):
    def owner(self, type_="c.Owner", id=None, **refs):
        if type_ == "c.AnnOwner":
            lab = self.ann_owner(**refs)
            self.objs[lab - 1]["id"] = id
            return lab
        return self.new(type_, id, **{k: reach.ref(v) for k, v in refs.items()})

    def ann_owner(self, view=0, b=0, e=1, **refs):
        return self.new("c.AnnOwner", None, sofa={"sofa": self.views[view]["name"]}, begin={"i": b}, end={"i": e},
                        **{k: reach.ref(v) for k, v in refs.items()})

    def arr_none(self):
        """an FSArray object whose `elements` is None"""
        return self.new(FS_ARRAY, None, elements=None)


def sc_of(b, shape, tspec=None):
    return {"kind": "tc", "shape": shape, "tspec": tspec if tspec is not None else C_TSPEC, "cspec": b.cspec(), "inl": False,
            "seeds": None}


def systematic():
    # every stored type in every array feature of every owner type, one element, owner indexed
    for ot in ("c.Owner", "c.SubOwner", "c.AnnOwner"):
        for fn in OWNER_FEATS[ot]:
            for st in STORED + [FS_ARRAY, "c.AnnOwner", TOP]:
                b = B()
                if st == FS_ARRAY:
                    e = b.arr([])
                elif st == "c.AnnOwner":
                    e = b.ann_owner()
                else:
                    e = b.new(st)
                o = b.owner(ot, **{fn: b.arr([e])})
                b.add(o)
                yield sc_of(b, "one_element")
    # totality: unset, elements None, empty, only nulls; indexed and referenced-only
    for referenced_only in (False, True):
        for ot in ("c.Owner", "c.SubOwner", "c.AnnOwner"):
            b = B()
            fns = OWNER_FEATS[ot]
            vals = {}
            for k, fn in enumerate(fns):
                kind = k % 4
                if kind == 1:
                    vals[fn] = b.arr_none()
                elif kind == 2:
                    vals[fn] = b.arr([])
                elif kind == 3:
                    vals[fn] = b.arr([None, None])
            o = b.owner(ot, **vals)
            if referenced_only and ot != "c.AnnOwner":
                b.add(b.owner("c.Owner", ref=o))
            elif referenced_only:
                b.add(b.owner("c.Owner", top=o))
            else:
                b.add(o)
            yield sc_of(b, "no_elements")
    # several violations in one array, mixed with nulls and conforming elements; the same array under two features
    for k in range(1, 5):
        b = B()
        bad = [b.new("c.Other") for _ in range(k)]
        good = [b.new("c.Leaf"), b.new("c.Mid")]
        arr = b.arr([bad[0], None, good[0]] + bad + [good[1], bad[-1]])
        o = b.owner("c.Owner", mids=arr, shared=arr, any=arr, others=arr)
        b.add(o)
        yield sc_of(b, "many_violations")
    # owners reachable only: through a reference chain, an inline array, a shared array, inline and shared lists, a TOP feature;
    # and an owner that is not reachable at all
    for via in ("ref", "owners", "shared_arr_of_top", "lst", "slst", "top", "unreachable", "ann"):
        b = B()
        bad = b.new("c.Other")
        target = b.owner("c.SubOwner", leaves=b.arr([bad, b.new("c.Leaf"), bad]), extra=b.arr([b.new("c.Mid")]))
        if via == "ref":
            mid = b.owner("c.Owner", ref=target)
            b.add(b.owner("c.Owner", ref=mid))
        elif via == "owners":
            b.add(b.owner("c.Owner", owners=b.arr([None, target])))
        elif via == "shared_arr_of_top":
            b.add(b.owner("c.Owner", tops=b.arr([target, target])))
        elif via in ("lst", "slst"):
            first, _ = b.lst([None, target])
            b.add(b.owner("c.Owner", **{via: first}))
        elif via == "top":
            b.add(b.owner("c.Owner", top=target))
        elif via == "ann":
            b.add(b.ann_owner(owner=target, items=b.arr([b.new("c.Base")])))
        else:
            b.add(b.owner("c.Owner"))
        yield sc_of(b, "reachable_only:" + via)
    # more than one view: the offender is indexed only in (or only reachable from) a view other than the one typecheck is
    # called through; and the same owner indexed in both views is checked once
    for k in range(3):
        b = B(nviews=3)
        bad = b.new("c.Other")
        o = b.owner("c.SubOwner", mids=b.arr([bad, bad]))
        if k == 0:
            b.add(o, 1)
        elif k == 1:
            b.add(b.owner("c.Owner", ref=o), 2)
            b.add(b.owner("c.Owner"), 0)
        else:
            b.add(o, 0)
            b.add(o, 2)
        yield sc_of(b, "other_view")
    # an instance of uima.cas.TOP itself as element, as owner-less indexed structure and behind a TOP feature
    b = B()
    t = b.new(TOP)
    b.add(t)
    b.add(b.owner("c.Owner", top=b.new(TOP), tops=b.arr([t]), any=b.arr([t, None]), mids=b.arr([t, t])))
    yield sc_of(b, "top_instance")
    # an owner behind cas:NULL is not checked; an owner with id 0 is not checked
    b = B()
    bad = b.new("c.Other")
    target = b.owner("c.Owner", mids=b.arr([bad]))
    null = b.owner("c.Owner", id=0, ref=target, mids=b.arr([bad]))
    b.add(b.owner("c.Owner", ref=null))
    yield sc_of(b, "behind_null")


def random_tc(rng, n, ids=True):
    b = B(nviews=rng.choice([1, 1, 2]))
    plain = [b.new(rng.choice(STORED[:4] + [TOP])) for _ in range(rng.randint(1, 4))]
    owners = []
    for _ in range(n):
        ot = rng.choice(["c.Owner", "c.Owner", "c.SubOwner", "c.AnnOwner"])
        if ot == "c.AnnOwner":
            v = rng.randrange(len(b.views))
            bg = rng.randint(0, 5)
            owners.append(b.ann_owner(view=v, b=bg, e=rng.randint(bg, 8)))
        else:
            owners.append(b.owner(ot))
    arrays = []

    def elems():
        pool = plain + owners + (arrays[:2] if arrays else [])
        return [None if rng.random() < 0.2 else rng.choice(pool) for _ in range(rng.choice([0, 1, 2, 3, 5]))]

    for o in owners:
        obj = b.objs[o - 1]
        for fn in OWNER_FEATS[obj["type"]]:
            r = rng.random()
            if r < 0.35:
                continue
            if r < 0.42:
                a = b.arr_none()
            elif r < 0.55 and arrays:
                a = rng.choice(arrays)
            else:
                a = b.arr(elems())
                arrays.append(a)
            obj["slots"][fn] = reach.ref(a)
        if obj["type"] != "c.AnnOwner":
            non_ann = [x for x in owners if b.objs[x - 1]["type"] != "c.AnnOwner"]
            if rng.random() < 0.5 and non_ann:
                obj["slots"]["ref"] = reach.ref(rng.choice(non_ann))
            if rng.random() < 0.3:
                obj["slots"]["top"] = reach.ref(rng.choice(owners + arrays if arrays else owners))
            if rng.random() < 0.3:
                first, _ = b.lst([None if rng.random() < 0.2 else rng.choice(owners) for _ in range(rng.randint(0, 3))],
                                 cyclic=False)
                obj["slots"][rng.choice(["lst", "slst"])] = reach.ref(first)
        else:
            non_ann = [x for x in owners if b.objs[x - 1]["type"] != "c.AnnOwner"]
            if rng.random() < 0.5 and non_ann:
                obj["slots"]["owner"] = reach.ref(rng.choice(non_ann))
    for o in owners + plain:
        if rng.random() < 0.35:
            obj = b.objs[o - 1]
            if obj["type"] == "c.AnnOwner":
                v = [i for i, vw in enumerate(b.views) if vw["name"] == obj["slots"]["sofa"]["sofa"]][0]
                b.add(o, v)
            else:
                b.add(o, rng.randrange(len(b.views)))
    if not b.members:
        o = owners[0]
        obj = b.objs[o - 1]
        v = 0 if obj["type"] != "c.AnnOwner" else [i for i, vw in enumerate(b.views) if vw["name"] == obj["slots"]["sofa"]["sofa"]][0]
        b.add(o, v)
    sc = sc_of(b, "random")
    if not ids:
        return sc
    reach.set_ids(sc, rng.choice(["none", "none", "all", "partial"]), rng)
    if rng.random() < 0.05:
        rng.choice(sc["cspec"]["objs"])["id"] = 0
    return sc


# ---------------------------------------------------------------- sequences of calls on one TypeSystem; foreign Type objects
#
# scenario with "stages": sc["tspec"] is the type system before the first call; stage k = {"add": [{"type", "feat"}] features
# declared (create_feature, in this order, on the SAME TypeSystem object) before call k, "cspec": the CAS of call k (built
# afresh on that TypeSystem), "foreign": labels of the objects created with the Type objects of a second TypeSystem that
# declares the same types ("how": "rebuild" = built by the same declarations | "reload" = load_typesystem(to_xml()))}.
# A scenario without "stages" is one call; it may carry "foreign"/"how" itself.

S_BASE = [
    {"name": "s.Item", "super": TOP, "feats": []},
    {"name": "s.SubItem", "super": "s.Item", "feats": []},
    {"name": "s.Other", "super": TOP, "feats": []},
    {"name": "s.Holder", "super": TOP, "feats": [_f("label", T + "String")]},
    {"name": "s.Special", "super": "s.Holder", "feats": []},
    {"name": "s.Deep", "super": "s.Special", "feats": []},
    {"name": "s.Ann", "super": ANNOTATION, "feats": []},
]
S_ITEMS = _f("items", FS_ARRAY, "s.Item")
# what a sequence may declare, in the base or before any later call; H/S/D.items are one definition on three levels of one
# branch: whichever comes first, the later ones are accepted (identical redefinition) and the feature stays one feature
S_POOL = {
    "H.items": ("s.Holder", S_ITEMS), "S.items": ("s.Special", S_ITEMS), "D.items": ("s.Deep", S_ITEMS),
    "H.any": ("s.Holder", _f("any", FS_ARRAY)), "S.extra": ("s.Special", _f("extra", FS_ARRAY, "s.SubItem")),
    "H.shared": ("s.Holder", _f("shared", FS_ARRAY, "s.Other", True)), "A.marks": ("s.Ann", _f("marks", FS_ARRAY, "s.Other")),
    "D.tops": ("s.Deep", _f("tops", FS_ARRAY, TOP)), "S.ref": ("s.Special", _f("ref", "s.Holder")),
}
SB_OBJ_TYPES = [FS_ARRAY, T + "String"]      # built-in part of every schema of this family: constant schemaSB of CorrC19.v
S_OWNERS = ["s.Holder", "s.Special", "s.Deep", "s.Ann"]
S_ELEMS = ["s.Item", "s.SubItem", "s.Other"]


def _adds(keys):
    return [{"type": S_POOL[k][0], "feat": dict(S_POOL[k][1])} for k in keys]


def tspec_after(tspec, adds):
    """The declarations in force after `adds`: every added feature appended to its type (feature order is immaterial here)."""
    out = copy.deepcopy(tspec)
    for a in adds:
        [t for t in out if t["name"] == a["type"]][0]["feats"].append(dict(a["feat"]))
    return out


def stages_of(sc):
    """One self-contained single-call scenario per call ("decl": the declarations in the order they were made)."""
    if "stages" not in sc:
        return [sc]
    out, tspec, adds = [], sc["tspec"], []
    for st in sc["stages"]:
        tspec = tspec_after(tspec, st["add"])
        adds = adds + st["add"]
        out.append({"kind": "tc", "shape": sc["shape"], "tspec": tspec, "cspec": st["cspec"], "inl": False, "seeds": None,
                    "foreign": st.get("foreign"), "how": st.get("how"), "decl": {"base": sc["tspec"], "adds": adds},
                    "style": sc.get("style")})
    return out


def declared_order(base, adds):
    """type -> (own, inherited): names of the user-declared features in the order Type.all_features lists them when the
    features of `base` are declared type by type (scen.build_ts) and then `adds` one by one: a declaration is appended to the
    type's own features and to the inherited ones of its descendants; it changes nothing where the name is already there (an
    identical definition declared again, on the type or above a subtype that has it)."""
    sup = {t["name"]: t["super"] for t in base}
    kids = {n: [m for m in sup if sup[m] == n] for n in sup}
    own, inh = {n: [] for n in sup}, {n: [] for n in sup}

    def inherit(t, name):
        if name not in inh[t]:
            inh[t].append(name)
            for k in kids[t]:
                inherit(k, name)

    def declare(t, name):
        if name not in own[t] and name not in inh[t]:
            own[t].append(name)
            for k in kids[t]:
                inherit(k, name)

    for t in base:
        for f in t["feats"]:
            declare(t["name"], f["name"])
    for a in adds:
        declare(a["type"], a["feat"]["name"])
    return {n: (own[n], [x for x in inh[n] if x not in own[n]]) for n in sup}


def in_declared_order(schema, decl):
    """scen.schema_of lists the effective features as if every feature had been declared after every type, type by type; the
    traversal that hands out ids follows Type.all_features, so the schema given to the model follows the real history:
    own features, what was inherited from the built-in ancestors when the type was created, then what arrived later."""
    out = dict(schema)
    for n, (own, inh) in declared_order(decl["base"], decl["adds"]).items():
        feats = schema[n]["feats"]
        by = {f[0]: f for f in feats}
        if sorted(own + inh) != sorted(x for x in by if x in own or x in inh) or len(by) != len(feats):
            raise ValueError("declared features of %s: %s / %s" % (n, own + inh, sorted(by)))
        out[n] = {"anc": schema[n]["anc"],
                  "feats": [by[x] for x in own] + [f for f in feats if f[0] not in own and f[0] not in inh] + [by[x] for x in inh]}
    return out


def _array_feats(cassis, tspec, owners=S_OWNERS):
    schema = scen.schema_of(cassis, tspec)
    return {t: [f[0] for f in schema[t]["feats"] if f[2] == FS_ARRAY] for t in owners}


def _s_owner(b, ot, k=0, **refs):
    if ot in ("s.Ann", "Ann", "x.Ann"):
        return b.new(ot, None, sofa={"sofa": b.views[0]["name"]}, begin={"i": k}, end={"i": k + 1},
                     **{n: reach.ref(v) for n, v in refs.items()})
    return b.new(ot, None, label={"s": "l%d" % k}, **{n: reach.ref(v) for n, v in refs.items()})


def full_cas(cassis, tspec, elems, owners=S_OWNERS):
    """One indexed instance of every owner type, every FSArray feature it has at this point holding an array of `elems`
    (type names or None), a fresh array and fresh elements each."""
    feats = _array_feats(cassis, tspec)
    b = B()
    for k, ot in enumerate(owners):
        vals = {fn: b.arr([None if e is None else b.new(e) for e in elems]) for fn in feats[ot]}
        b.add(_s_owner(b, ot, k, **vals))
    return b.cspec()


def random_stage_cas(rng, cassis, tspec, fam=None):
    fam = fam or S_FAM
    feats = _array_feats(cassis, tspec, fam["owners"])
    b = B()
    pool = [b.new(rng.choice(fam["elems"])) for _ in range(rng.randint(2, 4))]
    owners = []
    for k, ot in enumerate(fam["owners"]):
        for j in range(rng.choice([0, 1, 1, 1, 2])):
            owners.append(_s_owner(b, ot, 3 * k + j))
    if not owners:
        owners.append(_s_owner(b, rng.choice(fam["owners"])))
    arrays = []
    for o in owners:
        obj = b.objs[o - 1]
        for fn in feats[obj["type"]]:
            r = rng.random()
            if r < 0.2:
                continue
            if r < 0.27:
                a = b.arr_none()
            elif r < 0.35 and arrays:
                a = rng.choice(arrays)
            else:
                a = b.arr([None if rng.random() < 0.2 else rng.choice(pool + owners) for _ in range(rng.choice([0, 1, 2, 3, 4]))])
                arrays.append(a)
            obj["slots"][fn] = reach.ref(a)
    hidden = set()
    if "ref" in [f["name"] for t in tspec if t["name"] == fam["ref"][0] for f in t["feats"]]:
        specials = [o for o in owners if b.objs[o - 1]["type"] in fam["ref"]]
        plain = [o for o in owners if b.objs[o - 1]["type"] in fam["ref_targets"]]
        for o in specials:
            if rng.random() < 0.5 and plain:
                tgt = rng.choice(plain)
                b.objs[o - 1]["slots"]["ref"] = reach.ref(tgt)
                if tgt != o and rng.random() < 0.6:
                    hidden.add(tgt)                      # reachable through the reference only (when its holder is indexed)
    for o in owners:
        if o not in hidden:
            b.add(o)
    if not b.members:
        b.add(owners[0])
    return b.cspec()


def systematic_staged():
    cassis = reach._CASSIS.get("m")
    mixed = ["s.Item", None, "s.Other", "s.SubItem"]

    def seq(shape, base_keys, *stage_keys, elems=mixed):
        base = tspec_after(S_BASE, _adds(base_keys))
        stages, cur = [], base
        for keys in [[]] + [list(k) for k in stage_keys]:
            cur = tspec_after(cur, _adds(keys))
            stages.append({"add": _adds(keys), "cspec": full_cas(cassis, cur, elems), "foreign": None, "how": None})
        return {"kind": "tc", "shape": "staged:" + shape, "tspec": base, "stages": stages, "inl": False, "seeds": None}

    # a type is checked while it has no FSArray feature, then gains one (directly, from its supertype, on an annotation type)
    for k in S_POOL:
        if k != "S.ref":
            yield seq("first:" + k, [], [k])
    yield seq("first:all", [], [k for k in S_POOL if k not in ("S.items", "D.items")])
    # a type that has an FSArray feature gains another one; a non-array feature arrives in between
    yield seq("second", ["H.any"], ["S.extra"], ["S.ref", "H.items"], ["A.marks"])
    yield seq("second", ["S.extra", "A.marks"], ["H.shared"], ["D.tops"])
    # the same definition declared on a subtype first and on the supertype afterwards (pull-up), and the other way round
    yield seq("pullup", ["S.items"], ["H.items"])
    yield seq("pullup", ["D.items"], ["S.items"], ["H.items"])
    yield seq("pullup", [], ["D.items", "S.items"], ["H.items", "H.any"])
    yield seq("pullup", ["S.items", "D.items"], ["H.items"], elems=["s.Other", "s.Other", "s.Item"])
    yield seq("repeat", ["H.items"], ["S.items"], ["D.items"])
    yield seq("repeat", [], ["H.items", "D.items"], ["S.items"], elems=["s.Other"])


def random_staged(rng):
    cassis = reach._CASSIS.get("m")
    keys = list(S_POOL)
    rng.shuffle(keys)
    n = rng.choice([2, 2, 3, 4])
    base_keys = [k for k in keys if rng.random() < 0.25]
    rest = [k for k in keys if k not in base_keys]
    per = [[] for _ in range(n)]
    for k in rest:
        if rng.random() < 0.8:
            per[rng.randrange(1, n)].append(k)
    base = tspec_after(S_BASE, _adds(base_keys))
    stages, cur = [], base
    for keys_k in per:
        cur = tspec_after(cur, _adds(keys_k))
        st = {"add": _adds(keys_k), "cspec": random_stage_cas(rng, cassis, cur), "foreign": None, "how": None}
        if rng.random() < 0.15:
            st["foreign"] = sorted(o["o"] for o in st["cspec"]["objs"] if rng.random() < 0.6)
            st["how"] = rng.choice(["rebuild", "reload"])
        if rng.random() < 0.3:
            reach.set_ids(st, rng.choice(["all", "partial"]), rng)
        stages.append(st)
    return {"kind": "tc", "shape": "staged:random", "tspec": base, "stages": stages, "inl": False, "seeds": None}


def with_foreign(sc, which, how, rng=None):
    """The same call, some of its feature structures created with the Type objects of a second, identical TypeSystem:
    which = all | owners (everything that is not an element or an array/list node) | elements | random."""
    c = json.loads(json.dumps(sc))
    objs = c["cspec"]["objs"]
    owner_types = set(OWNER_FEATS)
    if which == "all":
        labs = [o["o"] for o in objs]
    elif which == "owners":
        labs = [o["o"] for o in objs if o["type"] in owner_types]
    elif which == "elements":
        labs = [o["o"] for o in objs if o["type"] not in owner_types]
    else:
        labs = [o["o"] for o in objs if rng.random() < 0.5]
    c["foreign"], c["how"] = labs, how
    c["shape"] = "foreign:" + which
    return c


def systematic_foreign():
    k = 0
    for ot, fn in (("c.Owner", "any"), ("c.Owner", "bases"), ("c.Owner", "mids"), ("c.Owner", "others"), ("c.Owner", "shared"),
                   ("c.SubOwner", "leaves"), ("c.SubOwner", "extra"), ("c.AnnOwner", "items")):
        for which in ("all", "owners", "elements"):
            b = B()
            els = [b.new(st) for st in ("c.Base", "c.Mid", "c.Leaf", "c.Other")]
            o = b.owner(ot, **{fn: b.arr([els[0], els[1], None, els[2], els[3], els[2]])})
            b.add(o)
            k += 1
            yield with_foreign(sc_of(b, "x"), which, "reload" if k % 4 == 0 else "rebuild")
    # a foreign owner reachable only through a native one and the other way round
    for flip in (False, True):
        b = B()
        bad = b.new("c.Other")
        target = b.owner("c.SubOwner", mids=b.arr([bad, b.new("c.Leaf"), bad]), extra=b.arr([b.new("c.Mid")]))
        holder = b.owner("c.Owner", ref=target, owners=b.arr([target, None]), leaves=b.arr([b.new("c.Leaf"), b.new("c.Mid")]))
        b.add(holder)
        c = sc_of(b, "foreign:mixed")
        c["foreign"] = [o["o"] for o in c["cspec"]["objs"] if (o["o"] >= holder) == flip]
        c["how"] = "rebuild"
        yield c


# ---------------------------------------------------------------- fourth-wave widening: how the CAS and the type system came about
#
# (a) explicit xmi:ids AT the id generator: structures added with keep_id under exactly the id the CAS would hand out next
#     (or a little above), id-less structures behind them; explicit ids of referenced-only structures in the gaps below.
# (b) "style": how every create_feature call passes its arguments: "<type>:<feature>" -> three letters n|o (domain, range,
#     element type given by name or as the Type object) and an optional "a" (through the deprecated alias add_feature);
#     default "onn" is what scen.build_ts does.
# (c) type names without a namespace and types with equal short names (N_TSPEC).


def expected_next(cspec):
    """(the id the generator hands out next, label -> id) once the CAS is built the way build_cas builds it, from the scenario
    alone: one id per view (its sofa), then the add(keep_id=True) calls in order: an explicit id is kept and ids from then on
    are larger, an id-less structure takes the next one."""
    nxt = 1 + len(cspec["views"])
    ids = {o["o"]: o["id"] for o in cspec["objs"]}
    for _v, lab in cspec["members"]:
        i = ids[lab]
        if i is None:
            ids[lab] = nxt
            nxt += 1
        elif i >= nxt:
            nxt = i + 1
    return nxt, ids


def set_boundary_ids(c, rng, p=0.6):
    """c: anything with "cspec" whose ids are all absent.  Indexed structures get (with probability p) exactly the id the
    generator would hand out at their add, or one a little above; structures that are not indexed get (sometimes) one of the
    ids skipped that way: all explicit ids are distinct and, once the CAS is built, below the generator."""
    cspec = c["cspec"]
    by = {o["o"]: o for o in cspec["objs"]}
    nxt = 1 + len(cspec["views"])
    used = set(range(1, nxt))
    for _v, lab in cspec["members"]:
        o = by[lab]
        if o["id"] is None and rng.random() < p:
            o["id"] = nxt + rng.choice([0, 0, 0, 1, 2, 4])
        if o["id"] is None:
            used.add(nxt)                                    # add will give it this one; it stays id-less in the scenario
            nxt += 1
        else:
            used.add(o["id"])
            nxt = max(nxt, o["id"] + 1)
    free = [i for i in range(1, nxt) if i not in used]
    rng.shuffle(free)
    members = {lab for _v, lab in cspec["members"]}
    for o in cspec["objs"]:
        if o["o"] not in members and o["id"] is None and free and rng.random() < 0.3:
            o["id"] = free.pop()
    return c


def systematic_boundary():
    # the holder is indexed under the id the CAS would hand out next (delta 0) or just above; the owner behind it and its
    # arrays and elements have no id: the traversal numbers them from the generator
    for nviews in (1, 2, 3):
        for delta in (0, 1, 3):
            for via in ("ref", "owners", "self"):
                b = B(nviews=nviews)
                bad = b.new("c.Other")
                target = b.owner("c.SubOwner", leaves=b.arr([bad, b.new("c.Leaf"), None, bad]), extra=b.arr([b.new("c.Mid")]))
                if via == "ref":
                    holder = b.owner("c.Owner", ref=target)
                elif via == "owners":
                    holder = b.owner("c.Owner", owners=b.arr([None, target]), mids=b.arr([bad]))
                else:
                    holder = target
                b.objs[holder - 1]["id"] = nviews + 1 + delta
                b.add(holder, nviews - 1)
                yield sc_of(b, "boundary_id:" + via)
    # two and three adds in a row, each exactly at the generator; an id-less add in between; the same structure added to two views
    for pattern in ("xx", "x-x", "-x", "xxx", "x2"):
        b = B(nviews=2)
        bad = b.new("c.Other")
        nxt = 3
        for ch in pattern:
            if ch == "2":
                b.add(last, 1)
                continue
            o = b.owner("c.Owner", mids=b.arr([bad, b.new("c.Mid")]), ref=b.owner("c.Owner", others=b.arr([b.new("c.Base")])))
            if ch == "x":
                b.objs[o - 1]["id"] = nxt
            nxt += 1
            b.add(o, 0)
            last = o
        yield sc_of(b, "boundary_id:row")


STYLE_CODES = [d + r + e + a for a in ("", "a") for d in "on" for r in "on" for e in "on"]


def _feature_keys(tspec, adds=()):
    return ["%s:%s" % (t["name"], f["name"]) for t in tspec for f in t["feats"]] + \
           ["%s:%s" % (a["type"], a["feat"]["name"]) for a in adds]


def random_style(rng, keys, p=0.7):
    return {k: rng.choice(STYLE_CODES) for k in keys if rng.random() < p}


def systematic_style():
    # every way of passing domain / range / element type (name or Type object; create_feature or the alias), all features of
    # the type system declared that way; one owner of each owner type, every array feature holding conforming,
    # non-conforming and null elements
    for code in STYLE_CODES:
        if code == "onn":
            continue
        b = B()
        els = [b.new(st) for st in ("c.Base", "c.Mid", "c.Leaf", "c.Other")]
        for ot in ("c.Owner", "c.SubOwner", "c.AnnOwner"):
            vals = {fn: b.arr([els[(k + j) % 4] for j in range(3)] + [None, els[3]]) for k, fn in enumerate(OWNER_FEATS[ot])}
            b.add(b.owner(ot, **vals))
        sc = sc_of(b, "decl_style:" + code)
        sc["style"] = {k: code for k in _feature_keys(C_TSPEC)}
        yield sc
    # only the FSArray features with an element type declared with Type objects, one at a time
    for n, e, _m in ARRAY_FEATS:
        if e is None:
            continue
        b = B()
        els = [b.new(st) for st in ("c.Base", "c.Mid", "c.Leaf", "c.Other", "c.Owner")]
        b.add(b.owner("c.SubOwner", **{n: b.arr([els[0], els[3], None, els[2], els[4], els[1]])}))
        sc = sc_of(b, "decl_style:one")
        sc["style"] = {"c.Owner:" + n: "ooo"}
        yield sc


# (a type without a namespace is created before the type that shares its short name, its subtypes in between)
N_TSPEC = [
    {"name": "Item", "super": TOP, "feats": []},
    {"name": "demo.SpecialItem", "super": "Item", "feats": []},
    {"name": "legacy.Item", "super": TOP, "feats": []},
    {"name": "old.SpecialItem", "super": "legacy.Item", "feats": []},
    {"name": "Owner", "super": TOP, "feats": [_f("label", T + "String"), _f("items", FS_ARRAY, "Item"),
                                               _f("legacy", FS_ARRAY, "legacy.Item"), _f("any", FS_ARRAY),
                                               _f("specials", FS_ARRAY, "demo.SpecialItem", True), _f("ref", "Owner")]},
    {"name": "pkg.Owner", "super": "Owner", "feats": [_f("extra", FS_ARRAY, "Item"), _f("owners", FS_ARRAY, "Owner")]},
    {"name": "Plain", "super": TOP, "feats": [_f("label", T + "String"), _f("things", FS_ARRAY, "Plain")]},
    {"name": "Ann", "super": ANNOTATION, "feats": [_f("marks", FS_ARRAY, "legacy.Item")]},
    {"name": "x.Ann", "super": "Ann", "feats": [_f("more", FS_ARRAY, "Item")]},
]
N_FAM = {"owners": ["Owner", "pkg.Owner", "Plain", "Ann", "x.Ann"], "ref": ("Owner", "pkg.Owner"), "ref_targets": ("Owner", "pkg.Owner"),
         "elems": ["Item", "legacy.Item", "demo.SpecialItem", "old.SpecialItem"]}
S_FAM = {"owners": S_OWNERS, "elems": S_ELEMS, "ref": ("s.Special", "s.Deep"), "ref_targets": ("s.Holder", "s.Special", "s.Deep")}


def _n_sc(b, shape, code="ooo"):
    sc = {"kind": "tc", "shape": "names:" + shape, "tspec": N_TSPEC, "cspec": b.cspec(), "inl": False, "seeds": None}
    if code:                                   # every declaration made with Type objects, or (None) with names
        sc["style"] = {k: code for k in _feature_keys(N_TSPEC)}
    return sc


def systematic_names():
    cassis = reach._CASSIS.get("m")
    feats = _array_feats(cassis, N_TSPEC, N_FAM["owners"])
    # every element type in every array feature of every owner type (names without a namespace, equal short names)
    for k, ot in enumerate(N_FAM["owners"]):
        for fn in feats[ot]:
            b = B()
            els = [b.new(e) for e in N_FAM["elems"]] + [_s_owner(b, "Plain", 7), _s_owner(b, "pkg.Owner", 8)]
            b.add(_s_owner(b, ot, k, **{fn: b.arr(els[:2] + [None] + els[2:])}))
            yield _n_sc(b, "one_feature")
    # the owner is only referenced; unset / None / empty / only-null arrays
    b = B()
    target = _s_owner(b, "Owner", 1, items=b.arr([b.new("legacy.Item"), b.new("Item"), b.new("old.SpecialItem")]),
                      legacy=b.arr_none(), any=b.arr([]), specials=b.arr([None, None]))
    mid = _s_owner(b, "pkg.Owner", 2, ref=target, owners=b.arr([target, _s_owner(b, "Plain", 3)]))
    b.add(_s_owner(b, "Owner", 4, ref=mid))
    b.add(_s_owner(b, "Plain", 5, things=b.arr([_s_owner(b, "Plain", 6), b.new("Item")])))
    yield _n_sc(b, "reachable_only")
    yield _n_sc(b, "reachable_only", None)


def random_names(rng):
    cassis = reach._CASSIS.get("m")
    sc = {"kind": "tc", "shape": "names:random", "tspec": N_TSPEC, "cspec": random_stage_cas(rng, cassis, N_TSPEC, N_FAM),
          "inl": False, "seeds": None}
    r = rng.random()
    if r < 0.25:
        reach.set_ids(sc, rng.choice(["all", "partial"]), rng)
    elif r < 0.5:
        set_boundary_ids(sc, rng)
    r = rng.random()
    if r < 0.5:
        sc["style"] = {k: "ooo" for k in _feature_keys(N_TSPEC)}
    elif r < 0.75:
        sc["style"] = random_style(rng, _feature_keys(N_TSPEC))
    if rng.random() < 0.2:
        sc["foreign"] = sorted(o["o"] for o in sc["cspec"]["objs"] if rng.random() < 0.6)
        sc["how"] = "rebuild"
    return sc


def fourth_families(rng, tier):
    """Ids at the generator, declarations by Type object / alias, names without a namespace (fourth-wave widening)."""
    if tier != "search":
        yield from systematic_boundary()
        yield from systematic_style()
        yield from systematic_names()
    for _ in range({"quick": 40, "thorough": 600, "search": 300}[tier]):
        sc = random_tc(rng, rng.choice([1, 2, 3, 4]), ids=False)
        sc["shape"] = "boundary_id:random"
        yield set_boundary_ids(sc, rng)
    for _ in range({"quick": 30, "thorough": 500, "search": 300}[tier]):
        if rng.random() < 0.5:
            sc = random_tc(rng, rng.choice([1, 2, 3, 4]))
            sc["shape"] = "decl_style:random"
            sc["style"] = random_style(rng, _feature_keys(C_TSPEC))
        else:
            sc = random_staged(rng)
            sc["shape"] = "staged:style"
            sc["style"] = random_style(rng, _feature_keys(sc["tspec"], [a for st in sc["stages"] for a in st["add"]]))
        yield sc
    for _ in range({"quick": 40, "thorough": 600, "search": 300}[tier]):
        yield random_names(rng)


def new_families(rng, tier):
    """Sequences of calls and foreign Type objects (third-wave widening)."""
    if tier != "search":
        yield from systematic_staged()
        yield from systematic_foreign()
    for _ in range({"quick": 60, "thorough": 800, "search": 600}[tier]):
        yield random_staged(rng)
    for _ in range({"quick": 60, "thorough": 600, "search": 400}[tier]):
        sc = random_tc(rng, rng.choice([1, 2, 3, 4]))
        yield with_foreign(sc, rng.choice(["all", "owners", "elements", "random", "random"]), rng.choice(["rebuild", "rebuild", "reload"]), rng)


def generate(rng, tier):
    # the new families draw from a stream of their own, so that everything generated before them is what it always was
    if tier == "search":
        rng3 = random.Random()
        rng3.setstate(rng.getstate())
        rng3.random()
        yield from fourth_families(rng3, tier)
        rng2 = random.Random()
        rng2.setstate(rng.getstate())
        yield from new_families(rng2, tier)
    if tier != "search":
        for sc in systematic():
            yield sc
            if tier == "thorough":
                c = json.loads(json.dumps(sc))
                yield reach.set_ids(c, "all", rng)
    n_rand = {"quick": 400, "thorough": 5000, "search": 3000}[tier]
    for _ in range(n_rand):
        yield random_tc(rng, rng.choice([1, 2, 3, 4, 6] + ([10] if tier == "thorough" else [])))
    n_scen = {"quick": 150, "thorough": 1200, "search": 500}[tier]
    cassis = reach._CASSIS.get("m")
    for _ in range(n_scen):
        tspec = scen.gen_tspec(rng, n_types=rng.randint(2, 6), max_feats=4, awkward=False)
        cspec = scen.gen_cspec(rng, cassis, tspec, n_objs=(1, 8), all_ids=rng.random() < 0.5)
        yield {"kind": "tc", "shape": "gen_cspec", "tspec": tspec, "cspec": cspec, "inl": False, "seeds": None}
    if tier != "search":
        yield from new_families(rng, tier)
        yield from fourth_families(rng, tier)


# ------------------------------------------------------------------------------------------------ implementation side


def _declare(ts, types, tname, f, code):
    """One create_feature call, its arguments passed as `code` says (see the fourth-wave families)."""
    code = code or "onn"

    def obj(n):
        return types[n] if n in types else ts.get_type(n)

    dom = obj(tname) if code[0] == "o" else tname
    rng = obj(f["range"]) if code[1] == "o" else f["range"]
    el = f.get("elem")
    if el is not None and code[2] == "o":
        el = obj(el)
    if "a" in code[3:]:
        ts.add_feature(dom, f["name"], rng, elementType=el, multipleReferencesAllowed=f.get("multi"))
    else:
        ts.create_feature(dom, f["name"], rng, elementType=el, multipleReferencesAllowed=f.get("multi"))


def build_ts(cassis, tspec, style=None):
    """scen.build_ts (all types in list order, then all features type by type), every feature declared the way `style` says.
    Returns (TypeSystem, name -> Type object as create_type returned it): the harness never asks the type system for a
    user type by name, so that what typecheck does with a name is seen inside typecheck."""
    style = style or {}
    ts = cassis.TypeSystem()
    types = {}
    for t in tspec:
        types[t["name"]] = ts.create_type(t["name"], t["super"])
    for t in tspec:
        for f in t["feats"]:
            _declare(ts, types, t["name"], f, style.get("%s:%s" % (t["name"], f["name"])))
    return ts, types


def _probe_next(cas, types, tspec):
    """The id the generator hands out next, observed through the public API: add a fresh id-less structure."""
    p = types[tspec[0]["name"]]()
    cas.add(p)
    return p.xmiID


def _build_cas(cassis, ts, types, types2, foreign, cspec):
    """scen.build_cas, except that the Type objects come from `types` (those labelled in `foreign`: from types2, the Type
    objects of a second TypeSystem); the CAS, its views and sofas belong to ts."""
    cas = cassis.Cas(typesystem=ts)
    views = []
    for i, v in enumerate(cspec["views"]):
        view = cas if i == 0 else cas.create_view(v["name"])
        if v.get("text0") is not None and v.get("text") is not None:
            view.sofa_string = "".join(chr(c) for c in v["text0"])
        if v.get("text") is not None:
            view.sofa_string = "".join(chr(c) for c in v["text"])
        if v.get("mime") is not None:
            view.sofa_mime = v["mime"]
        views.append(view)
    vname = {v["name"]: views[i] for i, v in enumerate(cspec["views"])}
    objs = {}

    def type_of(o):
        tt = types2 if o["o"] in foreign else types
        return tt[o["type"]] if o["type"] in tt else ts.get_type(o["type"])        # built-in types: full names with dots

    for o in cspec["objs"]:
        kw = {"xmiID": o["id"]} if o.get("id") is not None else {}
        objs[o["o"]] = type_of(o)(**kw)

    def conv(v):
        if v is None:
            return None
        for k in ("i", "b", "s"):
            if k in v:
                return v[k]
        if "f" in v:
            return scen.unfl(v["f"])
        if "ref" in v:
            return objs[v["ref"]]
        if "list" in v:
            return [conv(e) for e in v["list"]]
        if "sofa" in v:
            return vname[v["sofa"]].get_sofa()
        raise ValueError(v)

    for o in cspec["objs"]:
        for k, v in o["slots"].items():
            setattr(objs[o["o"]], k, conv(v))
    for vi, lab in cspec["members"]:
        views[vi].add(objs[lab], keep_id=True)
    return cas, views, objs


def run_impl(cassis, sc):
    reach._CASSIS["m"] = cassis
    style = sc.get("style") or {}
    ts, types = build_ts(cassis, sc["tspec"], style)              # ONE TypeSystem object for all calls of the scenario
    if "stages" not in sc:
        return _run_call(cassis, ts, types, sc)
    out = []
    for st, call in zip(sc["stages"], stages_of(sc)):
        for a in st["add"]:
            _declare(ts, types, a["type"], a["feat"], style.get("%s:%s" % (a["type"], a["feat"]["name"])))
        out.append(_run_call(cassis, ts, types, call))
    return {"stages": out, "err": next((o["err"] for o in out if o["err"]), None), "owners": [i for o in out for i in o["owners"]]}


def _run_call(cassis, ts, types, sc):
    foreign = set(sc.get("foreign") or [])
    types2 = {}
    if foreign and sc.get("how") == "reload":
        types2 = {t.name: t for t in cassis.load_typesystem(ts.to_xml()).get_types(built_in=True)}
    elif foreign:
        ts2, types2 = build_ts(cassis, sc["tspec"], sc.get("style"))
        types2 = dict({t.name: t for t in ts2.get_types(built_in=True)}, **types2)

    def build():
        return _build_cas(cassis, ts, types, types2, foreign, sc["cspec"])

    cas0, _v0, _o0 = build()
    next_before = _probe_next(cas0, types, sc["tspec"])
    cas, views, objs = build()
    lab = {id(o): l for l, o in objs.items()}
    ids_before = {str(l): o.xmiID for l, o in objs.items()}
    members = [[lab.get(id(x), -1) for x in v.select_all()] for v in views]
    sofas = [{"id": v.get_sofa().xmiID, "num": v.get_sofa().sofaNum, "name": v.get_sofa().sofaID} for v in views]
    err, owners = None, []
    try:
        errors = cas.typecheck()
        owners = sorted(e.xmiID for e in errors)
        if any(not isinstance(i, int) for i in owners):
            err = "error without an id"
    except Exception as e:  # noqa
        err = reach._errkind(e)
    ids_after = {str(l): o.xmiID for l, o in objs.items()}
    try:                                                          # the same call once more on the same objects
        again = sorted(e.xmiID for e in cas.typecheck())
    except Exception as e:  # noqa
        again = reach._errkind(e)
    return {"next_before": next_before, "ids_before": ids_before, "members": members, "sofas": sofas, "err": err,
            "owners": owners, "ids_after": ids_after, "again": again}


# ------------------------------------------------------------------------------------------------ oracle (from the scenario)


def expected_owner_labels(cassis, sc, obs):
    """One entry (the owner's label) per element of an FSArray-valued feature of a reachable structure whose type is not the
    declared element type (TOP when none) or a subtype of it."""
    schema = scen.schema_of(cassis, sc["tspec"])
    by = {o["o"]: o for o in sc["cspec"]["objs"]}
    out = []
    for l in sorted(reach.expected_reach(cassis, sc, obs)):
        o = by[l]
        for pn, _xn, rng, el, _multi in schema[o["type"]]["feats"]:
            if rng != FS_ARRAY:
                continue
            v = o["slots"].get(pn)
            if v is None:
                continue
            e = by[v["ref"]]["slots"].get("elements")
            for x in (e["list"] if e else []):
                if x is None:
                    continue
                te = by[x["ref"]]["type"]
                want = el or TOP
                if want != TOP and want not in schema[te]["anc"]:
                    out.append(l)
    return out


def oracle(cassis, sc, obs):
    if "stages" not in sc:
        return _oracle_call(cassis, sc, obs)
    for k, (call, ob) in enumerate(zip(stages_of(sc), obs["stages"])):
        m = _oracle_call(cassis, call, ob)
        if m:
            return f"call {k + 1} of {len(sc['stages'])} on the same TypeSystem: {m}"
    return None


def _oracle_call(cassis, sc, obs):
    if obs["err"] is not None:
        idb = {int(k): v for k, v in obs["ids_before"].items()}
        if obs["err"] == "EDupId":
            # legitimate only when two reachable structures carry the same id, or an id-less one meets an explicit id the
            # generator was never told about: the generator's position follows from the scenario (expected_next), every id
            # kept by add(keep_id=True) is behind it
            rs = reach.expected_reach(cassis, sc, obs)
            ids = [idb[l] for l in rs if idb[l] is not None]
            nxt, _ids = expected_next(sc["cspec"])
            if len(set(ids)) < len(ids) or (any(idb[l] is None for l in rs) and any(i >= nxt for i in ids)):
                return None
            return (f"typecheck raised EDupId although the explicit ids {sorted(ids)[:20]} of the reachable structures are distinct "
                    f"and below {nxt}, where the id generator stands after the CAS was built")
        return f"typecheck raised {obs['err']}"
    ida = {int(k): v for k, v in obs["ids_after"].items()}
    labels = expected_owner_labels(cassis, sc, obs)
    if any(ida[l] is None for l in labels):
        return "a reachable owner has no xmi:id after typecheck"
    exp = sorted(ida[l] for l in labels)
    if obs["owners"] != exp:
        return f"typecheck returned errors for owners {obs['owners'][:20]}, expected {exp[:20]}"
    if obs.get("again", exp) != exp:
        return f"typecheck called a second time on the same CAS returned {str(obs['again'])[:80]}, expected {exp[:20]}"
    return None


# ------------------------------------------------------------------------------------------------ rendering


def render(sc, obs):
    if "stages" not in sc:
        t = _render_call(sc, obs)
        return None if t is None else f"[{t}]"
    ts = [_render_call(call, ob) for call, ob in zip(stages_of(sc), obs["stages"])]
    return None if any(t is None for t in ts) else "[" + ";\n ".join(ts) + "]"


def _render_call(sc, obs):
    if any(l < 0 for m in obs["members"] for l in m):
        return None
    cassis = reach._CASSIS.get("m")
    if obs["err"] is not None and obs["err"] not in ("EDupId", "EAttribute", "ETypeNotFound", "EKey", "EType", "ERuntime", "EIndex", "EValue"):
        return None
    err = "None" if obs["err"] is None else f"(Some {obs['err']})"
    schema_term = None
    if sc["tspec"] == C_TSPEC:
        ok, names = reach.schema_const_usable(cassis, C_TSPEC, C_OBJ_TYPES, "CorrC19.v", "schemaC")
        if ok and all(o["type"] in names for o in sc["cspec"]["objs"]):
            schema_term = "schemaC"
    if schema_term is None:
        schema = scen.schema_of(cassis, sc["tspec"])
        if sc.get("decl"):
            schema = in_declared_order(schema, sc["decl"])
        names = scen.used_type_names(schema, sc["cspec"])
        if sc["tspec"][0]["name"] in ("s.Item", "Item"):
            # the user types (sorted before uima.*) rendered per call, the built-in rest by the constant when it is verbatim
            ok, builtin = reach.schema_const_usable(cassis, [], SB_OBJ_TYPES, "CorrC19.v", "schemaSB")
            own = [n for n in names if not n.startswith("uima.")]
            if ok and all(n in builtin for n in names if n not in own):
                schema_term = f"({scen.g_schema(schema, own)}\n  ++ schemaSB)"
    if schema_term is None:
        schema_term = scen.g_schema(schema, names)
    return (f"mkCase {schema_term}\n {reach._g_cas(sc, obs)}\n {err} {glist([gz(i) for i in obs['owners']])}")


def nontrivial(sc):
    for o in [o for call in stages_of(sc) for o in call["cspec"]["objs"]]:
        if o["type"] == FS_ARRAY:
            e = o["slots"].get("elements")
            if e is None or None in e["list"] or len(e["list"]) > 1:
                return True
    return False


def _shrink_call(sc):
    """sc: anything with "cspec" (a single-call scenario or a stage) and perhaps "foreign"."""
    yield from reach._shrink_candidates(sc)
    for o in sc["cspec"]["objs"]:
        e = o["slots"].get("elements")
        if o["type"] == FS_ARRAY and e and len(e["list"]) > 1:
            for i in range(len(e["list"])):
                c = json.loads(json.dumps(sc))
                del [x for x in c["cspec"]["objs"] if x["o"] == o["o"]][0]["slots"]["elements"]["list"][i]
                yield c
    for i in range(len(sc.get("foreign") or [])):
        c = json.loads(json.dumps(sc))
        del c["foreign"][i]
        yield c
    if sc.get("shape", "").startswith(("boundary_id", "names")):
        for o in sc["cspec"]["objs"]:
            if o["id"] is not None:
                c = json.loads(json.dumps(sc))
                [x for x in c["cspec"]["objs"] if x["o"] == o["o"]][0]["id"] = None
                yield c


def _shrink_style(sc):
    if sc.get("shape", "").startswith("names"):       # declared by name, that type system may not even build: keep the call
        return
    for k in sorted(sc.get("style") or {}):
        c = json.loads(json.dumps(sc))
        del c["style"][k]
        yield c


def shrink_candidates(sc):
    yield from _shrink_style(sc)
    if "stages" not in sc:
        yield from _shrink_call(sc)
        return
    n = len(sc["stages"])
    for k in range(n - 1):                     # leave out call k; what was declared before it is declared before the next one
        c = json.loads(json.dumps(sc))
        st = c["stages"].pop(k)
        if k == 0:
            c["tspec"] = tspec_after(c["tspec"], st["add"])
        else:
            c["stages"][k]["add"] = st["add"] + c["stages"][k]["add"]
        yield c
    for k in range(1, n):                      # declare less (only features nothing in the later CASes uses)
        for i, a in enumerate(sc["stages"][k]["add"]):
            used = any(a["feat"]["name"] in o["slots"] for st in sc["stages"][k:] for o in st["cspec"]["objs"])
            if not used:
                c = json.loads(json.dumps(sc))
                del c["stages"][k]["add"][i]
                yield c
    for k in range(n):
        for cst in _shrink_call(sc["stages"][k]):
            c = json.loads(json.dumps(sc))
            c["stages"][k] = cst
            yield c


def signature(sc, msg):
    what = (msg or "").split(" for owners")[0]
    return {"shape": sc.get("shape", "").split(":")[0], "what": what.split("TypeSystem: ")[-1][:60]}


def distribution(scenarios, observations):
    by_shape = {}
    for s in scenarios:
        k = s["shape"].split(":")[0]
        by_shape[k] = by_shape.get(k, 0) + 1
    return {"cases": len(scenarios), "by_shape": by_shape,
            "with_errors": sum(1 for o in observations if o and o["owners"]),
            "max_errors": max([len(o["owners"]) for o in observations if o] or [0]),
            "raised": sum(1 for o in observations if o and o["err"]),
            "calls": sum(len(stages_of(s)) for s in scenarios),
            "max_objects": max([len(c["cspec"]["objs"]) for s in scenarios for c in stages_of(s)] or [0])}


MANIFEST = {
    "level_text": "Machine-checked proof (Coq 8.16) that the modelled TypeSystem.typecheck run over the modelled Cas._find_all_fs "
                  "returns, for every schema and CAS, exactly one error per element of an FSArray-valued feature of a reachable "
                  "feature structure whose type is not the declared element type (TOP when none) or a subtype, carrying the "
                  "owner's xmi:id, and nothing else; returns the empty list iff there is no such element; and does not raise on "
                  "well-formed CASes (unset features, elements None/empty, null elements, referenced-only owners). The model is "
                  "tied to /repo on every run by evaluating it inside Coq on the CASes the implementation checked.",
    "level_note": "Trusted: Coq kernel + vm_compute; hand-written models coq/Typecheck.v and coq/Reach.v; the schema (ancestor lists, "
                  "effective features) is data (C10/C11); harness building real objects. Print Assumptions: closed under the global "
                  "context.",
    "technique": "Coq proof over an executable Gallina model + in-Coq behavioural correspondence (systematic small scopes, random graphs)",
    "design_ref": "DESIGN.md section 5, C19",
}
