"""C19 — typecheck reports exactly the FSArray element-type violations."""
import json

from harness import scen
from harness.gallina import glist, gz
from harness.props import C15 as reach

ID = "C19"
COQ_TARGETS = ["Reach.vo", "ReachProofs.vo", "Typecheck.vo", "TypecheckProofs.vo", "CorrC19.vo", "Props/C19.vo"]
PROPS_FILE = "Props/C19.v"
CORR_IMPORTS = "Base Heap Schema Reach Typecheck CorrC19"
ENTRY = "cassis.cas.Cas.typecheck / cassis.typesystem.TypeSystem.typecheck"
CASE_TIMEOUT_S = 10
RULE = (
    "Type system with a four-level type tree and owner types whose FSArray features have no element type, element type "
    "TOP, a supertype, the exact type, a subtype and an unrelated type of what is stored (inline and shared arrays, also "
    "inherited and on an annotation type); CASes populate them with conforming, non-conforming, null and missing values "
    "(feature unset, elements=None, empty array), several violations per array, the same array under two features, instances "
    "of uima.cas.TOP, owners in other views than the one typecheck is called through, owners "
    "indexed or reachable only through references, arrays, lists and TOP features, unreachable owners, ids absent / "
    "partial / explicit; systematic small scopes (every stored type x every feature) plus random graphs, plus random "
    "scen.gen_tspec/gen_cspec CASes. Observation: sorted xmiIDs of the returned errors (or the error kind). A case is "
    "non-trivial when it has a violation, a null element, an unset FSArray feature or a referenced-only owner."
)
TRUSTED = [
    "Coq 8.16.1 kernel and vm_compute; theorems in Props/C19.v are closed under the global context",
    "hand-written models coq/Typecheck.v (TypeSystem.typecheck, Cas.typecheck) and coq/Reach.v (Cas._find_all_fs)",
    "the schema (ancestors, effective features with element types) is data here; that a TypeSystem answers like it is C10/C11",
    "harness/scen.py builders and harness/props/C19.py: build real objects, read TypeCheckError.xmiID, render cases",
]
ASSUMPTIONS = [
    "well-formed heaps: FSArray-valued features hold None or an array whose elements is None/empty or a list of None / "
    "feature structures of types known to the type system; explicit ids pairwise distinct and below the id generator",
    "seed order is the observed View.get_all_annotations order and is an input of the model",
]

T = scen.T
TOP, FS_ARRAY, FS_LIST, ANNOTATION = scen.TOP, scen.FS_ARRAY, scen.FS_LIST, scen.ANNOTATION
_f = reach._f

ARRAY_FEATS = [("any", None, None), ("tops", TOP, None), ("bases", "c.Base", None), ("mids", "c.Mid", None),
               ("leaves", "c.Leaf", None), ("others", "c.Other", None), ("shared", "c.Mid", True), ("owners", "c.Owner", False)]
C_TSPEC = [
    {"name": "c.Base", "super": TOP, "feats": [_f("n", T + "Integer")]},
    {"name": "c.Mid", "super": "c.Base", "feats": []},
    {"name": "c.Leaf", "super": "c.Mid", "feats": []},
    {"name": "c.Other", "super": TOP, "feats": []},
    {"name": "c.Owner", "super": TOP, "feats": [_f(n, FS_ARRAY, e, m) for n, e, m in ARRAY_FEATS]
     + [_f("ref", "c.Owner"), _f("top", TOP), _f("lst", FS_LIST), _f("slst", FS_LIST, None, True), _f("ints", T + "IntegerArray")]},
    {"name": "c.SubOwner", "super": "c.Owner", "feats": [_f("extra", FS_ARRAY, "c.Leaf")]},
    {"name": "c.AnnOwner", "super": ANNOTATION, "feats": [_f("items", FS_ARRAY, "c.Mid"), _f("owner", "c.Owner")]},
]
C_OBJ_TYPES = ["c.Base", "c.Mid", "c.Leaf", "c.Other", "c.Owner", "c.SubOwner", "c.AnnOwner", FS_ARRAY, T + "NonEmptyFSList",
               T + "EmptyFSList", T + "IntegerArray"]
STORED = ["c.Base", "c.Mid", "c.Leaf", "c.Other", "c.Owner", "c.SubOwner"]
OWNER_FEATS = {"c.Owner": [n for n, _e, _m in ARRAY_FEATS], "c.SubOwner": [n for n, _e, _m in ARRAY_FEATS] + ["extra"],
               "c.AnnOwner": ["items"]}


class B(reach.B):
    def owner(self, type_="c.Owner", id=None, **refs):
        if type_ == "c.AnnOwner":
            lab = self.ann_owner(**refs)
            self.objs[lab - 1]["id"] = id
            return lab
        return self.new(type_, id, **{k: reach.ref(v) for k, v in refs.items()})

    def ann_owner(self, view=0, b=0, e=1, **refs):
        return self.new("c.AnnOwner", None, sofa={"sofa": self.views[view]["name"]}, begin={"i": b}, end={"i": e},
                        **{k: reach.ref(v) for k, v in refs.items()})

    def arr_none(self):
        """an FSArray object whose `elements` is None"""
        return self.new(FS_ARRAY, None, elements=None)


def sc_of(b, shape, tspec=None):
    return {"kind": "tc", "shape": shape, "tspec": tspec if tspec is not None else C_TSPEC, "cspec": b.cspec(), "inl": False,
            "seeds": None}


def systematic():
    # every stored type in every array feature of every owner type, one element, owner indexed
    for ot in ("c.Owner", "c.SubOwner", "c.AnnOwner"):
        for fn in OWNER_FEATS[ot]:
            for st in STORED + [FS_ARRAY, "c.AnnOwner", TOP]:
                b = B()
                if st == FS_ARRAY:
                    e = b.arr([])
                elif st == "c.AnnOwner":
                    e = b.ann_owner()
                else:
                    e = b.new(st)
                o = b.owner(ot, **{fn: b.arr([e])})
                b.add(o)
                yield sc_of(b, "one_element")
    # totality: unset, elements None, empty, only nulls; indexed and referenced-only
    for referenced_only in (False, True):
        for ot in ("c.Owner", "c.SubOwner", "c.AnnOwner"):
            b = B()
            fns = OWNER_FEATS[ot]
            vals = {}
            for k, fn in enumerate(fns):
                kind = k % 4
                if kind == 1:
                    vals[fn] = b.arr_none()
                elif kind == 2:
                    vals[fn] = b.arr([])
                elif kind == 3:
                    vals[fn] = b.arr([None, None])
            o = b.owner(ot, **vals)
            if referenced_only and ot != "c.AnnOwner":
                b.add(b.owner("c.Owner", ref=o))
            elif referenced_only:
                b.add(b.owner("c.Owner", top=o))
            else:
                b.add(o)
            yield sc_of(b, "no_elements")
    # several violations in one array, mixed with nulls and conforming elements; the same array under two features
    for k in range(1, 5):
        b = B()
        bad = [b.new("c.Other") for _ in range(k)]
        good = [b.new("c.Leaf"), b.new("c.Mid")]
        arr = b.arr([bad[0], None, good[0]] + bad + [good[1], bad[-1]])
        o = b.owner("c.Owner", mids=arr, shared=arr, any=arr, others=arr)
        b.add(o)
        yield sc_of(b, "many_violations")
    # owners reachable only: through a reference chain, an inline array, a shared array, inline and shared lists, a TOP feature;
    # and an owner that is not reachable at all
    for via in ("ref", "owners", "shared_arr_of_top", "lst", "slst", "top", "unreachable", "ann"):
        b = B()
        bad = b.new("c.Other")
        target = b.owner("c.SubOwner", leaves=b.arr([bad, b.new("c.Leaf"), bad]), extra=b.arr([b.new("c.Mid")]))
        if via == "ref":
            mid = b.owner("c.Owner", ref=target)
            b.add(b.owner("c.Owner", ref=mid))
        elif via == "owners":
            b.add(b.owner("c.Owner", owners=b.arr([None, target])))
        elif via == "shared_arr_of_top":
            b.add(b.owner("c.Owner", tops=b.arr([target, target])))
        elif via in ("lst", "slst"):
            first, _ = b.lst([None, target])
            b.add(b.owner("c.Owner", **{via: first}))
        elif via == "top":
            b.add(b.owner("c.Owner", top=target))
        elif via == "ann":
            b.add(b.ann_owner(owner=target, items=b.arr([b.new("c.Base")])))
        else:
            b.add(b.owner("c.Owner"))
        yield sc_of(b, "reachable_only:" + via)
    # more than one view: the offender is indexed only in (or only reachable from) a view other than the one typecheck is
    # called through; and the same owner indexed in both views is checked once
    for k in range(3):
        b = B(nviews=3)
        bad = b.new("c.Other")
        o = b.owner("c.SubOwner", mids=b.arr([bad, bad]))
        if k == 0:
            b.add(o, 1)
        elif k == 1:
            b.add(b.owner("c.Owner", ref=o), 2)
            b.add(b.owner("c.Owner"), 0)
        else:
            b.add(o, 0)
            b.add(o, 2)
        yield sc_of(b, "other_view")
    # an instance of uima.cas.TOP itself as element, as owner-less indexed structure and behind a TOP feature
    b = B()
    t = b.new(TOP)
    b.add(t)
    b.add(b.owner("c.Owner", top=b.new(TOP), tops=b.arr([t]), any=b.arr([t, None]), mids=b.arr([t, t])))
    yield sc_of(b, "top_instance")
    # an owner behind cas:NULL is not checked; an owner with id 0 is not checked
    b = B()
    bad = b.new("c.Other")
    target = b.owner("c.Owner", mids=b.arr([bad]))
    null = b.owner("c.Owner", id=0, ref=target, mids=b.arr([bad]))
    b.add(b.owner("c.Owner", ref=null))
    yield sc_of(b, "behind_null")


def random_tc(rng, n):
    b = B(nviews=rng.choice([1, 1, 2]))
    plain = [b.new(rng.choice(STORED[:4] + [TOP])) for _ in range(rng.randint(1, 4))]
    owners = []
    for _ in range(n):
        ot = rng.choice(["c.Owner", "c.Owner", "c.SubOwner", "c.AnnOwner"])
        if ot == "c.AnnOwner":
            v = rng.randrange(len(b.views))
            bg = rng.randint(0, 5)
            owners.append(b.ann_owner(view=v, b=bg, e=rng.randint(bg, 8)))
        else:
            owners.append(b.owner(ot))
    arrays = []

    def elems():
        pool = plain + owners + (arrays[:2] if arrays else [])
        return [None if rng.random() < 0.2 else rng.choice(pool) for _ in range(rng.choice([0, 1, 2, 3, 5]))]

    for o in owners:
        obj = b.objs[o - 1]
        for fn in OWNER_FEATS[obj["type"]]:
            r = rng.random()
            if r < 0.35:
                continue
            if r < 0.42:
                a = b.arr_none()
            elif r < 0.55 and arrays:
                a = rng.choice(arrays)
            else:
                a = b.arr(elems())
                arrays.append(a)
            obj["slots"][fn] = reach.ref(a)
        if obj["type"] != "c.AnnOwner":
            non_ann = [x for x in owners if b.objs[x - 1]["type"] != "c.AnnOwner"]
            if rng.random() < 0.5 and non_ann:
                obj["slots"]["ref"] = reach.ref(rng.choice(non_ann))
            if rng.random() < 0.3:
                obj["slots"]["top"] = reach.ref(rng.choice(owners + arrays if arrays else owners))
            if rng.random() < 0.3:
                first, _ = b.lst([None if rng.random() < 0.2 else rng.choice(owners) for _ in range(rng.randint(0, 3))],
                                 cyclic=False)
                obj["slots"][rng.choice(["lst", "slst"])] = reach.ref(first)
        else:
            non_ann = [x for x in owners if b.objs[x - 1]["type"] != "c.AnnOwner"]
            if rng.random() < 0.5 and non_ann:
                obj["slots"]["owner"] = reach.ref(rng.choice(non_ann))
    for o in owners + plain:
        if rng.random() < 0.35:
            obj = b.objs[o - 1]
            if obj["type"] == "c.AnnOwner":
                v = [i for i, vw in enumerate(b.views) if vw["name"] == obj["slots"]["sofa"]["sofa"]][0]
                b.add(o, v)
            else:
                b.add(o, rng.randrange(len(b.views)))
    if not b.members:
        o = owners[0]
        obj = b.objs[o - 1]
        v = 0 if obj["type"] != "c.AnnOwner" else [i for i, vw in enumerate(b.views) if vw["name"] == obj["slots"]["sofa"]["sofa"]][0]
        b.add(o, v)
    sc = sc_of(b, "random")
    reach.set_ids(sc, rng.choice(["none", "none", "all", "partial"]), rng)
    if rng.random() < 0.05:
        rng.choice(sc["cspec"]["objs"])["id"] = 0
    return sc


def generate(rng, tier):
    if tier != "search":
        for sc in systematic():
            yield sc
            if tier == "thorough":
                c = json.loads(json.dumps(sc))
                yield reach.set_ids(c, "all", rng)
    n_rand = {"quick": 400, "thorough": 5000, "search": 3000}[tier]
    for _ in range(n_rand):
        yield random_tc(rng, rng.choice([1, 2, 3, 4, 6] + ([10] if tier == "thorough" else [])))
    n_scen = {"quick": 150, "thorough": 1200, "search": 500}[tier]
    cassis = reach._CASSIS.get("m")
    for _ in range(n_scen):
        tspec = scen.gen_tspec(rng, n_types=rng.randint(2, 6), max_feats=4, awkward=False)
        cspec = scen.gen_cspec(rng, cassis, tspec, n_objs=(1, 8), all_ids=rng.random() < 0.5)
        yield {"kind": "tc", "shape": "gen_cspec", "tspec": tspec, "cspec": cspec, "inl": False, "seeds": None}


# ------------------------------------------------------------------------------------------------ implementation side


def run_impl(cassis, sc):
    reach._CASSIS["m"] = cassis
    ts = scen.build_ts(cassis, sc["tspec"])
    cas0, _v0, _o0 = scen.build_cas(cassis, ts, sc["cspec"])
    next_before = reach._probe_next(cas0, ts, sc["tspec"])
    cas, views, objs = scen.build_cas(cassis, ts, sc["cspec"])
    lab = {id(o): l for l, o in objs.items()}
    ids_before = {str(l): o.xmiID for l, o in objs.items()}
    members = [[lab.get(id(x), -1) for x in v.select_all()] for v in views]
    sofas = [{"id": v.get_sofa().xmiID, "num": v.get_sofa().sofaNum, "name": v.get_sofa().sofaID} for v in views]
    err, owners = None, []
    try:
        errors = cas.typecheck()
        owners = sorted(e.xmiID for e in errors)
        if any(not isinstance(i, int) for i in owners):
            err = "error without an id"
    except Exception as e:  # noqa
        err = reach._errkind(e)
    ids_after = {str(l): o.xmiID for l, o in objs.items()}
    return {"next_before": next_before, "ids_before": ids_before, "members": members, "sofas": sofas, "err": err,
            "owners": owners, "ids_after": ids_after}


# ------------------------------------------------------------------------------------------------ oracle (from the scenario)


def expected_owner_labels(cassis, sc, obs):
    """One entry (the owner's label) per element of an FSArray-valued feature of a reachable structure whose type is not the
    declared element type (TOP when none) or a subtype of it."""
    schema = scen.schema_of(cassis, sc["tspec"])
    by = {o["o"]: o for o in sc["cspec"]["objs"]}
    out = []
    for l in sorted(reach.expected_reach(cassis, sc, obs)):
        o = by[l]
        for pn, _xn, rng, el, _multi in schema[o["type"]]["feats"]:
            if rng != FS_ARRAY:
                continue
            v = o["slots"].get(pn)
            if v is None:
                continue
            e = by[v["ref"]]["slots"].get("elements")
            for x in (e["list"] if e else []):
                if x is None:
                    continue
                te = by[x["ref"]]["type"]
                want = el or TOP
                if want != TOP and want not in schema[te]["anc"]:
                    out.append(l)
    return out


def oracle(cassis, sc, obs):
    if obs["err"] is not None:
        idb = {int(k): v for k, v in obs["ids_before"].items()}
        if obs["err"] == "EDupId":
            rs = reach.expected_reach(cassis, sc, obs)
            ids = [idb[l] for l in rs if idb[l] is not None]
            if len(set(ids)) < len(ids) or (any(idb[l] is None for l in rs) and any(i >= obs["next_before"] for i in ids)):
                return None
        return f"typecheck raised {obs['err']}"
    ida = {int(k): v for k, v in obs["ids_after"].items()}
    labels = expected_owner_labels(cassis, sc, obs)
    if any(ida[l] is None for l in labels):
        return "a reachable owner has no xmi:id after typecheck"
    exp = sorted(ida[l] for l in labels)
    if obs["owners"] != exp:
        return f"typecheck returned errors for owners {obs['owners'][:20]}, expected {exp[:20]}"
    return None


# ------------------------------------------------------------------------------------------------ rendering


def render(sc, obs):
    if any(l < 0 for m in obs["members"] for l in m):
        return None
    cassis = reach._CASSIS.get("m")
    if obs["err"] is not None and obs["err"] not in ("EDupId", "EAttribute", "ETypeNotFound", "EKey", "EType", "ERuntime", "EIndex", "EValue"):
        return None
    err = "None" if obs["err"] is None else f"(Some {obs['err']})"
    schema_term = None
    if sc["tspec"] == C_TSPEC:
        ok, names = reach.schema_const_usable(cassis, C_TSPEC, C_OBJ_TYPES, "CorrC19.v", "schemaC")
        if ok and all(o["type"] in names for o in sc["cspec"]["objs"]):
            schema_term = "schemaC"
    if schema_term is None:
        schema = scen.schema_of(cassis, sc["tspec"])
        schema_term = scen.g_schema(schema, scen.used_type_names(schema, sc["cspec"]))
    return (f"mkCase {schema_term}\n {reach._g_cas(sc, obs)}\n {err} {glist([gz(i) for i in obs['owners']])}")


def nontrivial(sc):
    for o in sc["cspec"]["objs"]:
        if o["type"] == FS_ARRAY:
            e = o["slots"].get("elements")
            if e is None or None in e["list"] or len(e["list"]) > 1:
                return True
    return False


def shrink_candidates(sc):
    yield from reach._shrink_candidates(sc)
    for o in sc["cspec"]["objs"]:
        e = o["slots"].get("elements")
        if o["type"] == FS_ARRAY and e and len(e["list"]) > 1:
            for i in range(len(e["list"])):
                c = json.loads(json.dumps(sc))
                del [x for x in c["cspec"]["objs"] if x["o"] == o["o"]][0]["slots"]["elements"]["list"][i]
                yield c


def signature(sc, msg):
    return {"shape": sc.get("shape", "").split(":")[0], "what": (msg or "").split(" for owners")[0][:60]}


def distribution(scenarios, observations):
    by_shape = {}
    for s in scenarios:
        k = s["shape"].split(":")[0]
        by_shape[k] = by_shape.get(k, 0) + 1
    return {"cases": len(scenarios), "by_shape": by_shape,
            "with_errors": sum(1 for o in observations if o and o["owners"]),
            "max_errors": max([len(o["owners"]) for o in observations if o] or [0]),
            "raised": sum(1 for o in observations if o and o["err"]),
            "max_objects": max([len(s["cspec"]["objs"]) for s in scenarios] or [0])}


MANIFEST = {
    "level_text": "Machine-checked proof (Coq 8.16) that the modelled TypeSystem.typecheck run over the modelled Cas._find_all_fs "
                  "returns, for every schema and CAS, exactly one error per element of an FSArray-valued feature of a reachable "
                  "feature structure whose type is not the declared element type (TOP when none) or a subtype, carrying the "
                  "owner's xmi:id, and nothing else; returns the empty list iff there is no such element; and does not raise on "
                  "well-formed CASes (unset features, elements None/empty, null elements, referenced-only owners). The model is "
                  "tied to /repo on every run by evaluating it inside Coq on the CASes the implementation checked.",
    "level_note": "Trusted: Coq kernel + vm_compute; hand-written models coq/Typecheck.v and coq/Reach.v; the schema (ancestor lists, "
                  "effective features) is data (C10/C11); harness building real objects. Print Assumptions: closed under the global "
                  "context.",
    "technique": "Coq proof over an executable Gallina model + in-Coq behavioural correspondence (systematic small scopes, random graphs)",
    "design_ref": "DESIGN.md section 5, C19",
}
