"""C08 — views are isolated, share ids and types, and every handle sees the same state."""
import json
import random

from harness.gallina import gbool, glist, gn, gnat, gopt, gstr, gz

ID = "C08"
COQ_TARGETS = ["Views.vo", "ViewsProofs.vo", "CorrC08.vo", "Props/C08.vo"]
PROPS_FILE = "Props/C08.v"
CORR_IMPORTS = "Base Views CorrC08"
OPEN_SCOPES = ["list_scope"]
ENTRY = ("cassis.cas.Cas.__init__/_copy/create_view/get_view/add/remove/select_all/get_document_annotation/"
         "document_language/sofa_* ; cassis.typesystem.FeatureStructure.get_covered_text")
RULE = (
    "seeded random histories (quick: <= 14 operations + tail) on a lenient or strict Cas (optionally constructed with "
    "sofa_string / sofa_mime / document_language, incl. the given-but-empty sofa_mime='' and document_language='') "
    "over <= 4 views and <= 6 handles: create_view / get_view through "
    "any live handle (incl. existing / missing names; about 40 % of the create_view calls pass an explicit xmiID and/or "
    "sofaNum: at, shortly above or below the shared generator's next value, so that later adds through any handle run "
    "the generator up to it), add (keep_id on/off, preset and colliding xmi ids, the same "
    "structure into several views or twice into one) and remove (incl. absent) of annotations, DocumentAnnotation "
    "and subtype instances, AnnotationBase and TOP structures and structures typed by ANOTHER TypeSystem (unknown "
    "name, dotless name 'Tok' whose short name matches t.Tok, same full name, its DocumentAnnotation), the four sofa "
    "setters/getters (text incl. empty, None, non-BMP), document_language get/set, get_covered_text with out-of-range, "
    "negative and None offsets, select_all. After EVERY step the state is observed through EVERY live handle (view "
    "name, sofa id/num/text/mime/uri/array, select_all, views, sofas, typesystem identity) and every structure's "
    "xmiID / sofa / language is read; leniency of each new handle is probed with a foreign structure; every id the "
    "CAS generates is compared with the ids of all sofas and of all indexed structures. In ~22 % of the cases the "
    "shared TypeSystem is extended DURING the history (create_type of t.Late below DocumentAnnotation, below its "
    "subtype t.Doc, or below Annotation; declaring the name twice): handles that already read / wrote the document "
    "language, the document annotation of the view removed, then an instance of the late type added through an old or "
    "a new handle of the view and the document language / index read through old and new handles. A case is "
    "non-trivial with >= 2 views, >= 3 handles and a mutation through a non-initial handle."
)
TRUSTED = [
    "Coq 8.16.1 kernel and vm_compute; theorems in Props/C08.v are closed under the global context",
    "hand-written model coq/Views.v of Cas.__init__/_copy/create_view/get_view/add/remove/select_all/"
    "get_document_annotation/document_language/sofa_* and FeatureStructure.get_covered_text: one shared store, "
    "a handle = (view name, lenient)",
    "correspondence harness: harness/props/C08.py drives the public API; harness/core.py compares inside Coq",
    "the index of a view is a bag here (order is C06/C07); select(DocumentAnnotation)[0] is modelled as the first "
    "indexed family instance: scenarios keep at most one DocumentAnnotation-family instance per view",
    "type-system facts are inputs: the names the CAS type system contains and the names of "
    "DocumentAnnotation.descendants (C10); a declaration during the history (Views.declare) adds the name to the first "
    "and, when its parent is in the second, to the second",
    "Python's slice semantics text[b:e] is used by the oracle as the reference for pyslice",
    "ghost log st_genlog of the model (ids generated, or explicit sofa ids accepted while free) is not observable",
]
ASSUMPTIONS = [
    "structures are not pointed at a sofa before their first add; scenario labels are below 1000 (labels from 1000 "
    "are the DocumentAnnotations the CAS creates itself)",
    "the CAS type system contains uima.tcas.DocumentAnnotation (always true: built-in)",
    "begin/end of a structure are not modified after it was indexed (remove looks the key up again)",
    "a type declared during the history has a declared parent, and its instances are created after the declaration",
    "explicit xmiID / sofaNum arguments of create_view are Python ints; one below the generator's next value is taken "
    "as it is and may repeat a number in use (theorem C08_stale_explicit_id_repeats): sofa ids / numbers are only "
    "required to be pairwise distinct in histories whose explicit numbers were all free when passed",
]

DOCANN = "uima.tcas.DocumentAnnotation"
TYPES = {
    "tok": (1, "t.Tok", True, True),
    "doc": (1, "t.Doc", True, True),
    "docann": (1, DOCANN, True, True),
    "meta": (1, "t.Meta", False, False),
    "base": (1, "t.Base", True, False),
    "bytes": (1, "uima.cas.ByteArray", False, False),
    "f_foreign": (2, "x.Foreign", True, True),
    "f_short": (2, "Tok", True, True),
    "f_same": (2, "t.Tok", True, True),
    "f_top": (2, "x.Top", False, False),
    "f_docann": (2, DOCANN, True, True),
    "late": (1, "t.Late", True, True),   # a type declared DURING the history (ops of kind "declare")
}
LATE = "t.Late"
TS1_NAMES = ["t.Tok", "t.Doc", "t.Meta", "t.Base", DOCANN, "uima.cas.ByteArray"]
FAMILY = [DOCANN, "t.Doc"]
TEXTS = ["", "abc", "hello world", "0123456789", "naïve \U0001d11e clef", "x", "The quick brown fox"]
VIEW_NAMES = ["v2", "v3", "other", "_InitialView", "V2", "missing"]
_TS = {}


def _fresh_ts1():
    from cassis import TypeSystem
    ts1 = TypeSystem()
    ts1.create_type("t.Tok", "uima.tcas.Annotation")
    ts1.create_type("t.Doc", DOCANN)
    ts1.create_type("t.Meta", "uima.cas.TOP")
    ts1.create_type("t.Base", "uima.cas.AnnotationBase")
    return ts1


def _typesystems():
    if not _TS:
        from cassis import TypeSystem
        ts1 = _fresh_ts1()
        ts2 = TypeSystem()
        ts2.create_type("x.Foreign", "uima.tcas.Annotation")
        ts2.create_type("Tok", "uima.tcas.Annotation")
        ts2.create_type("t.Tok", "uima.tcas.Annotation")
        ts2.create_type("x.Top", "uima.cas.TOP")
        _TS[1], _TS[2] = ts1, ts2
    return _TS[1], _TS[2]


# ------------------------------------------------------------------------------------------------ bookkeeping (oracle)


class Book:
    """What the history says the shared state must be; written from the property, not from the code."""

    def __init__(self, sc):
        self.lenient = sc["lenient"]
        self.views, self.order = {}, []
        self.next_id, self.next_sofa, self.next_auto = 1, 1, 1000
        self.fresh = True        # every explicit xmiID / sofaNum given to create_view was free when passed
        self.known_ids = set()   # ids the CAS has handed out or been told about
        self.ts_names, self.family = list(TS1_NAMES), list(FAMILY)   # the type system grows with "declare" ops
        self.objs = {}
        for i, o in enumerate(sc["objs"]):
            _ts, name, has_sofa, has_span = TYPES[o["t"]]
            self.objs[i] = {"type": name, "has_sofa": has_sofa, "has_span": has_span, "xid": o.get("xid"), "sofa": None,
                            "b": o.get("b"), "e": o.get("e"), "lang": o.get("lang")}
        self._new_view("_InitialView")
        self.handles = [["_InitialView", self.lenient]]
        c = sc["ctor"]
        if c.get("text") is not None:
            self.views["_InitialView"]["text"] = c["text"]
            self.views["_InitialView"]["mime"] = c["mime"] if c.get("mime") is not None else "text/plain"
        if c.get("lang") is not None:
            self.apply({"k": "set_lang", "h": 0, "v": c["lang"]})

    def _new_view(self, name, xid=None, num=None):
        # one id space / one sofa-number space: a number the caller chose is from then on used up like a generated one
        if xid is None:
            xid, self.next_id = self.next_id, self.next_id + 1
        elif xid >= self.next_id:
            self.next_id = xid + 1
        else:
            self.fresh = False
        if num is None:
            num, self.next_sofa = self.next_sofa, self.next_sofa + 1
        elif num >= self.next_sofa:
            self.next_sofa = num + 1
        else:
            self.fresh = False
        self.views[name] = {"xid": xid, "num": num, "text": None, "mime": None, "uri": None, "arr": None, "index": []}
        self.order.append(name)
        self.known_ids.add(xid)

    def family_in(self, view):
        return [o for o in self.views[view]["index"] if self.objs[o]["type"] in self.family]

    def usable(self, o):
        """a structure of a type that is declared during the history exists only from the declaration on"""
        return o in self.objs and (self.objs[o]["type"] != LATE or LATE in self.ts_names)

    def _add(self, h, o, keep):
        view, lenient = self.handles[h]
        ob = self.objs[o]
        if not lenient and ob["type"] not in self.ts_names:
            return ["err", "ERuntime"]
        if keep and ob["xid"] is not None:
            if ob["xid"] >= self.next_id:
                self.next_id = ob["xid"] + 1
        else:
            ob["xid"] = self.next_id
            self.next_id += 1
        self.known_ids.add(ob["xid"])
        if ob["has_sofa"]:
            ob["sofa"] = view
        self.views[view]["index"].append(o)
        return ["ok"]

    def _docann(self, h):
        view = self.handles[h][0]
        fam = self.family_in(view)
        if fam:
            return fam[0]
        d = self.next_auto
        self.next_auto += 1
        self.objs[d] = {"type": DOCANN, "has_sofa": True, "has_span": True, "xid": None, "sofa": None, "b": None,
                        "e": None, "lang": None}
        self._add(h, d, True)
        return d

    def apply(self, op):
        k = op["k"]
        if k == "covered":
            ob = self.objs[op["o"]]
            if not (ob["has_sofa"] and ob["has_span"]):
                return ["notimpl"]
            if ob["sofa"] is None:
                return ["nosofa"]
            text = self.views[ob["sofa"]]["text"]
            return ["text", None if text is None else text[ob["b"]:ob["e"]]]
        if k == "declare":
            # one type system for all views and handles: a type declared now is known to every handle from now on, and
            # a subtype of DocumentAnnotation (direct or not) counts as a document annotation from now on
            if op["name"] in self.ts_names:
                return ["err", "EValue"]
            self.ts_names.append(op["name"])
            if op["parent"] in self.family:
                self.family.append(op["name"])
            return ["ok"]
        h = op["h"]
        view = self.handles[h][0]
        v = self.views[view]
        if k == "create_view":
            if op["name"] in self.views:
                return ["err", "EValue"]
            self._new_view(op["name"], op.get("xid"), op.get("num"))
            self.handles.append([op["name"], self.handles[h][1]])
            return ["handle", len(self.handles) - 1]
        if k == "get_view":
            if op["name"] not in self.views:
                return ["err", "EKey"]
            self.handles.append([op["name"], self.handles[h][1]])
            return ["handle", len(self.handles) - 1]
        if k == "add":
            return self._add(h, op["o"], op["keep"])
        if k == "remove":
            if op["o"] not in v["index"]:
                return ["err", "EValue"]
            v["index"].remove(op["o"])
            return ["ok"]
        if k in ("set_text", "set_mime", "set_uri", "set_arr"):
            v[k[4:]] = op["v"]
            return ["ok"]
        if k == "get_text":
            return ["text", v["text"]]
        if k in ("get_mime", "get_uri"):
            return ["str", v[k[4:]]]
        if k == "get_arr":
            return ["arr", v["arr"]]
        if k == "select_all":
            return ["sel", sorted(v["index"])]
        if k == "get_lang":
            return ["str", self.objs[self._docann(h)]["lang"]]
        if k == "set_lang":
            self.objs[self._docann(h)]["lang"] = op["v"]
            return ["ok"]
        raise ValueError(k)

    def full(self):
        return {"handles": [list(h) for h in self.handles],
                "views": [[n, {"xid": self.views[n]["xid"], "num": self.views[n]["num"], "text": self.views[n]["text"],
                               "mime": self.views[n]["mime"], "uri": self.views[n]["uri"], "arr": self.views[n]["arr"],
                               "sel": sorted(self.views[n]["index"])}] for n in self.order],
                "names": [list(self.order), list(self.order)], "fresh": self.fresh,
                "objs": [[o, {"xid": self.objs[o]["xid"], "sofa": self.objs[o]["sofa"], "lang": self.objs[o]["lang"]}]
                         for o in sorted(self.objs)]}


# ------------------------------------------------------------------------------------------------ generator


def _rand_objs(rng):
    kinds = ["tok"] * 5 + ["doc", "docann", "meta", "base", "bytes", "f_foreign", "f_short", "f_same", "f_top", "f_docann"]
    objs = []
    for _ in range(rng.randint(2, 7)):
        t = rng.choice(kinds)
        o = {"t": t}
        if TYPES[t][3]:
            x = rng.random()
            if x < 0.6:
                b = rng.randint(0, 12)
                o["b"], o["e"] = b, b + rng.randint(0, 8)
            elif x < 0.8:
                o["b"], o["e"] = rng.randint(-14, 14), rng.randint(-14, 25)
            elif x < 0.9:
                o["b"], o["e"] = rng.choice([None, 2]), rng.choice([None, 5])
            else:
                o["b"], o["e"] = rng.randint(5, 40), rng.randint(0, 5)
        if rng.random() < 0.3:
            o["xid"] = rng.choice([1, 2, 3, 5, 9, 20])
        if t in ("doc", "docann", "f_docann") and rng.random() < 0.5:
            o["lang"] = rng.choice(["en", "de"])
        objs.append(o)
    return objs


def _rand_op(rng, book, sc, early=False):
    nh = len(book.handles)
    h = rng.randrange(nh)
    if rng.random() < 0.5 and nh > 1:
        h = rng.randrange(1, nh)
    view = book.handles[h][0]
    n_obj = len(sc["objs"])
    labels = list(book.objs)
    x = rng.random()
    if early and rng.random() < 0.65:
        x = rng.random() * 0.2
    if x < 0.10 and nh < 6:
        if len(book.views) < 4:
            name = rng.choice([n for n in VIEW_NAMES if n not in book.views and n != "missing"] or ["v9"])
        else:
            name = rng.choice(list(book.views))  # exists: ValueError
        if rng.random() < 0.15:
            name = rng.choice(list(book.views))
        return {"k": "create_view", "h": h, "name": name}
    if x < 0.20 and nh < 6:
        name = rng.choice(list(book.views)) if rng.random() < 0.85 else rng.choice(["missing", "V2", "nope"])
        if name in ("V2",) and name in book.views:
            name = "nope"
        return {"k": "get_view", "h": h, "name": name}
    if x < 0.42:
        o = rng.choice(labels)
        if book.objs[o]["type"] in FAMILY and book.family_in(view):
            o = rng.randrange(n_obj)
            if book.objs[o]["type"] in FAMILY:
                return {"k": "select_all", "h": h}
        return {"k": "add", "h": h, "o": o, "keep": rng.random() < 0.7}
    if x < 0.50:
        idx = book.views[view]["index"]
        o = rng.choice(idx) if idx and rng.random() < 0.8 else rng.choice(labels)
        return {"k": "remove", "h": h, "o": o}
    if x < 0.58:
        return {"k": "set_text", "h": h, "v": rng.choice(TEXTS + [None])}
    if x < 0.62:
        return {"k": "set_mime", "h": h, "v": rng.choice(["text/plain", "text/html", "", None])}
    if x < 0.66:
        return {"k": "set_uri", "h": h, "v": rng.choice(["file:///a.txt", "http://x/y", None])}
    if x < 0.70:
        arrs = [i for i in range(n_obj) if sc["objs"][i]["t"] == "bytes"]
        return {"k": "set_arr", "h": h, "v": rng.choice(arrs + [None]) if arrs else None}
    if x < 0.74:
        return {"k": rng.choice(["get_text", "get_mime", "get_uri", "get_arr"]), "h": h}
    if x < 0.78:
        return {"k": "select_all", "h": h}
    if x < 0.84:
        return {"k": "get_lang", "h": h}
    if x < 0.90:
        return {"k": "set_lang", "h": h, "v": rng.choice(["en", "de", "x-unspecified", None])}
    return {"k": "covered", "o": rng.choice(labels)}


def _scenario(rng, max_ops):
    sc = {"lenient": rng.random() < 0.45, "ctor": {"text": None, "mime": None, "lang": None}, "objs": _rand_objs(rng), "ops": []}
    if rng.random() < 0.4:
        sc["ctor"]["text"] = rng.choice(TEXTS)
        if rng.random() < 0.4:
            sc["ctor"]["mime"] = rng.choice(["text/html", "text/plain"])
    elif rng.random() < 0.1:
        sc["ctor"]["mime"] = "text/html"  # ignored without sofa_string
    if rng.random() < 0.25:
        sc["ctor"]["lang"] = rng.choice(["en", "fr"])
    book = Book(sc)
    for i in range(rng.randint(3, max_ops)):
        op = _rand_op(rng, book, sc, early=i < 3)
        sc["ops"].append(op)
        r = book.apply(op)
        if op["k"] == "add" and r == ["ok"] and book.objs[op["o"]]["has_span"] and rng.random() < 0.35:
            if book.views[book.handles[op["h"]][0]]["text"] is None and rng.random() < 0.7:
                t = {"k": "set_text", "h": rng.randrange(len(book.handles)), "v": rng.choice(TEXTS)}
                sc["ops"].append(t)
                book.apply(t)
            c = {"k": "covered", "o": op["o"]}
            sc["ops"].append(c)
            book.apply(c)
    return sc


def _explicit_ids(sub, sc):
    """create_view(name, xmiID=k, sofaNum=m): decorate the create_view calls of a finished scenario (ids do not influence
    which views, handles and index contents exist, so the scenario stays well formed) and, sometimes, let a few more
    structures be added through arbitrary handles so that the generator runs up to the explicit id."""
    book = Book(sc)
    touched = False
    for op in sc["ops"]:
        if op["k"] == "create_view" and sub.random() < 0.4:
            x = sub.random()
            if x < 0.75:
                op["xid"] = book.next_id + sub.choice([0, 1, 1, 2, 2, 3, 5])
            elif x < 0.9:
                op["xid"] = sub.choice([1, 2, 3, max(1, book.next_id - 1), 15])
            if x >= 0.9 or sub.random() < 0.3:
                op["num"] = sub.choice([book.next_sofa, book.next_sofa + 1, book.next_sofa + 2, 1, 7])
            touched = True
        book.apply(op)
    if touched and sub.random() < 0.6:
        plain = [o for o in range(len(sc["objs"])) if book.objs[o]["type"] not in FAMILY]
        for _ in range(sub.randint(1, 3) if plain else 0):
            op = {"k": "add", "h": sub.randrange(len(book.handles)), "o": sub.choice(plain), "keep": sub.random() < 0.25}
            sc["ops"].append(op)
            book.apply(op)
    return sc


def _replay(sc):
    book = Book(sc)
    for op in sc["ops"]:
        book.apply(op)
    return book


def _late_types(sub, sc):
    """Two widenings, drawn from a stream of their own so that the rest of the scenarios stays what it was.
    (1) constructor arguments that are given but falsy: sofa_mime="" next to a sofa_string, document_language="".
    (2) in ~22 % of the cases the (shared) type system is extended DURING the history: a "declare" event creates t.Late
    below DocumentAnnotation, below its subtype t.Doc or below Annotation - somewhere in the middle of the history or in
    a tail that first lets an existing handle read / write the document language of a view, then removes the document
    annotation of that view, declares the type, adds an instance through any (old or new) handle of the view and reads
    the document language / index through old and new handles.  Instances of t.Late are only used after the
    declaration; there is still at most one DocumentAnnotation-family instance per view."""
    c = sc["ctor"]
    if c.get("text") is not None and sub.random() < 0.2:
        c["mime"] = ""
    if c.get("lang") is not None and sub.random() < 0.15:
        c["lang"] = ""
    if sub.random() >= 0.22:
        return sc
    parent = sub.choice([DOCANN, DOCANN, "t.Doc", "uima.tcas.Annotation"])
    decl = {"k": "declare", "name": LATE, "parent": parent}
    late = []
    for _ in range(sub.randint(1, 2)):
        b = sub.randint(0, 6)
        o = {"t": "late", "b": b, "e": b + sub.randint(0, 5)}
        if sub.random() < 0.25:
            o["xid"] = sub.choice([2, 5, 9, 20])
        if parent in FAMILY and sub.random() < 0.75:
            o["lang"] = sub.choice(["en", "de", "nl"])
        sc["objs"].append(o)
        late.append(len(sc["objs"]) - 1)
    early = sub.random() < 0.4
    if early:
        sc["ops"].insert(sub.randint(0, len(sc["ops"])), dict(decl))
    book = _replay(sc)

    def emit(op):
        sc["ops"].append(op)
        return book.apply(op)

    def on(view):
        return sub.choice([i for i, h in enumerate(book.handles) if h[0] == view])

    def lang_op(view):
        if sub.random() < 0.6:
            return {"k": "get_lang", "h": on(view)}
        return {"k": "set_lang", "h": on(view), "v": sub.choice(["en", "fr", None])}

    view = sub.choice(book.order)
    for _ in range(sub.choice([0, 1, 1, 2])):
        emit(lang_op(view))
    for o in list(book.family_in(view)):
        if sub.random() < 0.9:
            emit({"k": "remove", "h": on(view), "o": o})
    if not early:
        emit(dict(decl))
    if sub.random() < 0.5 and len(book.handles) < 6:
        emit({"k": "get_view", "h": sub.randrange(len(book.handles)), "name": view})
    for n, o in enumerate(late):
        target = view if n == 0 else sub.choice(book.order)
        if LATE in book.family and book.family_in(target):
            free = [v for v in book.order if not book.family_in(v)]
            if not free:
                continue
            target = sub.choice(free)
        emit({"k": "add", "h": on(target), "o": o, "keep": sub.random() < 0.7})
        if sub.random() < 0.4:
            emit({"k": "covered", "o": o})
    for _ in range(sub.randint(1, 3)):
        x = sub.random()
        if x < 0.7:
            emit(lang_op(view))
        elif x < 0.85:
            emit({"k": "select_all", "h": on(view)})
        else:
            emit(lang_op(sub.choice(book.order)))
    if sub.random() < 0.1:
        emit(dict(decl))          # the name exists: ValueError
    return sc


def generate(rng, tier):
    n, max_ops = {"quick": (1000, 14), "thorough": (5000, 24), "search": (4000, 16)}[tier]
    # separate streams for the decorations: everything else of the scenarios is what it was without them
    sub = random.Random("C08-explicit-ids-%r" % (rng.getstate()[1][:6],))
    sub2 = random.Random("C08-late-types-%r" % (rng.getstate()[1][:6],))
    for _ in range(n):
        yield _late_types(sub2, _explicit_ids(sub, _scenario(rng, max_ops)))


# ------------------------------------------------------------------------------------------------ implementation


def _errkind(e):
    n = type(e).__name__
    if n == "AnnotationHasNoSofa":
        return ["nosofa"]
    if n == "NotImplementedError":
        return ["notimpl"]
    return ["err", {"ValueError": "EValue", "KeyError": "EKey", "RuntimeError": "ERuntime", "AttributeError": "EAttribute",
                    "TypeError": "EType", "IndexError": "EIndex"}.get(n, "E:" + n)]


def run_impl(cassis, sc):
    from cassis import Cas
    ts1, ts2 = _typesystems()
    if any(op["k"] == "declare" for op in sc["ops"]):
        ts1 = _fresh_ts1()        # this history extends the type system: it gets one of its own
    tss = {1: ts1, 2: ts2}
    c = sc["ctor"]
    cas = Cas(typesystem=ts1, lenient=sc["lenient"], sofa_string=c.get("text"), sofa_mime=c.get("mime"),
              document_language=c.get("lang"))
    handles = [cas]
    objs = {}

    def make(i):
        o = sc["objs"][i]
        tsn, name, _hs, has_span = TYPES[o["t"]]
        kw = {}
        if has_span:
            kw["begin"], kw["end"] = o.get("b"), o.get("e")
        if o.get("lang") is not None:
            kw["language"] = o["lang"]
        fs = tss[tsn].get_type(name)(**kw)
        if o.get("xid") is not None:
            fs.xmiID = o["xid"]
        objs[i] = fs
        label[id(fs)] = i

    label = {}
    for i, o in enumerate(sc["objs"]):
        if o["t"] == "late":
            objs[i] = None        # instantiated when its type is declared
        else:
            make(i)
    auto = [1000]

    def lab(fs):
        if fs is None:
            return None
        if id(fs) not in label:
            label[id(fs)] = auto[0]
            objs[auto[0]] = fs
            auto[0] += 1
        return label[id(fs)]

    def probe(h):
        p = ts2.get_type("x.Foreign")(begin=0, end=0)
        p.xmiID = 0
        try:
            h.add(p)
        except RuntimeError:
            return False
        h.remove(p)
        return True

    leniency = [probe(cas)]

    def observe():
        per = []
        for h in handles:
            s = h.get_sofa()
            per.append({"view": s.sofaID, "xid": s.xmiID, "num": s.sofaNum, "text": h.sofa_string, "mime": h.sofa_mime,
                        "uri": h.sofa_uri, "arr": lab(h.sofa_array), "sel": sorted(lab(f) for f in h.select_all()),
                        "views": [v.sofa.sofaID for v in h.views],
                        "sofas": [[x.sofaID, x.xmiID, x.sofaNum, x.sofaString, x.mimeType] for x in h.sofas],
                        "ts_shared": h.typesystem is ts1})
        ob = []
        for o in sorted(objs):
            fs = objs[o]
            if fs is None:
                ob.append([o, {"xid": sc["objs"][o].get("xid"), "sofa": None, "lang": sc["objs"][o].get("lang")}])
                continue
            sofa = getattr(fs, "sofa", None)
            ob.append([o, {"xid": fs.xmiID, "sofa": None if sofa is None else sofa.sofaID,
                           "lang": getattr(fs, "language", None)}])
        return {"per": per, "objs": ob, "lenient": list(leniency)}

    snaps = [observe()]
    results = []
    for op in sc["ops"]:
        k = op["k"]
        if op.get("o") is not None and objs.get(op["o"]) is None:
            # a structure the history says the CAS created itself was never seen through any handle
            results.append(["unseen_structure", op["o"]])
            snaps.append(observe())
            continue
        try:
            if k == "covered":
                r = ["text", objs[op["o"]].get_covered_text()]
            elif k == "declare":
                ts1.create_type(op["name"], supertypeName=op["parent"])
                for i, o in enumerate(sc["objs"]):
                    if o["t"] == "late" and objs[i] is None:
                        make(i)
                r = ["ok"]
            else:
                h = handles[op["h"]]
                if k == "create_view":
                    handles.append(h.create_view(op["name"], xmiID=op.get("xid"), sofaNum=op.get("num")))
                    leniency.append(probe(handles[-1]))
                    r = ["handle", len(handles) - 1]
                elif k == "get_view":
                    handles.append(h.get_view(op["name"]))
                    leniency.append(probe(handles[-1]))
                    r = ["handle", len(handles) - 1]
                elif k == "add":
                    h.add(objs[op["o"]], keep_id=op["keep"])
                    r = ["ok"]
                elif k == "remove":
                    h.remove(objs[op["o"]])
                    r = ["ok"]
                elif k == "set_text":
                    h.sofa_string = op["v"]
                    r = ["ok"]
                elif k == "set_mime":
                    h.sofa_mime = op["v"]
                    r = ["ok"]
                elif k == "set_uri":
                    h.sofa_uri = op["v"]
                    r = ["ok"]
                elif k == "set_arr":
                    h.sofa_array = None if op["v"] is None else objs[op["v"]]
                    r = ["ok"]
                elif k == "get_text":
                    r = ["text", h.sofa_string]
                elif k == "get_mime":
                    r = ["str", h.sofa_mime]
                elif k == "get_uri":
                    r = ["str", h.sofa_uri]
                elif k == "get_arr":
                    r = ["arr", lab(h.sofa_array)]
                elif k == "select_all":
                    r = ["sel", sorted(lab(f) for f in h.select_all())]
                elif k == "get_lang":
                    r = ["str", h.document_language]
                elif k == "set_lang":
                    h.document_language = op["v"]
                    r = ["ok"]
                else:
                    raise ValueError(k)
        except Exception as e:  # noqa
            r = _errkind(e)
        results.append(r)
        snaps.append(observe())
    final_lenient = [probe(h) for h in handles]
    return {"results": results, "snaps": snaps, "final_lenient": final_lenient}


# ------------------------------------------------------------------------------------------------ oracle


def _check_snapshot(book, snap, where):
    full = book.full()
    views = dict((n, v) for n, v in full["views"])
    if len(snap["per"]) != len(full["handles"]):
        return f"handle_count: {where}: {len(snap['per'])} live handles, history says {len(full['handles'])}"
    for k, (got, (vname, lenient)) in enumerate(zip(snap["per"], full["handles"])):
        if got["view"] != vname:
            return f"handle_view: {where}: handle {k} works on view {got['view']!r}, history says {vname!r}"
        want = views[vname]
        for f in ("xid", "num", "text", "mime", "uri", "arr", "sel"):
            if got[f] != want[f]:
                return (f"handle_state_{f}: {where}: handle {k} on view {vname!r} shows {f}={got[f]!r}, "
                        f"the history (through all handles of that view) gives {want[f]!r}")
        if got["views"] != full["names"][0] or [x[0] for x in got["sofas"]] != full["names"][1]:
            return f"handle_views_list: {where}: handle {k} lists views {got['views']} sofas {[x[0] for x in got['sofas']]}, expected {full['names'][0]}"
        for x in got["sofas"]:
            w = views[x[0]]
            if x[1:] != [w["xid"], w["num"], w["text"], w["mime"]]:
                return f"handle_sofas: {where}: handle {k} sees sofa {x[0]!r} as {x[1:]}, expected {[w['xid'], w['num'], w['text'], w['mime']]}"
        if not got["ts_shared"]:
            return f"typesystem_not_shared: {where}: handle {k}"
        if snap["lenient"][k] != lenient:
            return f"leniency: {where}: handle {k} is {'lenient' if snap['lenient'][k] else 'strict'}, the CAS is {'lenient' if lenient else 'strict'}"
    if snap["objs"] != full["objs"]:
        for (o, got), (o2, want) in zip(snap["objs"], full["objs"]):
            if o != o2 or got != want:
                return f"structure_state: {where}: structure {o} has {got}, expected {o2}: {want}"
        return f"structure_count: {where}: structures seen {[o for o, _ in snap['objs']]}, expected {[o for o, _ in full['objs']]}"
    sofa_ids = [x[1] for x in snap["per"][0]["sofas"]]
    sofa_nums = [x[2] for x in snap["per"][0]["sofas"]]
    if full["fresh"] and (len(set(sofa_ids)) != len(sofa_ids) or len(set(sofa_nums)) != len(sofa_nums)):
        return f"sofa_ids_not_distinct: {where}: {sofa_ids} {sofa_nums}"
    return None


def _id_space(sc, obs):
    """'All views share one id space', read off the observations alone: an id the CAS gives to a structure in some
    step (the structure's xmiID changed, or the CAS created the structure) is the id of no sofa — generated or passed
    to create_view — and of no other structure held by the index of any view."""
    for i, op in enumerate(sc["ops"]):
        before, after = obs["snaps"][i], obs["snaps"][i + 1]
        old = dict((o, st["xid"]) for o, st in before["objs"])
        now = dict((o, st["xid"]) for o, st in after["objs"])
        indexed = set()
        for got in after["per"]:
            indexed.update(got["sel"])
        for o, xid in now.items():
            if xid is None or old.get(o) == xid:
                continue
            where = f"op {i} {json.dumps(op)}"
            for name, sid in [(x[0], x[1]) for x in after["per"][0]["sofas"]]:
                if sid == xid:
                    return (f"id_shared_with_sofa: {where}: structure {o} was given id {xid}, which is the id of the "
                            f"sofa of view {name!r}")
            for o2 in sorted(indexed):
                if o2 != o and now.get(o2) == xid:
                    return f"id_shared_with_structure: {where}: structure {o} was given id {xid}, the id of indexed structure {o2}"
    return None


def oracle(cassis, sc, obs):
    book = Book(sc)
    msg = _check_snapshot(book, obs["snaps"][0], "after construction")
    if msg:
        return msg
    msg = _id_space(sc, obs)
    if msg:
        return msg
    for i, (op, got) in enumerate(zip(sc["ops"], obs["results"])):
        generated_before = book.next_id
        held = set(book.known_ids)
        want = book.apply(op)
        where = f"op {i} {json.dumps(op)}"
        if got != want:
            late = any(o["k"] == "declare" for o in sc["ops"][:i]) and op["k"] in ("get_lang", "set_lang", "add")
            return (f"result_{op['k']}: {where}: expected {want}, got {got}" +
                    (" [a type was declared during the history before this call]" if late else ""))
        msg = _check_snapshot(book, obs["snaps"][i + 1], where)
        if msg:
            if (msg.split(":")[0] in ("handle_state_xid", "handle_state_num", "handle_sofas", "structure_state", "sofa_ids_not_distinct")
                    and any(o.get("xid") is not None or o.get("num") is not None for o in sc["ops"][:i + 1])):
                msg += (" [an explicit xmiID / sofaNum was passed to create_view before: both shared generators must "
                        "from then on stay above it]")
            if any(o["k"] == "declare" for o in sc["ops"][:i + 1]):
                msg += (" [a type was declared during the history: the type system is shared, from then on every handle "
                        "knows the type and counts a DocumentAnnotation subtype as a document annotation]")
            return msg
        # an id generated in this step is one no sofa and no structure held before (one generator for all handles)
        if book.next_id == generated_before + 1 and generated_before in held and not (op["k"] == "add" and op["keep"]):
            return f"id_reused: {where}: generated id {generated_before} was already in use"
    want_l = [h[1] for h in book.handles]
    if obs["final_lenient"] != want_l:
        return f"leniency: at the end handles are {obs['final_lenient']}, expected {want_l}"
    return None


# ------------------------------------------------------------------------------------------------ rendering


def _gtext(s):
    if s is None:
        return "None"
    if all(32 <= ord(ch) < 127 for ch in s):
        return f"(Some (T {gstr(s)}))"
    return "(Some " + glist([gn(ord(ch)) for ch in s]) + ")"


def _gostr(s):
    return gopt(s, gstr)


def _gvobs(v):
    return (f"(mkVobs {gz(v['xid'])} {gz(v['num'])} {_gtext(v['text'])} {_gostr(v['mime'])} {_gostr(v['uri'])} "
            f"{gopt(v['arr'], gn)} {glist([gz(x) for x in v['sel']])})")


def _goobs(o):
    return f"(mkOobs {gopt(o['xid'], gz)} {_gostr(o['sofa'])} {_gostr(o['lang'])})"


def _canonical_full(snap):
    """Per-view observation taken from the first handle on each view; names from handle 0."""
    views = {}
    for got in snap["per"]:
        views.setdefault(got["view"], {f: got[f] for f in ("xid", "num", "text", "mime", "uri", "arr", "sel")})
    names = snap["per"][0]["views"]
    ordered = [[n, views[n]] for n in names if n in views] + [[n, v] for n, v in views.items() if n not in names]
    return {"handles": [[got["view"], l] for got, l in zip(snap["per"], snap["lenient"])],
            "views": ordered, "names": [snap["per"][0]["views"], [x[0] for x in snap["per"][0]["sofas"]]],
            "objs": snap["objs"]}


def _gdelta(prev, cur):
    ph = prev["handles"] if prev else []
    handles = cur["handles"][len(ph):]
    pv = dict((n, v) for n, v in prev["views"]) if prev else {}
    views = [[n, v] for n, v in cur["views"] if pv.get(n) != v]
    names = None if prev and prev["names"] == cur["names"] else cur["names"]
    po = dict((o, v) for o, v in prev["objs"]) if prev else {}
    objs = [[o, v] for o, v in cur["objs"] if po.get(o) != v]
    gh = glist([f"({gstr(n)}, {gbool(l)})" for n, l in handles])
    gv = glist([f"({gstr(n)}, {_gvobs(v)})" for n, v in views])
    gnm = "None" if names is None else f"(Some ({glist([gstr(x) for x in names[0]])}, {glist([gstr(x) for x in names[1]])}))"
    go = glist([f"({gn(o)}, {_goobs(v)})" for o, v in objs])
    return f"(mkDelta {gh} {gv} {gnm} {go})"


def _gop(op):
    k = op["k"]
    if k == "declare":
        return f"(EDeclare {gstr(op['name'])} {gstr(op['parent'])})"
    return f"(EOp {_gop1(op)})"


def _gop1(op):
    k = op["k"]
    if k == "covered":
        return f"(OCovered {gn(op['o'])})"
    h = gnat(op["h"])
    if k == "create_view":
        return f"(OCreateView {h} {gstr(op['name'])} {gopt(op.get('xid'), gz)} {gopt(op.get('num'), gz)})"
    if k == "get_view":
        return f"(OGetView {h} {gstr(op['name'])})"
    if k == "add":
        return f"(OAdd {h} {gn(op['o'])} {gbool(op['keep'])})"
    if k == "remove":
        return f"(ORemove {h} {gn(op['o'])})"
    if k == "set_text":
        return f"(OSetText {h} {_gtext(op['v'])})"
    if k == "set_mime":
        return f"(OSetMime {h} {_gostr(op['v'])})"
    if k == "set_uri":
        return f"(OSetUri {h} {_gostr(op['v'])})"
    if k == "set_arr":
        return f"(OSetArr {h} {gopt(op['v'], gn)})"
    if k == "set_lang":
        return f"(OSetLang {h} {_gostr(op['v'])})"
    return {"get_text": "OGetText", "get_mime": "OGetMime", "get_uri": "OGetUri", "get_arr": "OGetArr",
            "select_all": "OSelectAll", "get_lang": "OGetLang"}[k].join(["(", f" {h})"])


def _gres(r):
    k = r[0]
    if k == "ok":
        return "ObUnit"
    if k == "handle":
        return f"(ObHandle {gnat(r[1])})"
    if k == "err":
        kind = r[1] if r[1] in ("EValue", "EKey", "ERuntime", "EAttribute", "EType", "EIndex") else "EDupId"
        return f"(ObErr {kind})"
    if k == "nosofa":
        return "ObNoSofa"
    if k == "notimpl":
        return "ObNotImpl"
    if k == "text":
        return f"(ObText {_gtext(r[1])})"
    if k == "str":
        return f"(ObStr {_gostr(r[1])})"
    if k == "arr":
        return f"(ObArr {gopt(r[1], gn)})"
    if k == "sel":
        return f"(ObSel {glist([gn(x) for x in r[1]])})"
    raise ValueError(k)


def render(sc, obs):
    if any(r[0] == "unseen_structure" for r in obs["results"]):
        return None
    for snap in obs["snaps"]:
        for got in snap["per"]:
            for f in ("text", "mime", "uri"):
                if got[f] is not None and not isinstance(got[f], str):
                    return None
    heap = []
    for i, o in enumerate(sc["objs"]):
        _ts, name, has_sofa, has_span = TYPES[o["t"]]
        heap.append(f"({gn(i)}, mkFs {gstr(name)} {gbool(has_sofa)} {gbool(has_span)} {gopt(o.get('xid'), gz)} None "
                    f"{gopt(o.get('b'), gz)} {gopt(o.get('e'), gz)} {_gostr(o.get('lang'))})")
    c = sc["ctor"]
    ctor = f"(mkCtor {gbool(sc['lenient'])} {_gtext(c.get('text'))} {_gostr(c.get('mime'))} {_gostr(c.get('lang'))})"
    ts = f"(mkTs {glist([gstr(x) for x in TS1_NAMES])} {glist([gstr(x) for x in FAMILY])})"
    fulls = [_canonical_full(s) for s in obs["snaps"]]
    steps = []
    for i, (op, r) in enumerate(zip(sc["ops"], obs["results"])):
        steps.append(f"({_gop(op)}, {_gres(r)}, {_gdelta(fulls[i], fulls[i + 1])})")
    return f"mkCase {ts} {ctor} {glist(heap)} {_gdelta(None, fulls[0])} {glist(steps)}"


# ------------------------------------------------------------------------------------------------ evidence, shrinking


def nontrivial(sc):
    book = Book(sc)
    mutated = False
    for op in sc["ops"]:
        if op["k"] in ("add", "set_text", "set_lang", "set_mime", "remove") and op.get("h", 0) > 0:
            mutated = True
        book.apply(op)
    return len(book.views) >= 2 and len(book.handles) >= 3 and mutated


def _valid(sc):
    try:
        book = Book(sc)
        for op in sc["ops"]:
            if "h" in op and op["h"] >= len(book.handles):
                return False
            if op.get("o") is not None and not book.usable(op["o"]):
                return False
            if op["k"] == "set_arr" and op["v"] is not None and op["v"] not in book.objs:
                return False
            book.apply(op)
        return True
    except (KeyError, IndexError):
        return False


def shrink_candidates(sc):
    for c in _shrink_candidates(sc):
        if _valid(c):
            yield c


def _shrink_candidates(sc):
    ops = sc["ops"]
    for n in range(len(ops) - 1, 0, -1):
        c = json.loads(json.dumps(sc))
        c["ops"] = ops[:n]
        yield c
    for i, op in enumerate(ops):
        if op["k"] in ("create_view", "get_view"):
            continue
        c = json.loads(json.dumps(sc))
        del c["ops"][i]
        yield c
    if sc["ctor"]["text"] is not None or sc["ctor"]["lang"] is not None:
        c = json.loads(json.dumps(sc))
        c["ctor"] = {"text": None, "mime": None, "lang": None}
        yield c
    last = len(sc["objs"]) - 1
    if last >= 1 and not any(op.get("o") == last or (op["k"] == "set_arr" and op.get("v") == last) for op in ops):
        c = json.loads(json.dumps(sc))
        c["objs"].pop()
        yield c


_book_after = _replay


def _late_after_query(sc):
    """a handle read / wrote the document language before the type was declared, and does so again while an instance
    of the late subtype is the indexed document annotation of its view"""
    book = Book(sc)
    queried, hit = set(), False
    for op in sc["ops"]:
        if op["k"] in ("get_lang", "set_lang"):
            if LATE not in book.ts_names:
                queried.add(op["h"])
            elif op["h"] in queried and any(book.objs[o]["type"] == LATE for o in book.family_in(book.handles[op["h"]][0])):
                hit = True
        book.apply(op)
    return hit


def _passed_explicit(sc):
    """an explicit sofa id k above the generator's next value n, followed by at least k - n + 1 generated ids: had the
    generator not been moved past k it would have handed k out again"""
    book = Book(sc)
    marks = []
    for op in sc["ops"]:
        if op["k"] == "create_view" and op.get("xid") is not None and op["xid"] >= book.next_id and op["name"] not in book.views:
            marks.append([op["xid"] - book.next_id + 1, 0])
            book.apply(op)
            continue
        before, known = book.next_id, len(book.known_ids)
        book.apply(op)
        if book.next_id == before + 1 and before in book.known_ids and len(book.known_ids) == known + 1:
            for m in marks:
                m[1] += 1
    return any(n >= gap for gap, n in marks)


def signature(sc, msg):
    return {"what": msg.split(":")[0] if msg else ""}


def distribution(scenarios, observations):
    kinds = {}
    for s in scenarios:
        for op in s["ops"]:
            kinds[op["k"]] = kinds.get(op["k"], 0) + 1
    nviews, nhandles, errs = [], [], 0
    for s, o in zip(scenarios, observations):
        if not o:
            continue
        nviews.append(len(o["snaps"][-1]["per"][0]["views"]))
        nhandles.append(len(o["snaps"][-1]["per"]))
        errs += sum(1 for r in o["results"] if r[0] in ("err", "nosofa", "notimpl"))
    return {"cases": len(scenarios), "lenient": sum(1 for s in scenarios if s["lenient"]),
            "operations": sum(len(s["ops"]) for s in scenarios), "by_kind": kinds,
            "max_views": max(nviews or [0]), "max_handles": max(nhandles or [0]),
            "cases_with_3plus_handles": sum(1 for n in nhandles if n >= 3), "operations_raising": errs,
            "create_view_explicit_xmiID": sum(1 for s in scenarios for op in s["ops"] if op.get("xid") is not None),
            "create_view_explicit_sofaNum": sum(1 for s in scenarios for op in s["ops"] if op.get("num") is not None),
            "cases_generator_passed_explicit_id": sum(1 for s in scenarios if _passed_explicit(s)),
            "cases_with_stale_explicit_number": sum(1 for s in scenarios if not _book_after(s).fresh),
            "constructor_empty_mime": sum(1 for s in scenarios if s["ctor"].get("mime") == "" and s["ctor"].get("text") is not None),
            "constructor_empty_language": sum(1 for s in scenarios if s["ctor"].get("lang") == ""),
            "cases_declaring_a_type": sum(1 for s in scenarios if any(op["k"] == "declare" for op in s["ops"])),
            "adds_of_late_type": sum(1 for s in scenarios for op in s["ops"] if op["k"] == "add" and op["o"] < len(s["objs"])
                                     and s["objs"][op["o"]]["t"] == "late"),
            "cases_late_subtype_read_through_earlier_handle": sum(1 for s in scenarios if _late_after_query(s)),
            "foreign_adds": sum(1 for s in scenarios for op in s["ops"] if op["k"] == "add" and op["o"] < len(s["objs"])
                                and s["objs"][op["o"]]["t"].startswith("f_"))}


MANIFEST = {
    "level_text": "Machine-checked proof (Coq 8.16) over an executable model of the shared store behind all view handles of a "
                  "Cas (the _views and _sofas dicts, the Sofa objects, the two id generators, the structures) and of a handle "
                  "as (view name, lenient): for all histories of create_view/get_view/add/remove/sofa setters/"
                  "document_language/get_covered_text and all handles — handles on one view are interchangeable, every "
                  "handle inherits the leniency, one sofa per view, sofa fields read back as last written through any handle, "
                  "operations on one view never change another, one id space (an id given to create_view(name, xmiID=k) included: "
                  "the shared generator is moved past it and never hands it out), the document annotation is created once, "
                  "covered text is the Python slice of the text of the view of the last add, a strict handle refuses "
                  "unknown type names; the constructor's sofa_string / sofa_mime are writes like any other (any given MIME type, '' "
                  "included); the type system may grow during the history and an instance of a DocumentAnnotation subtype "
                  "declared after handles were obtained and used is found through every one of them; the model is tied to /repo on every run by evaluating it inside Coq on the histories "
                  "the implementation was run on, with the state observed through every live handle after every step.",
    "level_note": "Trusted: Coq kernel + vm_compute; hand-written model coq/Views.v; harness driving the public API and rendering "
                  "cases; index as a bag (order is C06/C07); at most one DocumentAnnotation-family instance per view in "
                  "scenarios; type-system facts (contained names, DocumentAnnotation descendants) are inputs. "
                  "Print Assumptions: closed under the global context.",
    "technique": "Coq proof (invariants over all histories) over an executable Gallina model + in-Coq behavioural correspondence "
                 "on random interleavings + independent bookkeeping oracle",
    "design_ref": "DESIGN.md section 5, C08",
}
