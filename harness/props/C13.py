"""C13 — merge_typesystems follows the UIMA merge rules, is order-independent and pure.

Scenario IR (JSON-able):
  {"inputs": [[op...], ...], "runs": [exp...], "fam": family tag}
  op  := ["t", name, supertype] | ["f", domain, feature, range, element|None]     (public API: create_type / create_feature)
         | ["nodoc"] as the first op: the input starts as TypeSystem(add_document_annotation_type=False)
  exp := [item...] meaning merge_typesystems(*items); item := int (input number, built fresh for every call) | exp
The first run is the tuple in the given order; the others are its permutations and groupings.
"""
import itertools
import json

from harness.gallina import gbool, glist, gn, gnat, gopt, gstr
from harness.props.tscommon import BUILTIN_FEATURES, BUILTIN_TREE, err_kind

ID = "C13"
COQ_TARGETS = ["TS.vo", "TSProofs.vo", "Merge.vo", "MergeProofs.vo", "MergeProofs2.vo", "MergeProofs3.vo", "MergeProofs4.vo", "MergeProofs5.vo", "RefutedC13.vo", "CorrC13.vo", "Props/C13.vo"]
PROPS_FILE = "Props/C13.v"
CORR_IMPORTS = "Base TS Merge CorrC13"
OPEN_SCOPES = []
ENTRY = "cassis.typesystem.merge_typesystems"
CASE_TIMEOUT_S = 5
SEARCH_BUDGET_S = 60
CASES_PER_SHARD = 60
SHARD_BYTES = 60_000
RULE = (
    "quick: every unordered pair (both argument orders as two runs of one case) of the type systems over the pool "
    "{my.pkg.Token, Token, a.B} with supertypes among {Annotation, the other pool names} (hierarchy only), a structured family of "
    "three-level chains in which the second input re-parents a type below an intermediate ancestor that declares a feature "
    "(feature agreeing / differing in range / differing in FSArray element type; the same with element types - same, absent = TOP, "
    "different - on ranges that are not FSArray: FSList and a plain type range), and seeded random pairs and triples over a pool of "
    "five names with features f, g in ranges String / Integer / FSArray[element] / FSList[element] / pool type (with and without "
    "element type) (triples: all 6 orders and 3 groupings); "
    "thorough: the exhaustive family also with TOP as supertype and one feature in two ranges (sampled pairs), all triples of a "
    "small family, more random cases. A case is non-trivial when some type is declared with two different supertypes or some "
    "feature name is declared twice on what becomes one inheritance chain."
)
TRUSTED = [
    "Coq 8.16.1 kernel and vm_compute; theorems in Props/C13.v are closed under the global context",
    "hand-written model coq/Merge.v of merge_typesystems on top of coq/TS.v (Type, Feature, TypeSystem)",
    "correspondence harness: harness/props/C13.py builds the inputs through the public API for every call, harness/core.py compares inside Coq",
    "object identity (no object of an input reachable from the result; inputs unmodified) is observed with `is` on the implementation; "
    "the model carries it as a ghost log of owner tags rewritten by the fix-up loop",
    "list.remove(t) removes the first declaration == t (Type.__eq__); the model removes the processed declaration itself "
    "(indistinguishable when descriptions and multipleReferencesAllowed flags do not differ, which the property excludes)",
    "the built-in type system of the oracle is written by hand in harness/props/tscommon.py",
]
ASSUMPTIONS = [
    "inputs are built through create_type / create_feature on TypeSystem() (so they carry uima.tcas.DocumentAnnotation)",
    "declarations of one feature differ, if at all, in range or element type (not only in description or multipleReferencesAllowed)",
    "order independence is claimed only under the property's side condition: every supertype competing for a type, and every "
    "pool type above it, is declared with one and the same supertype by every input that declares it",
]

ANN = "uima.tcas.Annotation"
TOP = "uima.cas.TOP"
DOC = "uima.tcas.DocumentAnnotation"
STR = "uima.cas.String"
INT = "uima.cas.Integer"
FSA = "uima.cas.FSArray"
FSL = "uima.cas.FSList"
ANB = "uima.cas.AnnotationBase"
PREDEF = {n for n, _ in BUILTIN_TREE} - {DOC}
BUILTIN_SUP = dict(BUILTIN_TREE)
BUILTIN_OWN = {}
for _dom, _n, _r, _e, _m in BUILTIN_FEATURES:
    BUILTIN_OWN.setdefault(_dom, {})[_n] = (_r, _e or TOP)


# ---------------------------------------------------------------------------------------------- scenario helpers
def decls_of(ops):
    """user declarations of one input: name -> [supertype, {feature: (range, element or TOP)}] (DocumentAnnotation included)"""
    d = {} if (ops and ops[0][0] == "nodoc") else {DOC: [ANN, {"language": (STR, TOP)}]}
    for op in ops:
        if op[0] == "nodoc":
            continue
        if op[0] == "t":
            d[op[1]] = [op[2], {}]
        else:
            d[op[1]][1].setdefault(op[2], (op[3], op[4] or TOP))
    return d


def items_of(exp):
    out = []
    for it in exp:
        out.extend(items_of(it) if isinstance(it, list) else [it])
    return out


def perms_and_groupings(n):
    if n == 0:
        return [[]]
    runs = [list(p) for p in itertools.permutations(range(n))]
    if n == 3:
        runs += [[[0, 1], 2], [0, [1, 2]], [[0, 2], 1]]
    return runs


def ops_from_decl(decl, order):
    """decl: name -> (sup, [(fname, range, elem)...]); creation in `order` (a valid dependency order)"""
    ops = []
    for n in order:
        ops.append(["t", n, decl[n][0]])
    for n in order:
        for f, r, e in decl[n][1]:
            ops.append(["f", n, f, r, e])
    return ops


def dep_order(decl, names, rng=None):
    """a dependency order of the declared names (pool order, or random among the valid ones)"""
    done, out = set(), []
    todo = [n for n in names if n in decl]
    while todo:
        ready = [n for n in todo if decl[n][0] not in decl or decl[n][0] in done]
        if not ready:
            return None
        n = ready[0] if rng is None else rng.choice(ready)
        out.append(n)
        done.add(n)
        todo.remove(n)
    return out


# ---------------------------------------------------------------------------------------------- generators
P3 = ["my.pkg.Token", "Token", "a.B"]
P5 = ["my.pkg.Token", "Token", "a.B", "a.C", "q.D"]


def hier_family(pool, extra_parents, feats=((),)):
    fam = []
    opts = []
    for n in pool:
        opts.append([None] + [p for p in extra_parents + pool if p != n])
    for sups in itertools.product(*opts):
        names = [n for n, s in zip(pool, sups) if s is not None]
        decl0 = {n: s for n, s in zip(pool, sups) if s is not None}
        if any(s in pool and s not in decl0 for s in decl0.values()):
            continue
        for fs in itertools.product(feats, repeat=len(names)):
            decl = {n: (decl0[n], list(f)) for n, f in zip(names, fs)}
            order = dep_order(decl, pool)
            if order is None:
                continue
            drop_internal_conflicts(decl)
            ops = ops_from_decl(decl, order)
            if ops not in fam:
                fam.append(ops)
    return fam


def chain_family():
    """A<Ann, B<A (f), C<B (g) in both inputs; X is declared below one level in the first input and below a deeper one in the
    second, so that re-parenting skips intermediate ancestors that declare features; X (or a child Y of X) may own f itself."""
    R = [(STR, None), (INT, None), (FSA, None), (FSA, "a.A"), (FSA, TOP)]
    out = []
    for p1 in (ANN, "a.A", "a.B"):
        for p2 in ("a.A", "a.B", "a.C"):
            for bf in (0, 3):
                for xf in (None, 0, 1, 3, 4):
                    for where in ("X", "Y"):
                        for second_has_b_feature in (True, False):
                            def mk(px, with_bf, with_xf):
                                decl = {"a.A": (ANN, []), "a.B": ("a.A", [("f",) + R[bf]] if with_bf else []),
                                        "a.C": ("a.B", [("g", STR, None)]), "a.X": (px, []), "a.Y": ("a.X", [])}
                                if with_xf and xf is not None:
                                    decl["a.X" if where == "X" else "a.Y"][1].append(("f",) + R[xf])
                                drop_internal_conflicts(decl)
                                return ops_from_decl(decl, ["a.A", "a.B", "a.C", "a.X", "a.Y"])
                            out.append([mk(p1, True, True), mk(p2, second_has_b_feature, False)])
    # the same shape with element types on ranges that are NOT FSArray (Feature.__eq__ compares element types whatever the
    # range): B declares f : FSList[a.A] (or f : a.A with an element type), X or Y declares f with the same / no (= TOP) /
    # another element type
    for rng_t in (FSL, "a.A"):
        RL = [(rng_t, "a.A"), (rng_t, None), (rng_t, ANN), (rng_t, TOP)]
        for p1 in (ANN, "a.A"):
            for p2 in ("a.B", "a.C"):
                for bf in ((0, 1) if rng_t == FSL else (0,)):
                    for xf in (0, 1, 2, 3):
                        for where in ("X", "Y"):
                            def mk2(px, with_xf):
                                decl = {"a.A": (ANN, []), "a.B": ("a.A", [("f",) + RL[bf]]),
                                        "a.C": ("a.B", [("g", STR, None)]), "a.X": (px, []), "a.Y": ("a.X", [])}
                                if with_xf:
                                    decl["a.X" if where == "X" else "a.Y"][1].append(("f",) + RL[xf])
                                drop_internal_conflicts(decl)
                                return ops_from_decl(decl, ["a.A", "a.B", "a.C", "a.X", "a.Y"])
                            out.append([mk2(p1, True), mk2(p2, False)])
    return out


def drop_internal_conflicts(decl):
    """an input must be buildable: two declarations of one feature name on one chain of the input itself must agree"""
    def above(n):
        out, p = [], decl[n][0]
        while p in decl:
            out.append(p)
            p = decl[p][0]
        return out
    for n in decl:
        keep = []
        for f, r, e in decl[n][1]:
            ok = all(g != f or (r2, e2 or TOP) == (r, e or TOP) for a in above(n) for g, r2, e2 in decl[a][1])
            ok = ok and all(g != f for g, _r, _e in keep)
            if ok:
                keep.append((f, r, e))
        decl[n][1][:] = keep


def rand_input(rng, pool, base):
    """one input derived from a base hierarchy (name -> sup): a sub-selection, with a type lifted to an ancestor of its
    base parent or to Annotation/TOP now and then, and features in a small space of ranges"""
    k = rng.randint(1, len(pool))
    chosen = set(rng.sample(pool, k))
    # close under base parents so that the input can be built
    for n in list(chosen):
        p = base[n]
        while p in base:
            chosen.add(p)
            p = base[p]
    decl = {}
    for n in pool:
        if n not in chosen:
            continue
        sup = base[n]
        r = rng.random()
        if r < 0.25:
            # lift: an ancestor of the base parent, Annotation or TOP
            anc = []
            p = sup
            while p in base:
                p = base[p]
                anc.append(p)
            anc += [ANN] if ANN not in anc else []
            if rng.random() < 0.15:
                anc.append(TOP)
            sup = rng.choice(anc)
        elif r < 0.32:
            others = [m for m in chosen if m != n]
            if others:
                sup = rng.choice(others)
        decl[n] = [sup, []]
    # features
    ranges = ([(STR, None), (INT, None), (FSA, None), (FSA, TOP), (FSA, ANN)] + [(FSA, m) for m in sorted(decl)][:2]
              + [(m, None) for m in sorted(decl)][:2]
              # element types on ranges other than FSArray: FSList, and a plain type range
              + [(FSL, None), (FSL, TOP), (FSL, ANN), (FSL, ANB)] + [(FSL, m) for m in sorted(decl)][:1]
              + [(m, ANN) for m in sorted(decl)][:1] + [(STR, ANN)])
    for n in sorted(decl):
        for f in ("f", "g"):
            if rng.random() < 0.3:
                decl[n][1].append((f,) + (ranges[0] if rng.random() < 0.55 else rng.choice(ranges)))
    order = dep_order(decl, pool, rng)
    if order is None:
        return None
    drop_internal_conflicts(decl)
    ops = ops_from_decl(decl, order)
    if rng.random() < 0.08:
        ops.append(["f", DOC, "f", STR, None])
    return ops


def rand_case(rng, pool, n_inputs):
    # base hierarchy: a random forest over the pool with roots below Annotation (sometimes TOP)
    for _ in range(50):
        base = {}
        for i, n in enumerate(pool):
            cands = [ANN] + pool[:i]
            base[n] = rng.choice(cands) if rng.random() < 0.75 else ANN
        if rng.random() < 0.5:
            names = pool[:]
            rng.shuffle(names)
            base = {m: (base[n] if base[n] not in pool else names[pool.index(base[n])]) for n, m in zip(pool, names)}
        if rng.random() < 0.1:
            base[rng.choice(pool)] = TOP
        inputs = [rand_input(rng, pool, base) for _ in range(n_inputs)]
        if all(i is not None for i in inputs):
            return inputs
    return None


def _case(inputs, fam, coq=True):
    return {"inputs": inputs, "runs": perms_and_groupings(len(inputs)), "fam": fam, "coq": bool(coq)}


# share of the cases of each family that is also evaluated inside Coq in the quick tier (the model costs ~0.15 s of
# vm_compute per merge call: Coq strings); the implementation and the oracle run on every case; thorough renders far more
QUICK_COQ = {"hier3": 0.28, "chain": 0.3, "rand2": 0.36, "rand3": 0.25}


def generate(rng, tier):
    def coq(fam_name):
        return tier != "quick" or rng.random() < QUICK_COQ[fam_name]

    if tier in ("quick", "thorough"):
        fam = hier_family(P3, [ANN])
        for i in range(len(fam)):
            for j in range(i, len(fam)):
                yield _case([fam[i], fam[j]], "hier3", coq("hier3"))
        for pair in chain_family():
            yield _case(pair, "chain", coq("chain"))
        # no input with a user type (13b42b8): no arguments, empty systems with and without DocumentAnnotation
        yield _case([], "named")
        yield _case([[["nodoc"]]], "named")
        yield _case([[["nodoc"]], [["nodoc"]]], "named")
        yield _case([[["nodoc"]], []], "named")
        yield _case([[]], "named")
        yield _case([[["nodoc"], ["t", "a.B", ANN]], [["nodoc"]]], "named")
        yield _case([[["nodoc"], ["t", "a.B", ANN], ["f", "a.B", "f", STR, None]], [["t", "a.B", TOP]], [["nodoc"]]], "named")
        # the shapes named in the property / the defect reports
        yield _case([[["t", "a.A", ANN], ["t", "a.B", "a.A"]], [["t", "a.B", ANN], ["t", "a.A", "a.B"]]], "named")
        yield _case([[["t", "my.pkg.Token", ANN]], [["t", "Token", ANN], ["t", "a.B", "Token"]]], "named")
        yield _case([[["t", "my.pkg.Token", ANN], ["f", "my.pkg.Token", "f", STR, None]],
                     [["t", "Token", TOP], ["f", "Token", "f", INT, None]], []], "named")
        # element types on a range that is not FSArray (FSList): same type / absent = TOP / ancestor and descendant
        for e1, e2 in ((ANN, ANB), (None, ANN), (None, TOP), (ANN, ANN)):
            yield _case([[["t", "a.A", TOP], ["f", "a.A", "f", FSL, e1]], [["t", "a.A", TOP], ["f", "a.A", "f", FSL, e2]]], "named")
            yield _case([[["t", "a.A", TOP], ["t", "a.B", "a.A"], ["f", "a.A", "f", FSL, e1]],
                         [["t", "a.A", TOP], ["t", "a.B", "a.A"], ["f", "a.B", "f", FSL, e2]]], "named")
        yield _case([[["t", "a.A", ANN], ["f", "a.A", "f", STR, ANN]], [["t", "a.A", ANN], ["f", "a.A", "f", STR, None]]], "named")
        # an input repeated after a merge that re-parented one of its types (the merged system then lists the type before
        # its new supertype): every grouping, e.g. merge(merge(a, b), b), must keep the features a declared
        yield _case([[["t", "a.T", ANN], ["f", "a.T", "f", STR, None]], [["t", "a.S", ANN], ["t", "a.T", "a.S"]],
                     [["t", "a.S", ANN], ["t", "a.T", "a.S"]]], "named")
        yield _case([[["t", "a.T", TOP], ["f", "a.T", "f", INT, None], ["t", "a.U", "a.T"], ["f", "a.U", "g", STR, None]],
                     [["t", "a.S", TOP], ["t", "a.T", "a.S"], ["t", "a.U", "a.T"]],
                     [["t", "a.S", TOP], ["t", "a.T", "a.S"], ["t", "a.U", "a.T"]]], "named")
    n_rand = {"quick": 560, "thorough": 6000, "search": 6000}[tier]
    for r in range(n_rand):
        n_inputs = 3 if r % (7 if tier == "quick" else 4) == 3 else 2
        pool = P5 if r % 3 else P5[:4]
        inputs = rand_case(rng, pool, n_inputs)
        if inputs is None:
            continue
        if r % 17 == 0:
            inputs[rng.randrange(len(inputs))] = []
        if r % 19 == 0:
            inputs[-1] = json.loads(json.dumps(inputs[0]))
        if r % 23 == 0:
            k = rng.randrange(len(inputs))
            if not any(op[1] == DOC for op in inputs[k] if op[0] == "f"):
                inputs[k] = [["nodoc"]] + inputs[k]
        yield _case(inputs, "rand%d" % n_inputs, coq("rand%d" % n_inputs) if tier == "quick" else (tier == "thorough" and r % 4 == 0))
    if tier == "thorough":
        fam = hier_family(P3, [ANN, TOP], feats=((), (("f", STR, None),), (("f", INT, None),)))
        for k in range(4000):
            yield _case([rng.choice(fam), rng.choice(fam)], "hier3f", k % 6 == 0)
        small = hier_family(P3[:2] + ["a.B"], [ANN])
        small = [s for s in small if len(s) <= 2]
        k = 0
        for a, b, c in itertools.combinations_with_replacement(range(len(small)), 3):
            k += 1
            yield _case([small[a], small[b], small[c]], "triple", k % 9 == 0)


# ---------------------------------------------------------------------------------------------- implementation driver
class InvalidScenario(BaseException):
    """an input of the scenario cannot be built: a generator error, never an observation"""


def build(cassis, ops):
    nodoc = bool(ops) and ops[0][0] == "nodoc"
    ts = cassis.TypeSystem(add_document_annotation_type=False) if nodoc else cassis.TypeSystem()
    try:
        for op in ops[1:] if nodoc else ops:
            if op[0] == "t":
                ts.create_type(op[1], op[2])
            else:
                ts.create_feature(op[1], op[2], op[3], elementType=op[4])
    except Exception as e:  # noqa
        raise InvalidScenario(f"input {ops} cannot be built: {type(e).__name__}: {e}")
    return ts


def frow(f):
    return [f.name, f.rangeType.name, f.elementType.name if f.elementType is not None else None]


def dump(ts):
    """name -> [supertype, sorted children, sorted own features, sorted effective features], all types"""
    d = {}
    for t in ts.get_types(built_in=True):
        d[t.name] = [t.supertype.name if t.supertype is not None else None, sorted(c.name for c in t.children),
                     sorted(frow(f) for f in t.features), sorted(frow(f) for f in t.all_features)]
    return d


def ref_ids(ts):
    """identities of everything an input consists of: Type objects, Feature objects and the references they hold"""
    rows = []
    for t in ts.get_types(built_in=True):
        rows.append((t.name, id(t), id(t.supertype), tuple(id(c) for c in t.children),
                     tuple((id(f), id(f.domainType), id(f.rangeType), id(f.elementType)) for f in t.all_features)))
    return rows


def identity_walk(res, inputs):
    """every Type reachable from the result is the one registered in the result under its name; none is an object of an
    input; no Feature object of an input is in the result"""
    reg = {t.name: t for t in res.get_types(built_in=True)}
    foreign_t, foreign_f = {}, {}
    for k, ts in enumerate(inputs):
        for t in ts.get_types(built_in=True):
            foreign_t[id(t)] = (k, t.name)
            for f in t.all_features:
                foreign_f[id(f)] = (k, t.name, f.name)
    bad = []

    def chk(x, how):
        if x is None:
            return
        if id(x) in foreign_t:
            bad.append(f"{how} is the object {foreign_t[id(x)][1]} of input {foreign_t[id(x)][0]}")
        elif x is not reg.get(getattr(x, "name", None)):
            bad.append(f"{how} is not the registered object")

    for n, t in reg.items():
        if res.get_type(n) is not t:
            bad.append(f"get_type({n}) is not the listed object")
        chk(t.supertype, f"{n}.supertype")
        cur, hops = t, 0
        while cur is not None and hops < 50:
            chk(cur, f"ancestor {getattr(cur, 'name', '?')} of {n}")
            cur, hops = cur.supertype, hops + 1
        if hops >= 50:
            bad.append(f"supertype chain of {n} does not end")
        for c in t.children:
            chk(c, f"child {c.name} of {n}")
        for f in list(t.features) + list(t.all_features):
            if id(f) in foreign_f:
                bad.append(f"feature {n}.{f.name} is the Feature object of input {foreign_f[id(f)][0]}")
            chk(f.domainType, f"{n}.{f.name}.domainType")
            chk(f.rangeType, f"{n}.{f.name}.rangeType")
            chk(f.elementType, f"{n}.{f.name}.elementType")
        for f in t.features:
            if f.domainType is not t:
                bad.append(f"{n}.{f.name}.domainType is not {n}")
    return bad


_FRESH = {}


def fresh_dump(cassis):
    if "d" not in _FRESH:
        _FRESH["d"] = dump(cassis.TypeSystem())
    return _FRESH["d"]


def run_exp(cassis, sc, exp, keep):
    """evaluates a merge expression; every input is built fresh for every occurrence.  keep: list collecting
    (input number, type system, dump before, ids before) of the inputs of the OUTERMOST call and of inner calls alike"""
    args = []
    for it in exp:
        if isinstance(it, list):
            args.append(run_exp(cassis, sc, it, keep))
        else:
            ts = build(cassis, sc["inputs"][it])
            keep.append((it, ts, dump(ts), ref_ids(ts)))
            args.append(ts)
    res = cassis.merge_typesystems(*args)
    keep.append(("args", args, res))
    return res


def observe_run(cassis, sc, exp):
    keep = []
    try:
        res = run_exp(cassis, sc, exp, keep)
        out = {"ok": True}
    except Exception as e:  # noqa
        res = None
        out = {"ok": False, "err": err_kind(cassis, e)}
    # purity of every input object that took part, whether or not the merge succeeded
    impure = []
    for k in keep:
        if k[0] == "args":
            continue
        it, ts, before, ids = k
        if dump(ts) != before:
            impure.append(f"input {it} changed")
        elif ref_ids(ts) != ids:
            impure.append(f"input {it}: object identities changed")
    out["impure"] = impure
    if res is None:
        return out
    d = dump(res)
    fresh = fresh_dump(cassis)
    users = sorted(n for n in d if n not in PREDEF)
    out["rows"] = [[n] + d[n] for n in users]
    out["pre"] = [[n, [c for c in d[n][1] if c not in PREDEF]] for n in sorted(d) if n in PREDEF and any(c not in PREDEF for c in d[n][1])]
    bok = True
    for n, row in fresh.items():
        if n not in PREDEF:
            continue
        got = d.get(n)
        if got is None or got[0] != row[0] or got[2] != row[2] or got[3] != row[3] or \
                [c for c in got[1] if c in PREDEF] != [c for c in row[1] if c in PREDEF]:
            bok = False
    out["builtin_ok"] = bok
    names = users + [ANN, TOP]
    out["names"] = names
    sub = []
    for a in names:
        for b in names:
            try:
                sub.append(bool(res.subsumes(a, b)))
            except Exception:  # noqa
                sub.append(None)
    out["sub"] = sub
    # the last ("args", ...) entry belongs to the outermost call
    args = keep[-1][1]
    out["ident"] = identity_walk(res, args)[:5]
    return out


_HUNG = {"n": 0}


def run_impl(cassis, sc):
    # a merge that does not return (a cyclic hierarchy makes Type.subsumes loop) costs a full CASE_TIMEOUT_S: after a few
    # of them the remaining cases are failed at once instead of waiting for each
    if _HUNG["n"] >= 3:
        raise RuntimeError("merge_typesystems did not return on earlier cases of this run; case not executed")
    try:
        return {"runs": [observe_run(cassis, sc, exp) for exp in sc["runs"]]}
    except InvalidScenario as e:
        raise RuntimeError(str(e))
    except BaseException as e:  # noqa
        if type(e).__name__ == "CaseTimeout":
            _HUNG["n"] += 1
        raise


# ---------------------------------------------------------------------------------------------- oracle
def canon(run):
    """what order independence is about: types, supertypes, effective features (as sets)"""
    if not run["ok"]:
        return ("err",)
    return ("ok", tuple((r[0], r[1], tuple(tuple(f[:2]) + (f[2] or TOP,) for f in r[4])) for r in run["rows"]))


def union_decls(sc):
    sups, own = {}, {}
    for ops in sc["inputs"]:
        for n, (s, fs) in decls_of(ops).items():
            sups.setdefault(n, [])
            if s not in sups[n]:
                sups[n].append(s)
            for f, v in fs.items():
                own.setdefault(n, {}).setdefault(f, set()).add(v)
    return sups, own


def reach(sups, n):
    """everything above n in the union of all declared supertype edges (and the built-in tree), n excluded unless on a cycle"""
    seen, todo = set(), list(sups.get(n, [BUILTIN_SUP.get(n)] if BUILTIN_SUP.get(n) else []))
    while todo:
        x = todo.pop()
        if x is None or x in seen:
            continue
        seen.add(x)
        todo.extend(sups.get(x, [BUILTIN_SUP.get(x)]))
    return seen


def side_condition(sc):
    """every supertype competing for a type, and every pool type above it, is declared with one supertype only"""
    sups, _own = union_decls(sc)
    for n, ss in sups.items():
        if len(ss) > 1:
            for s in ss:
                for a in {s} | reach(sups, s):
                    if len(sups.get(a, [])) > 1:
                        return False
    return True


def spec(sc):
    """the merge rules applied to the union of all declarations: ("err", why) | ("ok", {name: (supertype, {feature: (range, elem)})})"""
    sups, own = union_decls(sc)
    if DOC not in sups:
        sups[DOC] = [ANN]
        own[DOC] = {"language": {(STR, TOP)}}
    final = {}
    for n, ss in sups.items():
        if n in reach(sups, n):
            return ("err", f"contradictory supertypes around {n}")
        best = [m for m in ss if all(s == m or s in reach(sups, m) for s in ss)]
        if not best:
            return ("err", f"incomparable supertypes for {n}: {ss}")
        final[n] = best[0]
    table = {}
    for n in final:
        eff = {}
        cur = n
        while cur is not None:
            src = own.get(cur, {}) if cur in final else {f: {v} for f, v in BUILTIN_OWN.get(cur, {}).items()}
            for f, vs in src.items():
                eff.setdefault(f, set()).update(vs)
            cur = final[cur] if cur in final else BUILTIN_SUP.get(cur)
        for f, vs in eff.items():
            if len(vs) > 1:
                return ("err", f"feature {f} declared differently on the chain of {n}: {sorted(vs)}")
        table[n] = (final[n], {f: next(iter(vs)) for f, vs in eff.items()})
    return ("ok", table)


def check_result(sc, run, exp):
    """what must hold for every successful merge, side condition or not"""
    rows = {r[0]: r for r in run["rows"]}
    sups, own = union_decls(sc)
    sup = {n: r[1] for n, r in rows.items()}

    def chain(n):
        out, cur, hops = [], n, 0
        while cur is not None and hops < 60:
            out.append(cur)
            cur = sup[cur] if cur in sup else BUILTIN_SUP.get(cur)
            hops += 1
        return out if hops < 60 else None

    for n in sups:
        if n not in rows:
            return f"type {n} declared by an input is missing from the result"
    if DOC not in sups:      # no input carries DocumentAnnotation: the result does (TypeSystem()), with its default declaration
        sups[DOC] = [ANN]
        own[DOC] = {"language": {(STR, TOP)}}
    for n in rows:
        if n not in sups:
            return f"result contains {n} which no input declares"
    if not run["builtin_ok"]:
        return "the predefined part of the result differs from TypeSystem()"
    kids = {}
    for n, r in rows.items():
        kids.setdefault(r[1], []).append(n)
    for n, r in rows.items():
        ch = chain(n)
        if ch is None or ch[-1] != TOP:
            return f"supertype chain of {n} does not reach TOP"
        if r[1] not in sups[n]:
            return f"{n} got supertype {r[1]} which no input declares for it ({sups[n]})"
        for s in sups[n]:
            if s not in ch[1:]:
                return f"{n} was declared below {s} but ended up below {r[1]}, which {s} does not subsume (not the most specific)"
        if sorted(kids.get(n, [])) != r[2]:
            return f"children of {n} are {r[2]}, but the types naming it as supertype are {sorted(kids.get(n, []))}"
        eff = {}
        for f in r[4]:
            if f[0] in eff:
                return f"{n} exposes two definitions of feature {f[0]}"
            eff[f[0]] = (f[1], f[2] or TOP)
        exp_eff = {}
        for a in ch:
            src = {f[0]: (f[1], f[2] or TOP) for f in rows[a][3]} if a in rows else BUILTIN_OWN.get(a, {})
            for f, v in src.items():
                if f in exp_eff and exp_eff[f] != v:
                    return f"feature {f} is defined differently on the chain of {n}: {exp_eff[f]} / {v} (no ValueError)"
                exp_eff.setdefault(f, v)
        if eff != exp_eff:
            return f"effective features of {n} are {sorted(eff)} but its own and its final ancestors' are {sorted(exp_eff)}"
        for f, vs in own.get(n, {}).items():
            if f not in eff:
                return f"feature {n}.{f} declared by an input is missing from the result"
            if eff[f] not in vs:
                return f"feature {n}.{f} has range/element {eff[f]} which no input declares ({sorted(vs)})"
    for p, ks in run["pre"]:
        if sorted(kids.get(p, [])) != sorted(ks):
            return f"children of predefined {p} are {ks}, but the types naming it as supertype are {sorted(kids.get(p, []))}"
    for p in kids:
        if p in PREDEF and p not in [q for q, _ in run["pre"]]:
            return f"predefined {p} does not list its children {kids[p]}"
    # subsumes answers describe that tree
    names = run["names"]
    k = 0
    for a in names:
        for b in names:
            cb = chain(b)
            want = a in cb
            if run["sub"][k] is not want:
                return f"subsumes({a}, {b}) answered {run['sub'][k]} on the result, the tree says {want}"
            k += 1
    if run["ident"]:
        return "object identity: " + "; ".join(run["ident"][:3])
    return None


def oracle(cassis, sc, obs):
    runs = obs["runs"]
    for exp, run in zip(sc["runs"], runs):
        if run["impure"]:
            return f"inputs modified by merge {exp}: " + "; ".join(run["impure"][:3])
        if not run["ok"]:
            if run["err"] != "EValue":
                return f"merge {exp} raised {run['err']} instead of ValueError"
            continue
        msg = check_result(sc, run, exp)
        if msg:
            return f"merge {exp}: {msg}"
    sp = spec(sc)
    # agreeing feature declarations and a single declared supertype per type: must succeed
    sups, own = union_decls(sc)
    if all(len(s) == 1 for s in sups.values()) and all(len(v) == 1 for fs in own.values() for v in fs.values()):
        # (still a conflict if two different types on one chain declare the feature differently: then spec says err)
        if sp[0] == "ok":
            for exp, run in zip(sc["runs"], runs):
                if not run["ok"]:
                    return f"merge {exp} raised although every type has one declared supertype and all feature declarations agree"
    if sp[0] == "err":
        # contradictory / incomparable supertypes or a range clash on one chain: no order may succeed
        for exp, run in zip(sc["runs"], runs):
            if run["ok"]:
                return f"merge {exp} succeeded although the declarations are unmergeable: {sp[1]}"
    if side_condition(sc):
        first = canon(runs[0])
        for exp, run in zip(sc["runs"], runs):
            if canon(run) != first:
                return (f"order dependence under the side condition: merge {sc['runs'][0]} gave {first[0]} and merge {exp} gave "
                        f"{canon(run)[0]}" + ("" if first[0] != canon(run)[0] else " with different types / supertypes / effective features"))
        if sp[0] == "ok":
            if first[0] != "ok":
                return f"merge raised under the side condition although the declarations are mergeable (expected {sorted(sp[1])})"
            want = tuple((n, sp[1][n][0], tuple(sorted((f,) + v for f, v in sp[1][n][1].items()))) for n in sorted(sp[1]))
            got = tuple((n, s, tuple(sorted(fs))) for n, s, fs in first[1])
            if want != got:
                return f"result under the side condition differs from the merge rules: expected {want} got {got}"
    # merging with itself or with an empty type system changes nothing
    nonempty = [ops for ops in sc["inputs"] if ops and ops != [["nodoc"]]]
    if all(ops == nonempty[0] for ops in nonempty):
        d = decls_of(nonempty[0]) if nonempty else {}
        d.setdefault(DOC, [ANN, {}])
        for exp, run in zip(sc["runs"], runs):
            if not run["ok"]:
                return f"merge {exp} of a type system with itself / with empty type systems raised"
            got = {r[0]: r[1] for r in run["rows"]}
            if got != {n: v[0] for n, v in d.items()}:
                return f"merge {exp} of a type system with itself / with empty type systems changed types or supertypes"
    return None


# ---------------------------------------------------------------------------------------------- rendering
KINDS = {"ETypeNotFound", "EValue", "ERuntime", "EAttribute", "EKey", "EType", "EDupId", "EIndex"}
# identifiers defined in CorrC13.v for the names that occur in nearly every case
ABBR = {ANN: "nA", TOP: "nT", DOC: "nD", STR: "nS", INT: "nI", FSA: "nF",
        "my.pkg.Token": "n0", "Token": "n1", "a.B": "n2", "a.C": "n3", "q.D": "n4", "a.A": "n5", "a.X": "n6", "a.Y": "n7"}
ANN_EFF = [["begin", INT, None], ["end", INT, None], ["sofa", "uima.cas.Sofa", None]]
DOC_ROW = [DOC, ANN, [], [["language", STR, None]], sorted(ANN_EFF + [["language", STR, None]])]


def gname(n):
    return ABBR.get(n) or gstr(n)


def goname(n):
    return "None" if n is None else f"(Some {gname(n)})"


def gop(op):
    if op[0] == "t":
        return f"T {gname(op[1])} {gname(op[2])}"
    return f"Fe {gname(op[1])} {gstr(op[2])} {gname(op[3])} {goname(op[4])}"


def gexp(exp):
    return "MM " + glist([f"MIn {gnat(it)}" if not isinstance(it, list) else "(" + gexp(it) + ")" for it in exp])


def gfeat(f):
    return f"mkF {gstr(f[0])} {gname(f[1])} {goname(f[2])}"


def geff(fs):
    if all(a in fs for a in ANN_EFF):
        rest = [f for f in fs if f not in ANN_EFF]
        return "annF" if not rest else "(annF ++ " + glist([gfeat(f) for f in rest]) + ")"
    return glist([gfeat(f) for f in fs])


def gobs(run):
    if not run["ok"]:
        k = run["err"] if run["err"] in KINDS else "ERuntime"
        return f"OErr {k}"
    rows = glist(["docR" if r == DOC_ROW else
                  f"mkR {gname(r[0])} {goname(r[1])} {glist([gname(c) for c in r[2]])} {glist([gfeat(f) for f in r[3]])} {geff(r[4])}"
                  for r in run["rows"]])
    pre = glist([f"({gname(p)}, {glist([gname(c) for c in ks])})" for p, ks in run["pre"]])
    v = 0
    for i, b in enumerate(run["sub"]):
        if b:
            v |= 1 << i
    if any(b is None for b in run["sub"]):
        v = (1 << (len(run["sub"]) + 1))  # cannot match: a subsumes query raised
    return (f"OOk {rows} {pre} {glist([gname(n) for n in run['names']])} {gn(v)} "
            f"{gbool(run['builtin_ok'])} {gbool(not run['ident'])}")


def render(sc, obs):
    if not sc.get("coq", True):
        return None
    ins = glist([("Ind " + glist([gop(op) for op in ops[1:]])) if (ops and ops[0][0] == "nodoc") else ("I " + glist([gop(op) for op in ops]))
                 for ops in sc["inputs"]])
    table, runs = [], []
    for e, r in zip(sc["runs"], obs["runs"]):
        t = gobs(r)
        if t not in table:
            table.append(t)
        runs.append(f"mkRun ({gexp(e)}) {gnat(table.index(t))}")
    pure = all(not r["impure"] for r in obs["runs"])
    return f"mkCase {ins}\n {glist(table, sep=';' + chr(10) + '  ')}\n {glist(runs)} {gbool(pure)}"


# ---------------------------------------------------------------------------------------------- bookkeeping
def nontrivial(sc):
    sups, own = union_decls(sc)
    if any(len(s) > 1 for s in sups.values()):
        return True
    sp = spec(sc)
    if sp[0] == "err":
        return True
    # one feature name declared by two types of one final chain
    for n, (s, eff) in sp[1].items():
        cur, seen = n, {}
        while cur in sp[1]:
            for f in own.get(cur, {}):
                if f in seen:
                    return True
                seen[f] = cur
            cur = sp[1][cur][0]
    return False


def shrink_candidates(sc):
    ins = sc["inputs"]
    # drop an input
    if len(ins) > 2:
        for i in range(len(ins)):
            c = [x for k, x in enumerate(ins) if k != i]
            yield _case(json.loads(json.dumps(c)), sc.get("fam", "") + "-shrunk")
    # drop an operation (and what depends on it)
    for i, ops in enumerate(ins):
        for j, op in enumerate(ops):
            rest = ops[:j] + ops[j + 1:]
            if op[0] == "t":
                n = op[1]
                if any((o[0] == "t" and o[2] == n) or (o[0] == "f" and (o[1] == n or o[3] == n or o[4] == n)) for o in rest):
                    continue
            c = json.loads(json.dumps(ins))
            c[i] = rest
            yield _case(c, sc.get("fam", "") + "-shrunk")


def mutate(sc, rng):
    for _ in range(30):
        c = json.loads(json.dumps(sc["inputs"]))
        rng.shuffle(c)
        if rng.random() < 0.5 and len(c) == 2:
            c.append(json.loads(json.dumps(rng.choice(c))))
        yield _case(c, "mutated")


def signature(sc, msg):
    what = (msg or "").split(":")[0]
    sups, _ = union_decls(sc)
    if all(not ops for ops in sc["inputs"]):
        what = "merge_no_user_types"
    return {"what": what}


def distribution(scenarios, observations):
    fams = {}
    for s in scenarios:
        fams[s.get("fam", "?")] = fams.get(s.get("fam", "?"), 0) + 1
    n_runs = sum(len(s["runs"]) for s in scenarios)
    errs = sum(1 for o in observations if o for r in o["runs"] if not r["ok"])
    sc_ok = sum(1 for s in scenarios if side_condition(s))
    two_sups = sum(1 for s in scenarios if any(len(v) > 1 for v in union_decls(s)[0].values()))
    return {"cases": len(scenarios), "merge_calls": n_runs, "runs_raising": errs, "by_family": fams,
            "cases_meeting_side_condition": sc_ok, "cases_with_competing_supertypes": two_sups,
            "spec_unmergeable": sum(1 for s in scenarios if spec(s)[0] == "err"),
            "triples": sum(1 for s in scenarios if len(s["inputs"]) == 3)}


MANIFEST = {
    "level_text": "Machine-checked proof (Coq 8.16) about an executable model of merge_typesystems (readiness loop on explicit fuel, "
                  "create-or-merge, supertype comparison with re-parenting, feature merge, fix-up of references) built on the "
                  "type-system model of C10/C11; the model is tied to /repo on every run by evaluating both of its forms inside Coq on "
                  "the tuples the implementation was run on (all argument orders and groupings), and the property statement is run "
                  "directly on the implementation by an independent oracle.",
    "level_note": "Proved for all well-formed inputs (Props/C13.v, 43 theorems, closed under the global context; proofs MergeProofs.v .. "
                  "MergeProofs5.v): the result satisfies the C10/C11 invariant (hierarchy and features), termination within the stated fuel, "
                  "the only exception is ValueError, contains every declared type and feature, most specific declared supertype, "
                  "incomparable / contradictory supertypes and differing declarations of a feature on one chain raise ValueError, no "
                  "reference to an object of an input (ghost owner tags); the hierarchy of a successful merge is the reachability relation "
                  "of the declared edges; agreeing features add no failure; under the property's side condition (and no inheritance-final "
                  "declared supertype) success is characterised by the declarations alone, hence success / ValueError and the resulting "
                  "types, supertypes and effective features are independent of argument order AND of any nesting of merges; two successful "
                  "merges of the same declarations are equivalent without side condition; replay / idempotence / neutrality of the empty "
                  "type system for inputs that contain TypeSystem(); the mechanism form of the model (recursion into _children) equals the "
                  "functional form on well-formed inputs. Limits (witnesses in RefutedC13.v): success is order dependent without the side "
                  "condition; replay needs DocumentAnnotation in the input; own features that duplicate an inherited one are not stored "
                  "again. In the quick tier about a third of the cases is also evaluated in Coq (all in the implementation and the "
                  "oracle). Trusted: Coq kernel + vm_compute; hand-written models Merge.v / TS.v; the harness.",
    "technique": "Coq proof over an executable Gallina model + in-Coq behavioural correspondence (exhaustive small pools, random larger) + direct oracle",
    "design_ref": "DESIGN.md section 5, C13",
}
