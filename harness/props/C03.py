"""C03 — offsets are code points in memory and UTF-16 code units in every document.

Three kinds of scenario (one Coq `case` type, see coq/CorrC03.v):
  table  a text; the converter class is asked for every offset -1..len+2 / -1..utf16len+2
  hist   a Sofa: constructor argument, then sofaString-setter calls; conversions of the resulting converter
  doc    a real Cas with 1-3 views with different texts, indexed and referenced-only annotations of several
         annotation types next to non-annotation feature structures of like-named types, text
         replacements after annotations exist; to_xmi()/to_json() parsed with the standard library only; both
         documents loaded back with cassis; more text replacements on the loaded CAS and a second save.
         Third wave: annotations that change their view (removed from one view and added to another, sofa
         re-assigned, before the first save and on the loaded CAS), and documents that are loaded in another
         layout than cassis writes (entries of %FEATURE_STRUCTURES / elements of the XMI in another order, the
         sofas after the annotations that refer to them)
         Fourth wave: documents that do not list the views without members (UIMA omits the cas:View element of such a
         view) while referenced-only annotations belong to them; their text is replaced after loading
The oracle does its own UTF-16 arithmetic (len(s[:i].encode('utf-16-le')) // 2), independent of cassis and of
the Coq model.
"""
import io
import itertools
import json
import random
import xml.etree.ElementTree as ET

ID = "C03"
COQ_TARGETS = ["Offsets.vo", "OffsetsProofs.vo", "CorrC03.vo", "DocOffsets.vo", "DocOffsetsProofs.vo", "DocDeterminism.vo", "Props/C03.vo"]
PROPS_FILE = "Props/C03.v"
CORR_IMPORTS = "Base Offsets CorrC03"
ENTRY = ("cassis.cas.Utf16CodepointOffsetConverter / Sofa.__attrs_post_init__ / Sofa.sofaString setter / "
         "xmi.py and json.py conversion sites")
EXHAUSTIVE = True
CASES_PER_SHARD = 400
SHARD_BYTES = 150_000
RULE = (
    "table: every string of length <=4 (quick) / <=6 (thorough) over {a, U+00E9, U+FFFD, U+10000, U+10FFFF}, all "
    "offsets -1..len+2 and -1..utf16len+2, plus seeded random texts (<=40 / <=1500 code points) with emoji, ZWJ "
    "sequences, combining marks, CJK, astral CJK; hist: Sofa constructor argument in {None, '', text} followed by "
    "0-4 setter calls (None and '' included); doc: every span of every string of length <=2 (quick) / <=3 (thorough) "
    "over the alphabet as alternately indexed / referenced-only annotations in a 2-view CAS, plus seeded random "
    "CASes with 1-3 views, text replaced after annotations exist, cross-view references, a holder FS, a save in the "
    "middle, and text replaced again on the loaded CAS; in half of the documents (and every other exhaustive one) the "
    "annotations are of four annotation types (t.Ann, n.Ann, t.sub.Ann < t.Ann, n.Holder) and the CAS also holds "
    "non-annotation feature structures of types sharing their short names (t.Holder, m.Ann, m.Holder, m.sub.Ann), "
    "created before, between and after the annotations. In about 40 % of the random documents one or two annotations "
    "change their view before the first save (indexed: remove + new offsets + add to another or the same view; "
    "referenced-only: sofa re-assigned, or added to a view), sometimes right after a save; in about 30 % annotations "
    "change their view on the loaded CASes before the second save; half of the random documents are loaded from a "
    "re-laid-out copy of what was written (entries of %FEATURE_STRUCTURES / children of xmi:XMI reversed, sofas last, "
    "shuffled, the id-keyed object form of %FEATURE_STRUCTURES, \\u-escaped surrogate pairs); every span of every short string is "
    "also checked as an annotation first indexed in the other view and then moved. Half of the random documents are loaded "
    "from a copy that does not list the views without members (no cas:View element, as UIMA writes such a view / no entry "
    "in %VIEWS; the sofa stays) - such a view may still be the view of referenced-only annotations; every span of every "
    "short string is also checked as a referenced-only annotation of such an unlisted view whose text is replaced after "
    "loading. Non-trivial: the text holds an "
    "astral code point and (doc) an annotation begins strictly after it."
)
TRUSTED = [
    "Coq 8.16.1 kernel and vm_compute (no native_compute); theorems in Props/C03.v are closed under the global context",
    "hand-written model coq/Offsets.v of create_offset_mapping (both dicts, later binding wins), the two lookups with "
    "their None/KeyError branches, the Sofa constructor and setter, and which table each codec site uses",
    "correspondence harness: harness/props/C03.py builds real objects, parses the emitted bytes with xml.etree / json, "
    "harness/core.py compares inside Coq",
    "str.encode('utf-16-le') by contract: 1 unit below U+10000 else a surrogate pair (checked against the model's "
    "encoder on every table case and over all scalar values in the thorough tier)",
    "hist cases read Sofa._offset_converter (no public accessor exists); doc cases observe the same tables through "
    "documents only",
]
ASSUMPTIONS = [
    "texts contain no lone surrogates and no control characters (outside XML-legal strings)",
    "oracle verdicts only for annotations whose view has a text and 0 <= begin <= end <= len(text); everything else "
    "is compared with the model only",
    "lxml / json escaping and the XML parser are not modelled (documents are reduced to begin/end per annotation label)",
    "an annotation is a member of at most one view at a time (it changes its view by remove + add); the view it was "
    "added to, or assigned the sofa of, last is its own view",
    "re-laid-out documents keep every element / entry and every attribute; only their order (and, for JSON, the "
    "container form and the string escaping) changes - except that the cas:View element / the %VIEWS entry of a view "
    "without members may be left out (its cas:Sofa element / Sofa entry is kept)",
]

ALPHABET = [0x61, 0xE9, 0xFFFD, 0x10000, 0x10FFFF]
POOL = ([0x61, 0x62, 0x7A, 0x20, 0x26, 0x3C, 0xE9, 0xDF, 0x20AC, 0x4E2D, 0xD7FF, 0xE000, 0xFFFD, 0xFFFC,
         0x0301, 0x0308, 0x20DD, 0xFE0F, 0x200D,
         0x10000, 0x10FFFF, 0x1F600, 0x1F468, 0x1F469, 0x1F3FD, 0x1F1E9, 0x1F1EA, 0x20000, 0x1D11E, 0xFFFF + 2])
VIEW_NAMES = ["_InitialView", "v1", "v2"]
# Types of the annotations / of the non-annotation feature structures of a doc scenario (index = field "t" of the op).
# Index 0 is the type of the first-wave scenarios.  The other names are chosen so that short names collide across
# packages in both directions (annotation n.Ann / t.sub.Ann vs record m.Ann; annotation n.Holder vs records t.Holder /
# m.Holder) and namespace prefixes collide too (t.sub / m.sub): the property speaks about *every annotation*, whatever
# its type is called and whatever else the type system and the CAS contain.
ANN_TYPES = ["t.Ann", "n.Ann", "t.sub.Ann", "n.Holder"]
REC_TYPES = ["t.Holder", "m.Ann", "m.Holder", "m.sub.Ann"]
_TS = {}


# ------------------------------------------------------------------------------------------------ helpers
def _s(cps):
    return None if cps is None else "".join(chr(c) for c in cps)


def _cps(s):
    return None if s is None else [ord(c) for c in s]


def _u16(s, i):
    """UTF-16 code-unit offset of code-point offset i in s (independent arithmetic)."""
    return len(s[:i].encode("utf-16-le")) // 2


def _units(s):
    b = s.encode("utf-16-le")
    return [b[i] | (b[i + 1] << 8) for i in range(0, len(b), 2)]


def _astral(cps):
    return cps is not None and any(c >= 0x10000 for c in cps)


def _rand_text(rng, n):
    out = []
    while len(out) < n:
        r = rng.random()
        if r < 0.12:
            out.extend([0x1F468, 0x200D, 0x1F469, 0x200D, 0x1F467][: n - len(out)])     # ZWJ family
        elif r < 0.2:
            out.extend([0x65, 0x0301][: n - len(out)])                                   # e + combining acute
        elif r < 0.26:
            out.extend([0x1F1E9, 0x1F1EA][: n - len(out)])                               # flag
        elif r < 0.32:
            out.extend([0x1F44D, 0x1F3FD][: n - len(out)])                               # thumbs up + skin tone
        else:
            out.append(rng.choice(POOL))
    return out


def _ts(cassis, variant=0):
    """variant 0: the two types of the first-wave scenarios; variant 1: all of ANN_TYPES / REC_TYPES."""
    key = (id(cassis), variant)
    if key not in _TS:
        from cassis import TypeSystem
        ts = TypeSystem()
        T = ts.create_type("t.Ann", "uima.tcas.Annotation")
        ts.create_feature(T, "lab", "uima.cas.Integer")
        ts.create_feature(T, "ref", "uima.tcas.Annotation")
        H = ts.create_type("t.Holder", "uima.cas.TOP")
        ts.create_feature(H, "ref", "uima.tcas.Annotation")
        if variant:
            for name in ("m.Ann", "m.Holder", "m.sub.Ann"):          # records: not annotations
                R = ts.create_type(name, "uima.cas.TOP")
                ts.create_feature(R, "ref", "uima.tcas.Annotation")
            for name in ("n.Ann", "n.Holder"):                       # annotation types of their own
                A = ts.create_type(name, "uima.tcas.Annotation")
                ts.create_feature(A, "lab", "uima.cas.Integer")
                ts.create_feature(A, "ref", "uima.tcas.Annotation")
            ts.create_type("t.sub.Ann", "t.Ann")                     # inherits lab / ref
        _TS[key] = ts
    return _TS[key]


def _variant(sc):
    return 1 if sc.get("ts") else 0


def _ann_types(sc):
    return ANN_TYPES if _variant(sc) else ANN_TYPES[:1]


def _rec_types(sc):
    return REC_TYPES if _variant(sc) else REC_TYPES[:1]


# ------------------------------------------------------------------------------------------------ generators
def _final_texts(sc):
    cur = [None] * sc["nv"]
    for op in sc["ops"]:
        if op["op"] == "text":
            cur[op["v"]] = op["s"]
    return cur


def _post_texts(sc):
    cur = _final_texts(sc)
    for v, sets in enumerate(sc["post"]):
        if sets:
            cur[v] = sets[-1]
    return cur


def _moved(a, m):
    """state of annotation `a` (dict with v, b, e, idx) after move `m`: it belongs to view m['v']; new offsets if the
    move assigns some; once a member of an index it stays one (a move of an indexed annotation is remove + add)"""
    a = dict(a)
    a["v"] = m["v"]
    if m.get("off") is not None:
        a["b"], a["e"] = m["off"]
    a["idx"] = bool(a["idx"] or m["idx"])
    a["mv"] = a.get("mv", 0) + 1
    return a


def _anns(sc):
    """the annotations in creation order, in the state they have at the first save (after the `move` ops)"""
    out, pos = [], {}
    for op in sc["ops"]:
        if op["op"] == "ann":
            pos[op["l"]] = len(out)
            out.append(op)
        elif op["op"] == "move" and op["l"] in pos:
            out[pos[op["l"]]] = _moved(out[pos[op["l"]]], op)
    return out


def _anns2(sc):
    """... and in the state they have at the second save (after the moves on the loaded CAS)"""
    out = _anns(sc)
    pos = {a["l"]: i for i, a in enumerate(out)}
    for m in sc.get("pmv") or []:
        if m["l"] in pos:
            out[pos[m["l"]]] = _moved(out[pos[m["l"]]], m)
    return out


def _aops(sc):
    """label -> list of (was a member of an index, move) in execution order, for the first stage"""
    st, out = {}, {}
    for op in sc["ops"]:
        if op["op"] == "ann":
            st[op["l"]] = op
            out[op["l"]] = []
        elif op["op"] == "move" and op["l"] in st:
            out[op["l"]].append((bool(st[op["l"]]["idx"]), op))
            st[op["l"]] = _moved(st[op["l"]], op)
    return out


def _span_doc(text, other, k, moved=False, unlisted=False):
    """All spans of `text` as annotations of view 0, alternately indexed / referenced-only; view 1 holds `other`.
    moved: every annotation is first created in view 1 (offsets clipped to its text) and reaches view 0 and its span by a
    `move` (after a save for every other string); the documents are loaded in another layout.
    unlisted: every annotation of view 0 is referenced-only (a chain hanging from one indexed annotation of view 1), so view
    0 has no members and the documents that are loaded do not list it (no cas:View element / no entry in %VIEWS, which is
    how UIMA writes a view without members); after loading, the text of view 0 is replaced by a longer one."""
    n = len(text)
    spans = [(b, e) for b in range(n + 1) for e in range(b, n + 1)]
    ops = [{"op": "text", "v": 0, "s": list(text)}, {"op": "text", "v": 1, "s": list(other)}]
    anns = []
    typed = k % 2 == 1            # every other string: annotation types rotate, a record is created first
    if typed:
        ops.append({"op": "rec", "v": 1 if unlisted else k // 2 % 2, "t": 1 + k // 2 % 3})
    for j, (b, e) in enumerate(spans):
        idx = ((j + k) % 2 == 0 or j == 0) and not unlisted
        anns.append({"op": "ann", "l": j + 1, "v": 0, "b": b, "e": e, "idx": idx, "ref": None})
        if typed:
            anns[-1]["t"] = (j + k // 2) % len(ANN_TYPES)
    # every referenced-only annotation is referenced by the nearest earlier annotation that has no ref yet,
    # or by an indexed annotation of the other view
    extra = []
    for j, a in enumerate(anns):
        if a["idx"]:
            continue
        holder = next((p for p in reversed(anns[:j]) if p["ref"] is None), None)
        if holder is not None:
            holder["ref"] = a["l"]
        else:
            m = min(len(other), 1)
            extra.append({"op": "ann", "l": 100 + j, "v": 1, "b": 0, "e": m, "idx": True, "ref": a["l"]})
    sc = {"k": "doc", "nv": 2, "ops": ops + anns + extra, "post": [[], []]}
    if typed:
        sc["ts"] = 1
    if unlisted:
        sc["nev"] = 1
        sc["post"] = [[[ALPHABET[(k + 1) % 5]] + list(text)[::-1] + [0x62]], []]
        if k % 2 == 0:
            sc["lay"] = k
    if moved:
        m = len(other)
        moves = []
        for a in anns:
            moves.append({"op": "move", "l": a["l"], "v": 0, "off": [a["b"], a["e"]], "idx": a["idx"]})
            a["v"], a["b"], a["e"] = 1, min(a["b"], m), min(a["e"], m)
        sc["ops"] = sc["ops"] + ([{"op": "save"}] if k % 2 else []) + moves
        sc["lay"] = k
        if k % 3 == 0:                # on the loaded CAS the first annotation goes back to view 1
            sc["pmv"] = [{"l": anns[0]["l"], "v": 1, "off": [0, min(m, 1)], "idx": True}]
    return sc


def _gen_doc(rng):
    nv = rng.choice([1, 2, 2, 3])
    ops = []
    cur = [None] * nv
    full = rng.random() < 0.5                                       # the type system with the colliding names

    def records(p):
        """feature structures that are not annotations, of types sharing their short name with annotation types"""
        while full and rng.random() < p:
            ops.append({"op": "rec", "v": rng.randrange(nv), "t": rng.randrange(len(REC_TYPES))})
            p *= 0.5

    def settext(v, minlen=0):
        r = rng.random()
        if r < 0.04 and minlen == 0:
            s = None
        elif r < 0.09 and minlen == 0:
            s = []
        else:
            s = _rand_text(rng, rng.randint(max(1, minlen), max(1, minlen) + rng.randint(0, 9)))
        ops.append({"op": "text", "v": v, "s": s})
        cur[v] = s

    for v in range(nv):
        if rng.random() < 0.92:
            settext(v)
    anns = []
    lab = [0]

    def add_anns(n):
        for _ in range(n):
            v = rng.randrange(nv)
            L = len(cur[v]) if cur[v] is not None else 3
            if rng.random() < 0.04:
                L += 2                                              # beyond the text: outside the premises
            b = rng.randint(0, L)
            if cur[v] and _astral(cur[v]) and rng.random() < 0.6:   # prefer spans after an astral character
                first = min(i for i, c in enumerate(cur[v]) if c >= 0x10000)
                b = rng.randint(min(first + 1, L), L)
            e = b if rng.random() < 0.15 else rng.randint(b, L)
            lab[0] += 1
            idx = (not anns) or rng.random() < 0.55
            a = {"op": "ann", "l": lab[0], "v": v, "b": b, "e": e, "idx": idx, "ref": None}
            if full:
                a["t"] = rng.randrange(len(ANN_TYPES))
            if not idx and rng.random() < 0.05:
                a["b"] = a["e"] = None                              # offsets never set
            # a referenced-only annotation needs a referrer that is itself written
            if not idx:
                free = [p for p in anns if p["ref"] is None]
                if free and rng.random() < 0.8:
                    rng.choice(free)["ref"] = a["l"]
                else:
                    ops.append({"op": "holder", "v": rng.randrange(nv), "ref": a["l"]})
                    if full:
                        ops[-1]["t"] = rng.randrange(len(REC_TYPES))
            anns.append(a)
            ops.append(a)

    def max_end(v):
        return max([a["e"] for a in anns if a["v"] == v and a["e"] is not None] or [0])

    records(0.6)
    add_anns(rng.randint(1, 4))
    records(0.2)
    if rng.random() < 0.3:
        ops.append({"op": "save"})
    if rng.random() < 0.65:                                         # replace a text after annotations exist
        v = rng.randrange(nv)
        settext(v, minlen=max_end(v) if rng.random() < 0.85 else 0)
        if rng.random() < 0.3:
            v = rng.randrange(nv)
            settext(v, minlen=max_end(v) if rng.random() < 0.85 else 0)
    if rng.random() < 0.5:
        add_anns(rng.randint(1, 3))
    if rng.random() < 0.2:
        v = rng.randrange(nv)
        settext(v, minlen=max_end(v))
    post = [[] for _ in range(nv)]
    if rng.random() < 0.5:
        for _ in range(rng.randint(1, 2)):
            v = rng.randrange(nv)
            r = rng.random()
            if r < 0.08:
                post[v].append(None)
            elif r < 0.15:
                post[v].append([])
            else:
                m = max_end(v)
                post[v].append(_rand_text(rng, m + rng.randint(0, 5)) if m or rng.random() < 0.9 else [])
    sc = {"k": "doc", "nv": nv, "ops": ops, "post": post}
    if full:
        sc["ts"] = 1
    return sc


def _span_choice(r, t):
    """begin/end for an annotation of a view whose text is `t` (code points or None)"""
    L = len(t) if t is not None else 3
    if r.random() < 0.04:
        L += 2                                                      # beyond the text: outside the premises
    b = r.randint(0, L)
    if t and _astral(t) and r.random() < 0.7:                       # prefer spans after an astral character
        first = min(i for i, c in enumerate(t) if c >= 0x10000)
        b = r.randint(min(first + 1, L), L)
    e = b if r.random() < 0.15 else r.randint(b, L)
    return [b, e]


def _widen(sc, r):
    """Third wave, on top of a finished doc scenario and from a random stream of its own (so the scenario is otherwise
    the one earlier versions of this check generated): annotations change their view - before the first save and on the
    loaded CASes - and the documents are loaded in another layout than cassis writes.  New offsets are chosen inside the
    text the target view has when the document is written."""
    nv = sc["nv"]
    ops = sc["ops"]
    final, post = _final_texts(sc), _post_texts(sc)
    movable = [o["l"] for o in ops if o["op"] == "ann" and o["b"] is not None]

    def move(label, texts, state):
        v = r.randrange(nv)
        m = {"l": label, "v": v, "off": _span_choice(r, texts[v]), "idx": state["idx"] or r.random() < 0.4}
        t = texts[v]
        if t is not None and state["e"] <= len(t) and r.random() < 0.2:
            m["off"] = None                                         # same numbers, another text
        return m

    if movable and r.random() < 0.4:
        for _ in range(r.choice([1, 1, 2])):
            label = r.choice(movable)
            at = next(i for i, o in enumerate(ops) if o["op"] == "ann" and o["l"] == label)
            pos = r.randint(at + 1, len(ops))
            state = next(a for a in _anns({"ops": ops[:pos]}) if a["l"] == label)
            m = move(label, final, state)
            m["op"] = "move"
            ops.insert(pos, m)
            if r.random() < 0.35:
                ops.insert(pos, {"op": "save"})                     # both documents are written, then it moves
    if movable and r.random() < 0.3:
        sc["pmv"] = []
        for _ in range(r.choice([1, 1, 2])):
            label = r.choice(movable)
            state = next(a for a in _anns2(sc) if a["l"] == label)
            sc["pmv"].append(move(label, post, state))
    if r.random() < 0.5:
        sc["lay"] = r.randint(1, 10 ** 6)
    # fourth wave (drawn last: everything above is as before): the loaded documents do not list the views that have
    # no members - a view may still be the view of annotations that are only referenced from elsewhere
    if r.random() < 0.5:
        sc["nev"] = 1
    return sc


def _gen_hist(rng):
    def val():
        r = rng.random()
        if r < 0.2:
            return None
        if r < 0.35:
            return []
        return _rand_text(rng, rng.randint(1, 8))
    init = val()
    sets = [val() for _ in range(rng.choice([0, 0, 1, 1, 2, 3, 4]))]
    texts = [t for t in [init] + sets if t]
    hi = 2 * max([len(t) for t in texts] or [0]) + 2
    qs = [None] + list(range(-1, hi + 1))
    return {"k": "hist", "init": init, "sets": sets, "qs": qs}


def generate(rng, tier):
    if tier != "search":
        maxlen = 6 if tier == "thorough" else 4
        for n in range(maxlen + 1):
            for t in itertools.product(ALPHABET, repeat=n):
                yield {"k": "table", "text": list(t)}
        # every span of every short string, as a document
        k = 0
        for n in range((3 if tier == "thorough" else 2) + 1):
            for t in itertools.product(ALPHABET, repeat=n):
                k += 1
                other = [ALPHABET[(k + 3) % 5], ALPHABET[k % 5], 0x62][: 1 + k % 3]
                yield _span_doc(t, other, k)
        k = 0
        for n in reversed(range((3 if tier == "thorough" else 2) + 1)):       # longest first: the more telling replays
            for t in itertools.product(ALPHABET, repeat=n):
                k += 1
                other = [ALPHABET[(k + 3) % 5], ALPHABET[k % 5], 0x62][: 1 + k % 3]
                yield _span_doc(t, other, k, moved=True)
        k = 0
        for n in reversed(range((3 if tier == "thorough" else 2) + 1)):
            for t in itertools.product(ALPHABET, repeat=n):
                k += 1
                other = [ALPHABET[(k + 3) % 5], ALPHABET[k % 5], 0x62][: 1 + k % 3]
                yield _span_doc(t, other, k, unlisted=True)
    # the random stream of the third-wave content: derived from the seed without drawing from `rng`
    st = rng.getstate()[1]
    base = (st[1] ^ (st[2] << 1) ^ (st[3] << 2) ^ st[623]) ^ 0x5C03      # st[0] is the same for every seed
    n_tab = {"quick": 200, "thorough": 1500, "search": 1500}[tier]
    for r in range(n_tab):
        big = tier != "quick" and r % 150 == 0
        yield {"k": "table", "text": _rand_text(rng, rng.randint(200, 1500) if big else rng.randint(1, 40))}
    for _ in range({"quick": 300, "thorough": 1500, "search": 1000}[tier]):
        yield _gen_hist(rng)
    for i in range({"quick": 1500, "thorough": 6000, "search": 6000}[tier]):
        yield _widen(_gen_doc(rng), random.Random(base * 1000003 + i))


# ------------------------------------------------------------------------------------------------ implementation
def _run_table(cassis, sc):
    import importlib
    cas_mod = importlib.import_module("cassis.cas")
    s = _s(sc["text"])
    conv = cas_mod.Utf16CodepointOffsetConverter()
    conv.create_offset_mapping(s)
    ulen = _u16(s, len(s))
    return {"p2e": [conv.python_to_external(i) for i in range(-1, len(s) + 3)],
            "e2p": [conv.external_to_python(j) for j in range(-1, ulen + 3)],
            "units": _units(s)}


def _run_hist(cassis, sc):
    import importlib
    cas_mod = importlib.import_module("cassis.cas")
    ts = _ts(cassis)
    sofa = cas_mod.Sofa(type=ts.get_type("uima.cas.Sofa"), sofaNum=1, xmiID=1, sofaID="h", sofaString=_s(sc["init"]))
    for v in sc["sets"]:
        sofa.sofaString = _s(v)
    conv = sofa._offset_converter
    return {"text": _cps(sofa.sofaString),
            "p2e": [conv.python_to_external(q) for q in sc["qs"]],
            "e2p": [conv.external_to_python(q) for q in sc["qs"]]}


def _int_or_none(x):
    return None if x is None else int(x)


def _parse_xmi(data):
    """label -> [begin, end] from XMI bytes, standard library only."""
    out = {}
    root = ET.fromstring(data)
    for el in root:
        if "lab" in el.attrib:
            out[int(el.attrib["lab"])] = [_int_or_none(el.attrib.get("begin")), _int_or_none(el.attrib.get("end"))]
    return out


def _parse_json(data):
    out = {}
    doc = json.loads(data)
    fss = doc.get("%FEATURE_STRUCTURES", [])
    if isinstance(fss, dict):
        fss = list(fss.values())
    for fs in fss:
        if "lab" in fs:
            out[int(fs["lab"])] = [_int_or_none(fs.get("begin")), _int_or_none(fs.get("end"))]
    return out


def _collect(cas, nv, ann_types=("t.Ann",), rec_types=("t.Holder",), objs=None):
    """label -> [begin, end, covered text as code points or None, sofaID] of every annotation of one of the scenario's
    annotation types reachable in a loaded CAS (objs, if given, receives label -> the annotation object)."""
    seen = {}

    def walk(fs):
        while fs is not None and fs.type.name in ann_types and fs.lab not in seen:
            txt = fs.get_covered_text() if fs.sofa is not None else None
            seen[fs.lab] = [fs.begin, fs.end, _cps(txt), fs.sofa.sofaID if fs.sofa is not None else None]
            if objs is not None:
                objs[fs.lab] = fs
            fs = fs.ref
    for name in VIEW_NAMES[:nv]:
        view = cas.get_view(name)
        for tn in ann_types:
            for fs in view.select(tn):
                walk(fs)
        for tn in rec_types:
            for h in view.select(tn):
                walk(h.ref)
    return seen


def _xmi_bytes(cas):
    x = cas.to_xmi()
    return x.encode("utf-8") if isinstance(x, str) else x


def _relayout_json(js, n, nev=False):
    """The same JSON CAS with the entries of %FEATURE_STRUCTURES in another order / container: reversed, sofas after
    everything else, shuffled, or shuffled and as the object keyed by id (the older form, which the reader accepts);
    for odd n // 4 non-ASCII characters are written as \\u escapes (astral ones as surrogate pairs).  n = 0: order
    and container as written.  nev: views without members are not listed in %VIEWS (their sofa entry stays)."""
    doc = json.loads(js)
    if nev and isinstance(doc.get("%VIEWS"), dict):
        doc["%VIEWS"] = {name: v for name, v in doc["%VIEWS"].items() if v.get("%MEMBERS")}
    fss = doc.get("%FEATURE_STRUCTURES")
    if n and isinstance(fss, list):
        mode, r = n % 4, random.Random(n)
        if mode == 0:
            fss = fss[::-1]
        elif mode == 1:
            fss = ([fs for fs in fss if fs.get("%TYPE") != "uima.cas.Sofa"]
                   + [fs for fs in fss if fs.get("%TYPE") == "uima.cas.Sofa"][::-1])
        else:
            r.shuffle(fss)
        if mode == 3:
            fss = {str(fs["%ID"]): {k: v for k, v in fs.items() if k != "%ID"} for fs in fss}
        doc["%FEATURE_STRUCTURES"] = fss
    return json.dumps(doc, ensure_ascii=bool(n // 4 % 2))


def _relayout_xmi(data, n, nev=False):
    """The same XMI with the children of xmi:XMI (cas:NULL, sofas, feature structures, views) in another order:
    reversed, the sofas after everything else, or shuffled (n = 0: order as written).  nev: the document has no cas:View
    element for a view without members - which is how UIMA itself writes such a view; the cas:Sofa element stays.
    Standard library only."""
    ns = {}
    for _ev, (prefix, uri) in ET.iterparse(io.BytesIO(data), events=("start-ns",)):
        ns[prefix] = uri
    for prefix, uri in ns.items():
        try:
            ET.register_namespace(prefix, uri)
        except ValueError:
            pass
    root = ET.fromstring(data)
    kids = list(root)
    if nev:
        kids = [e for e in kids if not (e.tag.endswith("}View") and not (e.attrib.get("members") or "").strip())]
    mode, r = n % 3 if n else -1, random.Random(n)
    if mode < 0:
        pass
    elif mode == 0:
        kids = kids[::-1]
    elif mode == 1:
        sofa = [e for e in kids if e.tag.endswith("}Sofa")]
        kids = [e for e in kids if not e.tag.endswith("}Sofa")] + sofa[::-1]
    else:
        r.shuffle(kids)
    for e in list(root):
        root.remove(e)
    root.extend(kids)
    return ET.tostring(root, encoding="utf-8", xml_declaration=True)


def _do_move(views, fs, st, m):
    """views: the view handles by index; st: {'v', 'idx'} of the annotation before the move (updated)"""
    if st["idx"]:
        views[st["v"]].remove(fs)
    if m.get("off") is not None:
        fs.begin, fs.end = m["off"]
    if st["idx"] or m["idx"]:
        views[m["v"]].add(fs)
        st["idx"] = True
    else:
        fs.sofa = views[m["v"]].get_sofa()
    st["v"] = m["v"]


def _covered(fs):
    return _cps(fs.get_covered_text()) if fs.sofa is not None else None


def _run_doc(cassis, sc):
    from cassis import Cas, load_cas_from_json, load_cas_from_xmi
    ts = _ts(cassis, _variant(sc))
    ann_types, rec_types = _ann_types(sc), _rec_types(sc)
    nv = sc["nv"]
    cas = Cas(typesystem=ts)
    views = [cas] + [cas.create_view(n) for n in VIEW_NAMES[1:nv]]
    by_label = {}
    state = {}
    pending = []
    for op in sc["ops"]:
        if op["op"] == "text":
            views[op["v"]].sofa_string = _s(op["s"])
        elif op["op"] == "ann":
            kw = {"lab": op["l"]}
            if op["b"] is not None:
                kw["begin"] = op["b"]
            if op["e"] is not None:
                kw["end"] = op["e"]
            fs = ts.get_type(ann_types[op.get("t", 0)])(**kw)
            if op["idx"]:
                views[op["v"]].add(fs)
            else:
                fs.sofa = views[op["v"]].get_sofa()
            by_label[op["l"]] = fs
            state[op["l"]] = {"v": op["v"], "idx": bool(op["idx"])}
            if op["ref"] is not None:
                pending.append((fs, op["ref"]))
        elif op["op"] == "move":
            _do_move(views, by_label[op["l"]], state[op["l"]], op)
        elif op["op"] == "holder":
            h = ts.get_type(rec_types[op.get("t", 0)])()
            views[op["v"]].add(h)
            pending.append((h, op["ref"]))
        elif op["op"] == "rec":
            views[op["v"]].add(ts.get_type(rec_types[op.get("t", 0)])())
        elif op["op"] == "save":
            cas.to_xmi()
            cas.to_json()
    for fs, target in pending:
        fs.ref = by_label[target]
    labels = [a["l"] for a in _anns(sc)]
    xmi = _xmi_bytes(cas)
    js = cas.to_json()
    xw, jw = _parse_xmi(xmi), _parse_json(js)
    # the in-memory offsets must not have been touched by saving; the covered text is that of the annotation's own view
    mem = [[by_label[l].begin, by_label[l].end] for l in labels]
    mc = [_covered(by_label[l]) for l in labels]
    if sc.get("lay") or sc.get("nev"):     # the documents that are loaded are laid out differently from what cassis writes
        xmi = _relayout_xmi(xmi, sc.get("lay") or 0, bool(sc.get("nev")))
        js = _relayout_json(js, sc.get("lay") or 0, bool(sc.get("nev")))
    cx = load_cas_from_xmi(xmi.decode("utf-8"), typesystem=ts)
    cj = load_cas_from_json(js, typesystem=ts)
    ox, oj = {}, {}
    xl, jl = _collect(cx, nv, ann_types, rec_types, ox), _collect(cj, nv, ann_types, rec_types, oj)
    # second stage: annotations change their view on the loaded CASes, texts are replaced, both are saved again
    for c, objs in ((cx, ox), (cj, oj)):
        lviews = [c.get_view(n) for n in VIEW_NAMES[:nv]]
        st2 = {l: dict(v) for l, v in state.items()}
        for m in sc.get("pmv") or []:
            if m["l"] in objs:             # a missing annotation is reported by the oracle
                _do_move(lviews, objs[m["l"]], st2[m["l"]], m)
        for v, sets in enumerate(sc["post"]):
            for s in sets:
                c.get_view(VIEW_NAMES[v]).sofa_string = _s(s)
    xw2, jw2 = _parse_xmi(_xmi_bytes(cx)), _parse_json(cj.to_json())

    def seq(d):
        return [d.get(l) for l in labels]
    xc2 = [_covered(ox[l]) if l in ox else None for l in labels]
    jc2 = [_covered(oj[l]) if l in oj else None for l in labels]
    return {"xw": seq(xw), "jw": seq(jw), "xl": seq(xl), "jl": seq(jl), "xw2": seq(xw2), "jw2": seq(jw2), "mem": mem,
            "mc": mc, "xc2": xc2, "jc2": jc2}


def run_impl(cassis, sc):
    return {"table": _run_table, "hist": _run_hist, "doc": _run_doc}[sc["k"]](cassis, sc)


# ------------------------------------------------------------------------------------------------ oracle
def _oracle_conv(s, p2e, e2p, lo):
    """p2e / e2p: lists of results for the offsets lo, lo+1, ... ; s: the text the table must belong to."""
    n = len(s)
    bound = {_u16(s, i): i for i in range(n + 1)}
    for k, got in enumerate(p2e):
        i = lo + k
        want = _u16(s, i) if 0 <= i <= n else i
        if got != want:
            return f"python_to_external: offset {i} of {s!r} -> {got}, UTF-16 arithmetic says {want}"
    for k, got in enumerate(e2p):
        j = lo + k
        want = bound.get(j, j)
        if got != want:
            what = "a code-point boundary" if j in bound else "not a code-point boundary (must pass through)"
            return f"external_to_python: offset {j} of {s!r} -> {got}, expected {want} ({what})"
    return None


def _oracle_table(sc, obs):
    s = _s(sc["text"])
    m = _oracle_conv(s, obs["p2e"], obs["e2p"], -1)
    if m:
        return m
    n = len(s)
    vals = obs["p2e"][1:n + 2]
    if any(a >= b for a, b in zip(vals, vals[1:])):
        return f"python_to_external: not strictly monotone on {s!r}: {vals}"
    if all(ord(c) < 0x10000 for c in s) and (vals != list(range(n + 1))):
        return f"python_to_external: not the identity on BMP-only text {s!r}"
    for i, x in enumerate(vals):
        if obs["e2p"][x + 1] != i:
            return f"external_to_python(python_to_external({i})) = {obs['e2p'][x + 1]} on {s!r}"
    return None


def _oracle_hist(sc, obs):
    want_text = (sc["sets"][-1] if sc["sets"] else sc["init"])
    if obs["text"] != want_text:
        return f"sofaString: reads {obs['text']} after the history, last value assigned was {want_text}"
    if want_text is None:
        return None
    s = _s(want_text)
    qs = sc["qs"]
    if qs and qs[0] is None:
        if obs["p2e"][0] is not None or obs["e2p"][0] is not None:
            return "python_to_external(None) / external_to_python(None) is not None"
        return _oracle_conv_at(s, qs[1:], obs["p2e"][1:], obs["e2p"][1:])
    return _oracle_conv_at(s, qs, obs["p2e"], obs["e2p"])


def _oracle_conv_at(s, qs, p2e, e2p):
    n = len(s)
    bound = {_u16(s, i): i for i in range(n + 1)}
    for q, a, b in zip(qs, p2e, e2p):
        want = _u16(s, q) if 0 <= q <= n else q
        if a != want:
            return f"sofa history: python_to_external({q}) = {a} but the current text {s!r} gives {want}"
        if b != bound.get(q, q):
            return f"sofa history: external_to_python({q}) = {b} but the current text {s!r} gives {bound.get(q, q)}"
    return None


def _inside(t, b, e):
    return t is not None and b is not None and e is not None and 0 <= b <= e <= len(t)


def _oracle_doc(sc, obs):
    final = _final_texts(sc)
    post_final = _post_texts(sc)
    lay = f" (documents re-laid-out with {sc['lay']})" if sc.get("lay") else ""
    if sc.get("nev"):
        lay += " (views without members not listed in the loaded documents)"
    for k, a in enumerate(_anns(sc)):
        who = (f"annotation {a['l']} (type {_ann_types(sc)[a.get('t', 0)]}, {'indexed' if a['idx'] else 'referenced-only'}, "
               f"view {a['v']}, begin={a['b']}, end={a['e']}{', its view was changed ' + str(a['mv']) + 'x' if a.get('mv') else ''})")
        if obs["mem"][k] != [a["b"], a["e"]]:
            return f"in-memory offsets: {who} reads {obs['mem'][k]} after saving"
        for key, fmt in (("xw", "XMI"), ("jw", "JSON"), ("xl", "XMI load"), ("jl", "JSON load")):
            if obs[key][k] is None:
                return f"{fmt}: {who} is missing"
        t = final[a["v"]]
        if not _inside(t, a["b"], a["e"]):
            continue
        s = _s(t)
        want = [_u16(s, a["b"]), _u16(s, a["e"])]
        cov = s[a["b"]:a["e"]]
        if s.encode("utf-16-le")[2 * want[0]:2 * want[1]].decode("utf-16-le") != cov:
            return f"oracle self-check failed for {who}"
        for key, fmt in (("xw", "XMI"), ("jw", "JSON")):
            if obs[key][k] != want:
                return (f"written offsets: {fmt} has begin/end {obs[key][k]} for {who} of text {s!r}; "
                        f"UTF-16 code-unit offsets are {want}")
        for key, fmt in (("xl", "XMI"), ("jl", "JSON")):
            b, e, txt, sid = obs[key][k]
            if [b, e] != [a["b"], a["e"]]:
                return f"loaded offsets: after {fmt} load{lay} {who} has begin/end {[b, e]} (text {s!r})"
            if txt != _cps(cov):
                return f"covered text: after {fmt} load{lay} {who} covers {_s(txt)!r}, expected {cov!r}"
            if sid != VIEW_NAMES[a["v"]]:
                return f"loaded sofa: after {fmt} load{lay} {who} belongs to sofa {sid}"
    # in memory (after the view changes, before anything is loaded) the covered text is that of the annotation's own view
    for k, a in enumerate(_anns(sc)):
        t = final[a["v"]]
        if "mc" in obs and _inside(t, a["b"], a["e"]) and obs["mc"][k] != _cps(_s(t)[a["b"]:a["e"]]):
            return (f"covered text: in memory annotation {a['l']} (view {a['v']}, begin={a['b']}, end={a['e']}, its view was "
                    f"changed {a.get('mv', 0)}x) covers {_s(obs['mc'][k])!r}, its view's text is {_s(t)!r}")
    # second save, after annotations changed their view and the text was replaced on the loaded CAS: checked last, so
    # that a wrong first document is reported as such
    for k, (a, a2) in enumerate(zip(_anns(sc), _anns2(sc))):
        m = _oracle_ann2(sc, obs, k, a, a2, post_final, _inside(final[a["v"]], a["b"], a["e"]), lay)
        if m:
            return m
    return None


def _oracle_ann2(sc, obs, k, a, a2, post_final, ok1, lay):
    """the second stage for one annotation: a2 = its state at the second save.  Inside the premises if the loaded offsets
    are code points (first stage inside the premises) or were assigned anew on the loaded CAS, and lie in the text the view has now"""
    reassigned = any(m["l"] == a["l"] and m.get("off") is not None for m in sc.get("pmv") or [])
    if not (ok1 or reassigned):
        return None
    t2 = post_final[a2["v"]]
    if not _inside(t2, a2["b"], a2["e"]):
        return None
    s2 = _s(t2)
    want2 = [_u16(s2, a2["b"]), _u16(s2, a2["e"])]
    who = (f"annotation {a['l']} (type {_ann_types(sc)[a.get('t', 0)]}, {'indexed' if a2['idx'] else 'referenced-only'}, "
           f"on the loaded CAS in view {a2['v']}, begin={a2['b']}, end={a2['e']}"
           f"{', moved there after loading' if a2.get('mv', 0) > a.get('mv', 0) else ''})")
    for key, fmt in (("xw2", "XMI"), ("jw2", "JSON")):
        if obs[key][k] != want2:
            return (f"written offsets after changes on the loaded CAS: {fmt}{lay} has {obs[key][k]} for {who}; "
                    f"text is now {s2!r}, UTF-16 code-unit offsets are {want2}")
    for key, fmt in (("xc2", "XMI"), ("jc2", "JSON")):
        if key in obs and obs[key][k] != _cps(s2[a2["b"]:a2["e"]]):
            return (f"covered text after changes on the loaded CAS: {fmt}-loaded{lay} {who} covers {_s(obs[key][k])!r}; "
                    f"text is now {s2!r}")
    return None


def oracle(cassis, sc, obs):
    return {"table": _oracle_table, "hist": _oracle_hist, "doc": _oracle_doc}[sc["k"]](sc, obs)


# ------------------------------------------------------------------------------------------------ rendering
def _gtext(cps):
    return "[" + ";".join(str(c) for c in cps) + "]%N"


def _gotext(cps):
    return "None" if cps is None else f"(Some {_gtext(cps)})"


def _goz(x):
    return "None" if x is None else (f"(Some ({x}))" if x < 0 else f"(Some {x})")


def _gzl(l):
    return "[" + ";".join(f"({x})" if x < 0 else str(x) for x in l) + "]"


def _gl(items):
    return "[" + ";".join(items) + "]"


def render(sc, obs):
    k = sc["k"]
    if k == "table":
        return f"Table {_gtext(sc['text'])} {_gzl(obs['p2e'])} {_gzl(obs['e2p'])} {_gtext(obs['units'])}"
    if k == "hist":
        return (f"Hist {_gotext(sc['init'])} {_gl([_gotext(v) for v in sc['sets']])} {_gl([_goz(q) for q in sc['qs']])} "
                f"{_gl([_goz(x) for x in obs['p2e']])} {_gl([_goz(x) for x in obs['e2p']])}")
    views = [[] for _ in range(sc["nv"])]
    for op in sc["ops"]:
        if op["op"] == "text":
            views[op["v"]].append(op["s"])
    anns = _anns(sc)
    for key in ("xw", "jw", "xl", "jl", "xw2", "jw2"):
        if any(x is None for x in obs[key]):
            return None                      # an annotation is missing from a document: the oracle reports it
    g_views = _gl([_gl([_gotext(s) for s in v]) for v in views])
    aops = _aops(sc)

    def g_moves(moves):
        out = []
        for was_idx, m in moves:
            if was_idx:
                out.append("ARemove")
            if m.get("off") is not None:
                out.append(f"AOff {_goz(m['off'][0])} {_goz(m['off'][1])}")
            out.append(f"{'AAdd' if was_idx or m['idx'] else 'ASofa'} {m['v']}%nat")
        return _gl(out)

    def g_ann(a):
        a0 = next(o for o in sc["ops"] if o["op"] == "ann" and o["l"] == a["l"])        # as created
        g = f"mkDann {a0['v']}%nat {_goz(a0['b'])} {_goz(a0['e'])}"
        return f"ann_run ({g}) {g_moves(aops[a['l']])}" if aops[a["l"]] else g
    g_anns = _gl([g_ann(a) for a in anns])
    g_pmv = "[]"
    if sc.get("pmv"):
        cur = {a["l"]: a for a in anns}
        per = {a["l"]: [] for a in anns}
        for m in sc["pmv"]:
            if m["l"] in per:
                per[m["l"]].append((bool(cur[m["l"]]["idx"]), m))
                cur[m["l"]] = _moved(cur[m["l"]], m)
        g_pmv = _gl([g_moves(per[a["l"]]) for a in anns])

    def w(key):
        return _gl([f"({_goz(b)},{_goz(e)})" for b, e in obs[key]])

    def l(key):
        return _gl([f"({_goz(b)},{_goz(e)},{_gotext(t)})" for b, e, t, _sid in obs[key]])
    g_post = _gl([_gl([_gotext(s) for s in v]) for v in sc["post"]])
    def c(key):
        return _gl([_gotext(t) for t in obs[key]])
    return (f"Doc {g_views} {g_anns} {w('xw')} {w('jw')} {l('xl')} {l('jl')} {g_pmv} {g_post} {w('xw2')} {w('jw2')} "
            f"{c('xc2')} {c('jc2')}")


# ------------------------------------------------------------------------------------------------ bookkeeping
def nontrivial(sc):
    if sc["k"] == "table":
        return _astral(sc["text"][:-1]) if sc["text"] else False
    if sc["k"] == "hist":
        t = sc["sets"][-1] if sc["sets"] else sc["init"]
        return bool(sc["sets"]) and _astral(t)
    final = _final_texts(sc)
    for a in _anns(sc):
        t = final[a["v"]]
        if t is None or a["b"] is None or a["e"] is None or not (a["b"] <= a["e"] <= len(t)):
            continue
        if _astral(t[:a["b"]]):
            return True
    return False


def _normalise(sc):
    """Keep a shrunk doc scenario valid: no dangling refs, every referenced-only annotation has a referrer."""
    ops = sc["ops"]
    while True:
        labels = {o["l"] for o in ops if o["op"] == "ann"}
        for o in ops:
            if o["op"] == "ann" and o["ref"] is not None and o["ref"] not in labels:
                o["ref"] = None
        ops = [o for o in ops if not (o["op"] == "holder" and o["ref"] not in labels)]
        ops = [o for o in ops if not (o["op"] == "move" and o["l"] not in labels)]
        referenced = {o["ref"] for o in ops if o["op"] in ("ann", "holder") and o["ref"] is not None}
        indexed = {a["l"] for a in _anns({"ops": ops}) if a["idx"]}          # at the first save
        drop = [o for o in ops if o["op"] == "ann" and o["l"] not in indexed and o["l"] not in referenced]
        if not drop:
            break
        ops = [o for o in ops if o not in drop]
    sc["ops"] = ops
    if sc.get("pmv") is not None:
        labels = {o["l"] for o in ops if o["op"] == "ann"}
        sc["pmv"] = [m for m in sc["pmv"] if m["l"] in labels]
        if not sc["pmv"]:
            del sc["pmv"]
    return sc


def shrink_candidates(sc):
    cp = lambda x: json.loads(json.dumps(x))   # noqa: E731
    if sc["k"] == "table":
        for i in range(len(sc["text"])):
            yield {"k": "table", "text": sc["text"][:i] + sc["text"][i + 1:]}
        return
    if sc["k"] == "hist":
        for i in range(len(sc["sets"])):
            c = cp(sc)
            del c["sets"][i]
            yield c
        if sc["init"] is not None:
            c = cp(sc)
            c["init"] = None
            yield c
        for i, t in enumerate(sc["sets"]):
            for j in range(len(t or [])):
                c = cp(sc)
                del c["sets"][i][j]
                yield c
        return
    for i in range(len(sc["ops"])):
        c = cp(sc)
        del c["ops"][i]
        yield _normalise(c)
    if any(sc["post"]):
        c = cp(sc)
        c["post"] = [[] for _ in sc["post"]]
        yield c
    if sc.get("lay"):
        c = cp(sc)
        del c["lay"]
        yield c
    if sc.get("nev"):
        c = cp(sc)
        del c["nev"]
        yield c
    for i in range(len(sc.get("pmv") or [])):
        c = cp(sc)
        del c["pmv"][i]
        yield _normalise(c)
    for o in sc["ops"]:
        if o["op"] == "ann" and not o["idx"]:
            c = cp(sc)
            for p in c["ops"]:
                if p["op"] == "ann" and p["l"] == o["l"]:
                    p["idx"] = True
            yield c
    for i, o in enumerate(sc["ops"]):                      # back to the first-wave types, one FS at a time
        if o.get("t"):
            c = cp(sc)
            c["ops"][i]["t"] = 0
            yield c
    if sc.get("ts") and not any(o.get("t") for o in sc["ops"]):
        c = cp(sc)
        del c["ts"]
        yield c
    for i, o in enumerate(sc["ops"]):
        if o["op"] == "text" and o["s"]:
            for j in range(len(o["s"])):
                c = cp(sc)
                del c["ops"][i]["s"][j]
                n = len(c["ops"][i]["s"])
                for p in c["ops"]:
                    if p["op"] == "ann" and p["v"] == o["v"] and p["e"] is not None:
                        p["e"] = min(p["e"], n)
                        p["b"] = min(p["b"], p["e"])
                for p in c["ops"] + (c.get("pmv") or []):
                    if p.get("off") is not None and p["v"] == o["v"]:
                        p["off"] = [min(p["off"][0], n), min(p["off"][1], n)]
                yield c
    for i, o in enumerate(sc["ops"]):
        if o["op"] == "ann" and o["b"] is not None:
            if o["b"] < o["e"]:
                c = cp(sc)
                c["ops"][i]["e"] = o["b"]
                yield c
                c = cp(sc)
                c["ops"][i]["b"] = o["e"]
                yield c


def mutate(sc, rng):
    if sc["k"] != "doc":
        return
    for _ in range(10):
        c = json.loads(json.dumps(sc))
        for o in c["ops"]:
            if o["op"] == "text" and o["s"] is not None and rng.random() < 0.5:
                o["s"] = [0x1F600] + o["s"]
        yield c


def signature(sc, msg):
    return {"kind": sc.get("k"), "what": (msg or "").split(":")[0]}


def _shadowed(sc):
    """a non-annotation FS is created (smaller xmi:id) before an annotation whose type has the same short name"""
    seen = set()
    for o in sc["ops"]:
        if o["op"] in ("holder", "rec"):
            seen.add(_rec_types(sc)[o.get("t", 0)].rsplit(".", 1)[-1])
        elif o["op"] == "ann" and _ann_types(sc)[o.get("t", 0)].rsplit(".", 1)[-1] in seen:
            return True
    return False


def _moved_across(sc):
    """an indexed annotation is re-added to a view whose text (at the first save) differs from its previous view's"""
    final, st = _final_texts(sc), {}
    for o in sc["ops"]:
        if o["op"] == "ann":
            st[o["l"]] = o
        elif o["op"] == "move" and o["l"] in st:
            was = st[o["l"]]
            if was["idx"] and final[was["v"]] != final[o["v"]]:
                return True
            st[o["l"]] = _moved(was, o)
    return False


def _unlisted_views(sc):
    """the views that have no members when the first documents are written (and so are not listed if sc['nev'])"""
    members = {a["v"] for a in _anns(sc) if a["idx"]} | {o["v"] for o in sc["ops"] if o["op"] in ("holder", "rec")}
    return set(range(sc["nv"])) - members


def _ref_only_in_unlisted(sc, replaced=False):
    """the loaded documents do not list a view that is the view of a referenced-only annotation inside the premises
    (replaced: ... and the text of that view is replaced on the loaded CASes while the annotation stays there)"""
    if not sc.get("nev"):
        return False
    final, post, empty = _final_texts(sc), _post_texts(sc), _unlisted_views(sc)
    for a, a2 in zip(_anns(sc), _anns2(sc)):
        if a["v"] in empty and not a["idx"] and _inside(final[a["v"]], a["b"], a["e"]):
            if not replaced or (sc["post"][a["v"]] and a2["v"] == a["v"] and a2.get("mv", 0) == a.get("mv", 0)
                                and _inside(post[a["v"]], a2["b"], a2["e"])):
                return True
    return False


def distribution(scenarios, observations):
    docs = [s for s in scenarios if s["k"] == "doc"]
    anns = [a for s in docs for a in _anns(s)]

    def replaced(s):
        seen_ann = set()
        for o in s["ops"]:
            if o["op"] == "ann":
                seen_ann.add(o["v"])
            elif o["op"] == "text" and o["v"] in seen_ann:
                return True
        return False
    return {
        "table_cases": sum(1 for s in scenarios if s["k"] == "table"),
        "hist_cases": sum(1 for s in scenarios if s["k"] == "hist"),
        "doc_cases": len(docs),
        "max_text_len": max([len(s["text"]) for s in scenarios if s["k"] == "table"] or [0]),
        "tables_with_astral": sum(1 for s in scenarios if s["k"] == "table" and _astral(s["text"])),
        "annotations": len(anns),
        "referenced_only_annotations": sum(1 for a in anns if not a["idx"]),
        "docs_with_2plus_views": sum(1 for s in docs if s["nv"] > 1),
        "docs_with_cross_view_ref": sum(
            1 for s in docs if any(a["ref"] is not None and a["v"] != next(b["v"] for b in _anns(s) if b["l"] == a["ref"])
                                   for a in _anns(s))),
        "docs_text_replaced_after_annotations": sum(1 for s in docs if replaced(s)),
        "docs_text_replaced_on_loaded_cas": sum(1 for s in docs if any(s["post"])),
        "docs_with_save_in_the_middle": sum(1 for s in docs if any(o["op"] == "save" for o in s["ops"])),
        "docs_with_colliding_type_names": sum(1 for s in docs if s.get("ts")),
        "annotations_by_type": {t: sum(1 for s in docs for a in _anns(s) if _ann_types(s)[a.get("t", 0)] == t)
                                for t in ANN_TYPES},
        "docs_record_before_annotation_same_short_name": sum(1 for s in docs if _shadowed(s)),
        "docs_annotation_changes_view_before_first_save": sum(1 for s in docs if any(o["op"] == "move" for o in s["ops"])),
        "docs_annotation_moved_to_view_with_other_text": sum(1 for s in docs if _moved_across(s)),
        "docs_annotation_changes_view_right_after_a_save": sum(
            1 for s in docs if any(o["op"] == "move" and i and s["ops"][i - 1]["op"] == "save" for i, o in enumerate(s["ops"]))),
        "docs_annotation_changes_view_on_loaded_cas": sum(1 for s in docs if s.get("pmv")),
        "docs_loaded_in_another_layout": sum(1 for s in docs if s.get("lay")),
        "docs_loaded_with_sofas_after_annotations_astral": sum(
            1 for s in docs if s.get("lay") and s["lay"] % 4 != 2 and nontrivial(s)),
        "docs_loaded_without_listing_memberless_views": sum(1 for s in docs if s.get("nev") and _unlisted_views(s)),
        "docs_referenced_only_annotation_of_unlisted_view": sum(1 for s in docs if _ref_only_in_unlisted(s)),
        "docs_referenced_only_annotation_of_unlisted_view_text_replaced_after_load": sum(
            1 for s in docs if _ref_only_in_unlisted(s, True)),
    }


def extra_checks(ctx):
    """str.encode('utf-16-le') contract against the encoder formula of the model (coq/Offsets.v utf16_units)."""
    rng = ctx["rng"]
    if ctx["tier"] == "thorough":
        cps = [c for c in range(0x110000) if not 0xD800 <= c < 0xE000]
    else:
        cps = [0, 0x7F, 0x80, 0x7FF, 0x800, 0xD7FF, 0xE000, 0xFFFD, 0xFFFF, 0x10000, 0x10001, 0x103FF, 0x10400, 0x10FFFF]
        cps += [rng.randrange(0xE000, 0x110000) for _ in range(3000)] + [rng.randrange(0, 0xD800) for _ in range(1000)]
    for c in cps:
        want = [c] if c < 0x10000 else [0xD800 + ((c - 0x10000) >> 10), 0xDC00 + ((c - 0x10000) & 0x3FF)]
        got = _units(chr(c))
        if got != want:
            return [("utf16_codec_contract", False, f"U+{c:04X} encodes to {got}, model formula gives {want}", None)]
    return [("utf16_codec_contract", True, f"{len(cps)} code points", None)]


MANIFEST = {
    "level_text": "Machine-checked proof (Coq 8.16) that the modelled mechanism - the two dictionaries built by "
                  "create_offset_mapping, the lookups with their None/KeyError pass-through branches, the Sofa constructor "
                  "and sofaString setter, and the conversion sites of both codecs - maps every code-point offset of every "
                  "text to the UTF-16 length of the prefix (independent definition), is strictly monotone, the identity on "
                  "BMP text, mutually inverse on valid offsets, passes non-boundary and out-of-range offsets through, "
                  "commutes with slicing of the UTF-16 encoding, follows the current text through every history of "
                  "constructor/setter calls, and round-trips through both readers; the model is tied to /repo on every run "
                  "by evaluating it inside Coq on the cases the implementation was run on.",
    "level_note": "Trusted: Coq kernel + vm_compute; hand-written model coq/Offsets.v; harness building real CASes and "
                  "reducing emitted XMI/JSON (parsed with xml.etree/json) to begin/end per annotation; str.encode('utf-16-le') "
                  "by contract (checked). Print Assumptions: closed under the global context.",
    "technique": "Coq proof over an executable Gallina model + in-Coq behavioural correspondence (exhaustive small scopes, "
                 "random large) + independent UTF-16 oracle on real documents",
    "design_ref": "DESIGN.md section 5, C03",
}
