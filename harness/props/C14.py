"""C14 — serialisation is deterministic and does not disturb the CAS.

Three kinds of scenario:
  seq    an in-process history (<= 4 operations out of to_xmi, to_json, typesystem.to_xml, select(T), select_all, typecheck)
         on one CAS (views may hold their sofa data in a uima.cas.ByteArray, with or without an id), every operation called
         through one of the handles of the CAS (the Cas objects returned by Cas() / create_view and by get_view, `via`), the
         canonical queries asked through every handle after every step; optionally an edit between two operations (`edit`:
         document text of views replaced or set for the first time, primitive feature values and mime types changed) after
         which the later documents and answers must be those of an identically built and edited CAS (own type system) on
         which nothing was called before; compared with the Coq model (coq/Determinism.v `hrun`) step by step and judged
         by the oracle;
  emit   one CAS with all ids present: the emitted orders (XMI structures / namespaces / members, JSON types / structures /
         members, type-system XML names) against the model's emit pipelines on inputs given in a different order;
  bytes  (only produced by `extra_checks`, and re-run by --replay) the subprocess oracle: the same scenario serialised in
         fresh interpreters under different PYTHONHASHSEEDs to a string, a str path and a Path; digests must agree.
"""
import hashlib
import itertools
import json
import os
import random
import shutil
import subprocess
import xml.etree.ElementTree as ET
from io import BytesIO

from harness import c14_driver, core, scen
from harness.gallina import glist, gstr

ID = "C14"
COQ_TARGETS = ["Determinism.vo", "DeterminismProofs.vo", "CorrC14.vo", "DocDeterminism.vo", "DocDeterminismProofs.vo", "Props/C14.vo"]
PROPS_FILE = "Props/C14.v"
CORR_IMPORTS = "Base Determinism CorrC14"
ENTRY = ("cassis.cas.Cas.to_xmi / to_json / _serialize / _find_all_fs / typecheck, cassis.xmi.CasXmiSerializer.serialize, "
         "cassis.json.CasJsonSerializer.serialize, cassis.typesystem.TypeSystem.to_xml / transitive_closure")
CASE_TIMEOUT_S = 120
RULE = (
    "seq: for 2 (quick) / 8 (thorough) CASes every history of length <= 3 over the six operations plus every history of 4 "
    "distinct operations (618 each), and for 60 / 400 further random CASes 8 / 12 random histories of length 4; half of the "
    "CASes are built without explicit ids (indexed structures get generator ids, merely referenced ones and - for JSON - "
    "inlined collections have none until a save), half with an explicit id on every structure. emit: 60 / 300 CASes with all "
    "ids present, >= 6 user types in >= 5 packages (two pairs of packages share their last component). In all three kinds "
    "each view has, with probability 0.3 (0.5 in the exhaustively explored CASes, which are chosen to have one that only its "
    "sofa holds), a uima.cas.ByteArray as sofa data set through view.sofa_array: id-less in the CASes without explicit ids and "
    "in half of the others (never in emit cases), 1 in 5 also indexed, 1 in 5 shared with the previous sofa. bytes (subprocess "
    "oracle): 40 / 300 such CASes x PYTHONHASHSEED in {0,1,2,random} / {0..5,random,random} x 3 sinks x 2 XMI + 7 JSON option "
    "combinations + type systems built through the API, reloaded from XML (also with three redeclared predefined types), "
    "reconstructed from JSON (FULL, MINIMAL) and merged. A seq case is non-trivial when a save in it assigns an id or two "
    "documents of one format are written; an emit case when >= 3 structures and >= 4 types are written. "
    "Handles: every CAS has two handles per view (the object it was built through and one from get_view); every operation of "
    "a seq history is called through a randomly chosen one (a secondary view's with probability >= 1/2 when there is one; the "
    "exhaustively explored CASes have >= 2 views) and select_all / select(T) / get_sofa are asked through every handle after "
    "every step. Edits: in half of the random histories the CAS is edited between two operations (at least one document is "
    "written before and one after): per view with probability 0.7 the text is replaced by one of at least the same length in "
    "which each character switches between BMP and supplementary with probability 1/2 (in 1 of 6 the view had no text at all "
    "until then, the annotations already carrying their offsets), primitive feature values and mime types change with "
    "probability 0.4 each; the same scenario with the ids of that moment is built a second time with a type system of its own, "
    "edited, and asked for the same later operations as long as they have nothing to number."
)
TRUSTED = [
    "Coq 8.16.1 kernel and vm_compute; theorems in Props/C14.v are closed under the global context",
    "hand-written model coq/Determinism.v: every set-iteration / id()-dependent site is an input list in arbitrary order, "
    "Python's stable sorted(key=) is a stable insertion sort, str order is byte-wise order on UTF-8 (sleb), "
    "id assignment is `visit` over the labels a format's traversal reaches; sofa data arrays are visited after it by XMI "
    "(those not found by identity, xmi_trav) and before it by JSON (each once, and left out of the sorted part: save_pre), "
    "not at all by typecheck",
    "PARTIAL: byte identity across processes, hash seeds and sinks (CPython hashing, lxml, json, file objects) is observed "
    "by the subprocess oracle on every run, not proved",
    "which structures a format reaches is computed by the harness (identity-based traversal adapted from harness/scen.py, "
    "not Cas._find_all_fs); reachability itself is C04's theorem",
    "duplicate-id detection in _find_all_fs is not modelled: under the premises (ids distinct and below the generator's "
    "next id, or all present) C14_save_ids_fresh_distinct shows it is unreachable",
    "documents are parsed with the standard library (xml.etree, json) to observe the emitted order; digests are sha256",
    "an edit between two operations changes nothing the model knows (labels, ids, traversals, index membership); the model "
    "runs the whole history, digest classes are counted per segment; that the documents after the edit are those of a CAS "
    "never serialised before is a differential observation (second build of the scenario), not modelled",
]
ASSUMPTIONS = [
    "every structure a format writes separately has an id, or ids are assigned in the order the implementation is seen to "
    "reach the id-less ones (that order depends on id() among ties and is an input of the model)",
    "explicit ids do not collide with ids the generator will hand out (ids below next, or nothing left to assign)",
    "sofa data arrays (Sofa.sofaArray) are uima.cas.ByteArray objects set through view.sofa_array; the largest explicit id "
    "of a CAS that also has id-less structures belongs to an indexed structure (so that the generator is ahead of it)",
    "edits between operations keep index membership, references and ids (text, mime type, primitive features other than "
    "begin/end); a replaced text is at least as long as the one before, so offsets stay inside it",
]

OPS = ["xmi", "json", "tsxml", "select", "select_all", "typecheck"]
GOP = {"xmi": "OXmi", "json": "OJson", "tsxml": "OTsXml", "select": "OSelect", "select_all": "OSelectAll",
       "typecheck": "OTypecheck"}
XMI_NS = "http://www.omg.org/XMI"
CAS_NS = "http:///uima/cas.ecore"
DOCANN = "uima.tcas.DocumentAnnotation"
DRIVER = os.path.join(core.VERIF, "harness", "c14_driver.py")


# ------------------------------------------------------------------------------------------------ building / observing

_TS_CACHE = {}


def _build(cassis, sc):
    key = json.dumps(sc["tspec"], sort_keys=True)
    ts = _TS_CACHE.get(key)
    if ts is None:
        if len(_TS_CACHE) > 64:
            _TS_CACHE.clear()
        ts = _TS_CACHE[key] = scen.build_ts(cassis, sc["tspec"])
    cas, views, objs = scen.build_cas(cassis, ts, sc["cspec"])
    c14_driver.set_sofa_arrays(sc["cspec"], views, objs)
    return ts, cas, views, objs


def _arrays(sc):
    """Labels of the byte arrays holding sofa data, in view order (a label twice when two sofas share one array)."""
    return [v["array"] for v in sc["cspec"]["views"] if v.get("array") is not None]


def _is_fs(x):
    return hasattr(x, "type") and hasattr(x, "xmiID") and not hasattr(x, "sofaID")


def reach(cas, fmt):
    """Structures the format writes separately, by an identity-based traversal from the indexed structures (adapted from
    harness/scen.py canon(); never Cas._find_all_fs).  fmt 'xmi': collections held by features without
    multipleReferencesAllowed are looked through, not listed; fmt 'json': they are listed."""
    ts = cas.typesystem
    T = scen.T

    def arr_like(tn):
        return tn in scen.ARRS or tn == scen.FS_ARRAY

    def list_like(tn):
        return tn in scen.LISTS or tn == scen.FS_LIST

    def inline(f):
        return fmt == "xmi" and not f.multipleReferencesAllowed and (arr_like(f.rangeType.name) or list_like(f.rangeType.name))

    def is_prim_range(t):
        while t is not None:
            if t.name in scen.PRIMS:
                return True
            t = t.supertype
        return False

    def succs(x):
        t = ts.get_type(x.type.name)
        if arr_like(t.name):
            return [e for e in (x.elements or []) if _is_fs(e)] if t.name == scen.FS_ARRAY else []
        out = []
        for f in t.all_features:
            if f.name == "sofa" or is_prim_range(f.rangeType):
                continue
            v = getattr(x, f.name, None)
            if v is None:
                continue
            if inline(f):
                if f.rangeType.name == scen.FS_ARRAY:
                    out.extend(e for e in (v.elements or []) if _is_fs(e))
                elif f.rangeType.name == scen.FS_LIST:
                    cur, nodes = v, set()
                    while hasattr(cur, "head") and id(cur) not in nodes:
                        nodes.add(id(cur))
                        if _is_fs(cur.head):
                            out.append(cur.head)
                        cur = cur.tail
            elif _is_fs(v):
                out.append(v)
        return out

    seen, order = set(), []
    for sofa in cas.sofas:
        stack = list(cas.get_view(sofa.sofaID).select_all())
        while stack:
            x = stack.pop()
            if x is None or not _is_fs(x) or id(x) in seen or x.type.name == T + "NULL" or x.xmiID == 0:
                continue
            seen.add(id(x))
            order.append(x)
            stack.extend(succs(x))
    return order


def _fingerprint(ts, objs, lab_of, views=()):
    """Content of every labelled structure without ids: feature values with references as labels; and of every sofa."""

    def cv(v):
        if v is None or isinstance(v, (bool, int, str)):
            return v
        if isinstance(v, float):
            return scen.fl(v)
        if isinstance(v, (bytes, bytearray)):
            return list(v)
        if isinstance(v, list):
            return [cv(e) for e in v]
        if hasattr(v, "sofaID"):
            return ["sofa", v.sofaID, v.sofaNum, v.xmiID, v.sofaString, v.mimeType, v.sofaURI,
                    None if v.sofaArray is None else lab_of.get(id(v.sofaArray), -1)]
        if _is_fs(v):
            return ["ref", lab_of.get(id(v), -1)]
        return repr(v)

    out = []
    for lab in sorted(objs):
        fs = objs[lab]
        t = ts.get_type(fs.type.name)
        if t.name in scen.ARRS or t.name == scen.FS_ARRAY:
            out.append([lab, t.name, cv(fs.elements)])
        else:
            out.append([lab, t.name, [[f.name, cv(getattr(fs, f.name, None))] for f in t.all_features]])
    for v in views:
        out.append(cv(v.get_sofa()))
    return hashlib.sha256(json.dumps(out, sort_keys=True).encode()).hexdigest()[:16]


def _parse_xmi(text):
    """-> (structures [(id, package)], packages in xmlns order without xmi/uima.cas, sofas [(id,num,name,sofaArray)], views [(sofa,[members])])"""
    ns_order = []
    root = None
    for ev, el in ET.iterparse(BytesIO(text.encode("utf-8")), events=("start-ns", "start")):
        if ev == "start-ns":
            ns_order.append(el[1])
        elif root is None:
            root = el
    # iterparse has consumed the document: root is complete now
    fs, sofas, views = [], [], []

    def pkg(uri):
        assert uri.startswith("http:///") and uri.endswith(".ecore"), uri
        return uri[len("http:///"):-len(".ecore")].replace("/", ".")

    for el in root:
        uri, _, local = el.tag[1:].partition("}")
        if uri == CAS_NS and local == "NULL":
            continue
        if uri == CAS_NS and local == "Sofa":
            arr = el.get("sofaArray")
            sofas.append((int(el.get("{%s}id" % XMI_NS)), int(el.get("sofaNum")), el.get("sofaID"), None if arr is None else int(arr)))
        elif uri == CAS_NS and local == "View":
            views.append((int(el.get("sofa")), [int(m) for m in (el.get("members") or "").split()]))
        else:
            fs.append((int(el.get("{%s}id" % XMI_NS)), pkg(uri)))
    nss = [pkg(u) for u in ns_order if u not in (XMI_NS, CAS_NS)]
    return fs, nss, sofas, views


def _parse_json(text):
    d = json.loads(text)
    fs = [(x["%ID"], x["%TYPE"]) for x in d.get("%FEATURE_STRUCTURES", [])]
    types = list(d["%TYPES"].keys()) if "%TYPES" in d else None
    views = [(name, v["%SOFA"], list(v["%MEMBERS"])) for name, v in d.get("%VIEWS", {}).items()]
    return fs, types, views


def _json_sofa_arrays(text):
    """Per sofa structure, in document order: the id its @sofaArray names (None without one)."""
    return [x.get("@sofaArray") for x in json.loads(text).get("%FEATURE_STRUCTURES", []) if x["%TYPE"] == "uima.cas.Sofa"]


def _parse_tsxml(text):
    ns = "{http://uima.apache.org/resourceSpecifier}"
    root = ET.fromstring(text.encode("utf-8"))
    return [td.find(ns + "name").text for td in root.iter(ns + "typeDescription")]


def _subtree(cassis, tspec, tname):
    schema = scen.schema_of(cassis, tspec)
    return {n for n, s in schema.items() if tname in s["anc"]}


def _query_labels(cassis, sc):
    """Label lists behind the canonical queries, from the scenario alone: per view the members, then per view the members
    whose type lies in the subtree of the queried type."""
    cs = sc["cspec"]
    nv = len(cs["views"])
    types = {o["o"]: o["type"] for o in cs["objs"]}
    sub = _subtree(cassis, sc["tspec"], sc["qtype"])
    per_view = [[] for _ in range(nv)]
    for vi, lab in cs["members"]:
        if lab not in per_view[vi]:
            per_view[vi].append(lab)
    return per_view + [[l for l in m if types[l] in sub] for m in per_view]


def _queries(views, qtype):
    return [sorted(x.xmiID for x in v.select_all()) for v in views] + [sorted(x.xmiID for x in v.select(qtype)) for v in views]


def _handles(cas, views, cspec):
    """Two handles per view: the Cas object the view was built through (Cas() / create_view) and one from get_view."""
    return list(views) + [cas.get_view(v["name"]) for v in cspec["views"]]


def _cur(handles, cspec):
    """Per handle the index of the view it points at, asked through the handle (-1: none of the scenario's views)."""
    names = [v["name"] for v in cspec["views"]]
    out = []
    for h in handles:
        n = h.get_sofa().sofaID
        out.append(names.index(n) if n in names else -1)
    return out


def _apply_edit(edit, views, objs):
    for vi, cps in edit.get("text", []):
        views[vi].sofa_string = "".join(chr(c) for c in cps)
    for vi, m in edit.get("mime", []):
        views[vi].sofa_mime = m
    for lab, pn, v in edit.get("feat", []):
        setattr(objs[lab], pn, scen.unfl(v["f"]) if "f" in v else next(iter(v.values())))


def _do(op, h, ts, qtype):
    """One operation of a history through handle h -> (document text or None, typecheck errors or None)."""
    if op == "xmi":
        return h.to_xmi(), None
    if op == "json":
        return h.to_json(), None
    if op == "tsxml":
        return ts.to_xml(), None
    if op == "select":
        list(h.select(qtype))
        return None, None
    if op == "select_all":
        list(h.select_all())
        return None, None
    if op == "typecheck":
        return None, h.typecheck()
    raise ValueError(op)


def _u16(cps, i):
    return i + sum(1 for c in (cps or [])[:i] if c >= 0x10000)


def _expected_next(sc):
    """The generator's next id after the CAS was built, from the scenario: sofas take 1..n; Cas.add hands an id-less
    structure the next id and reserves an explicit one (the generator then continues above it)."""
    cs = sc["cspec"]
    ids = {o["o"]: o.get("id") for o in cs["objs"]}
    nxt = len(cs["views"]) + 1
    for _vi, lab in cs["members"]:
        if ids[lab] is None:
            ids[lab] = nxt
            nxt += 1
        elif ids[lab] >= nxt:
            nxt = ids[lab] + 1
    return nxt


# ------------------------------------------------------------------------------------------------ run_impl


def run_impl(cassis, sc):
    if sc["kind"] == "seq":
        return _run_seq(cassis, sc)
    if sc["kind"] == "emit":
        return _run_emit(cassis, sc)
    return _run_bytes([sc], sc.get("seeds", ["0", "1", "2", "random"]))[0]


def _run_seq(cassis, sc):
    ts, cas, views, objs = _build(cassis, sc)
    cs = sc["cspec"]
    handles = _handles(cas, views, cs)
    via = sc.get("via") or [0] * len(sc["ops"])
    edit = sc.get("edit")
    labs = sorted(objs)
    assert labs == list(range(1, len(labs) + 1))
    lab_of = {id(fs): l for l, fs in objs.items()}
    X = sorted(lab_of[id(x)] for x in reach(cas, "xmi") if id(x) in lab_of)
    J = sorted(lab_of[id(x)] for x in reach(cas, "json") if id(x) in lab_of)
    A = _arrays(sc)
    needs = {"xmi": set(X) | set(A), "json": set(J) | set(A), "typecheck": set(X)}
    ids0 = [objs[l].xmiID for l in labs]
    q0 = _queries(handles, sc["qtype"])
    cur0 = _cur(handles, cs)
    fp0 = _fingerprint(ts, objs, lab_of, views)
    steps = []
    ed = None
    twin = None
    for k, op in enumerate(sc["ops"]):
        if edit is not None and k == edit["at"]:
            # the edit, and the same scenario (with the ids of this moment) built once more, with a type system of its own,
            # and edited in the same way: a CAS with the same content on which nothing has been called
            _apply_edit(edit, views, objs)
            ids_at = [objs[l].xmiID for l in labs]
            ed = {"ids": ids_at, "fp": _fingerprint(ts, objs, lab_of, views), "queries": _queries(handles, sc["qtype"]),
                  "cur": _cur(handles, cs)}
            cs2 = json.loads(json.dumps(cs))
            for o in cs2["objs"]:
                o["id"] = ids_at[o["o"] - 1]
            ts2 = scen.build_ts(cassis, sc["tspec"])
            cas2, views2, objs2 = scen.build_cas(cassis, ts2, cs2)
            c14_driver.set_sofa_arrays(cs2, views2, objs2)
            handles2 = _handles(cas2, views2, cs2)
            _apply_edit(edit, views2, objs2)
            lab_of2 = {id(fs): l for l, fs in objs2.items()}
            twin = {"ts": ts2, "handles": handles2, "objs": objs2, "alive": True}
            ed["twin_ids"] = [objs2[l].xmiID for l in labs]
            ed["twin_fp"] = _fingerprint(ts2, objs2, lab_of2, views2)
            ed["twin_queries"] = _queries(handles2, sc["qtype"])
        st = {"op": op, "via": via[k], "doc": None, "digest": None, "tc": None, "tw": None}
        h = handles[via[k]]
        text, errs = _do(op, h, ts, sc["qtype"])
        if op in ("xmi", "json"):
            st["digest"] = hashlib.sha256(text.encode("utf-8")).hexdigest()[:20]
            if op == "xmi":
                pfs, _nss, psofas, _pviews = _parse_xmi(text)
                doc_ids = [i for i, _p in pfs]
                st["sofa_arr"] = [a for _i, _n, _name, a in psofas]
            else:
                entries = _parse_json(text)[0]
                doc_ids = [i for i, t in entries if t != "uima.cas.Sofa"]
                last = max(k2 for k2, (_i, t) in enumerate(entries) if t == "uima.cas.Sofa")
                # the leading part: per view the byte array holding the sofa data (if any), then the sofa
                st["head"] = [["sofa" if t == "uima.cas.Sofa" else "fs", i] for i, t in entries[:last + 1]]
                st["sofa_arr"] = _json_sofa_arrays(text)
            by_id = {}
            for l in labs:
                by_id.setdefault(objs[l].xmiID, l)
            st["doc_ids"] = doc_ids
            st["doc"] = [by_id.get(i, 0) for i in doc_ids]
        elif op == "tsxml":
            st["digest"] = hashlib.sha256(text.encode("utf-8")).hexdigest()[:20]
        elif op == "typecheck":
            by_id = {objs[l].xmiID: l for l in labs}
            st["tc"] = sorted((by_id.get(e.xmiID, 0), str(e.description)) for e in errs)
        st["ids"] = [objs[l].xmiID for l in labs]
        st["queries"] = _queries(handles, sc["qtype"])
        st["cur"] = _cur(handles, cs)
        st["fp"] = _fingerprint(ts, objs, lab_of, views)
        if twin is not None and twin["alive"]:
            # the same operation on the second CAS, as long as it has nothing to number there (ids it would hand out come
            # from a generator in another state: not comparable)
            o2 = twin["objs"]
            if any(o2[l].xmiID is None for l in needs.get(op, ())):
                twin["alive"] = False
            else:
                t2, e2 = _do(op, twin["handles"][via[k]], twin["ts"], sc["qtype"])
                tw = {"ids": [o2[l].xmiID for l in labs], "queries": _queries(twin["handles"], sc["qtype"]), "digest": None, "tc": None}
                if t2 is not None:
                    tw["digest"] = hashlib.sha256(t2.encode("utf-8")).hexdigest()[:20]
                if e2 is not None:
                    by_id2 = {o2[l].xmiID: l for l in labs}
                    tw["tc"] = sorted((by_id2.get(e.xmiID, 0), str(e.description)) for e in e2)
                st["tw"] = tw
        steps.append(st)
    final = {l: objs[l].xmiID for l in labs}

    def order(ls):
        return sorted(ls, key=lambda l: (final[l] is None, final[l] if final[l] is not None else 0, l))

    ql = _query_labels(cassis, sc)
    return {"X": X, "J": J, "A": A, "tx": order(X), "tj": order(J), "ids0": ids0, "q0": q0, "cur0": cur0, "fp0": fp0,
            "steps": steps, "edit": ed, "next": _expected_next(sc), "qlabels": ql}


REDECL = c14_driver.REDECL
redeclare_xml = c14_driver.redeclare_xml


def _run_emit(cassis, sc):
    from cassis.typesystem import TypeSystemMode
    ts, cas, views, objs = _build(cassis, sc)
    lab_of = {id(fs): l for l, fs in objs.items()}
    r = random.Random(json.dumps(sc["cspec"]["members"]) + str(len(sc["tspec"])))

    def found(fmt):
        return sorted((lab_of[id(x)], x.xmiID, x.type.name) for x in reach(cas, fmt) if id(x) in lab_of)

    # XMI also writes every byte array holding sofa data (once); JSON writes those in front of their sofas
    arr_labs = _arrays(sc)
    fx = found("xmi")
    have = {l for l, _i, _t in fx}
    for l in arr_labs:
        if l not in have:
            have.add(l)
            fx.append((l, objs[l].xmiID, objs[l].type.name))
    obs = {"found_x": sorted(fx), "found_j": found("json"),
           "arr_ids": [None if v.get("array") is None else objs[v["array"]].xmiID for v in sc["cspec"]["views"]]}
    obs["views"] = [[v["name"], i + 1, [x.xmiID for x in views[i].select_all()]] for i, v in enumerate(sc["cspec"]["views"])]
    fs, nss, sofas, xviews = _parse_xmi(cas.to_xmi())
    obs.update({"x_fs": fs, "x_ns": nss, "x_sofas": sofas, "x_views": xviews})
    user = [t["name"] for t in sc["tspec"]]
    jt = []
    jfs = jviews = None
    for mode in ("FULL", "MINIMAL"):
        f, types, vs = _parse_json(cas.to_json(type_system_mode=TypeSystemMode[mode]))
        if mode == "FULL":
            given = user + [DOCANN]
            jfs, jviews = f, vs
        else:
            given = list(types)
        r.shuffle(given)
        jt.append([mode, given, types])
    fnone, tnone, _v = _parse_json(cas.to_json(type_system_mode=TypeSystemMode.NONE))
    obs.update({"j_types": jt, "j_fs": jfs, "j_views": jviews, "j_none_types": tnone, "j_none_fs": fnone})
    tsx = []
    given = user + [DOCANN]
    r.shuffle(given)
    xml = ts.to_xml()
    tsx.append([[], given, _parse_tsxml(xml)])
    ts2 = cassis.load_typesystem(redeclare_xml(xml))
    red = list(REDECL)
    r.shuffle(red)
    given2 = list(given)
    r.shuffle(given2)
    tsx.append([red, given2, _parse_tsxml(ts2.to_xml())])
    obs["ts"] = tsx
    return obs


# ------------------------------------------------------------------------------------------------ subprocess oracle


def _run_bytes(scenarios, seeds):
    """One fresh interpreter per hash seed, all scenarios in each.  -> per scenario {seed-index: {key: digest}}."""
    work = os.path.join(core.VERIF, ".work", str(os.getpid()))
    os.makedirs(work, exist_ok=True)
    try:
        procs = []
        for k, seed in enumerate(seeds):
            sub = os.path.join(work, "p%d" % k)
            os.makedirs(sub, exist_ok=True)
            job_k = os.path.join(sub, "job.json")
            with open(job_k, "w") as f:
                json.dump({"repo": core.REPO, "work": sub,
                           "scenarios": [{"tspec": s["tspec"], "cspec": s["cspec"]} for s in scenarios]}, f)
            env = dict(os.environ, PYTHONPATH=core.REPO + os.pathsep + core.VERIF, PYTHONHASHSEED=str(seed))
            procs.append(subprocess.Popen(["/venv/bin/python", DRIVER, job_k], env=env, stdout=subprocess.PIPE,
                                          stderr=subprocess.PIPE, text=True, cwd=core.VERIF))
        outs = []
        for p in procs:
            try:
                so, se = p.communicate(timeout=1200)
            except subprocess.TimeoutExpired:
                p.kill()
                so, se = "", "timeout"
            try:
                d = json.loads(so)
            except Exception:
                d = {"fatal": "driver output unreadable (exit %s): %s" % (p.returncode, (se or so)[-400:])}
            outs.append(d)
        per = []
        for i in range(len(scenarios)):
            row = {}
            for k, d in enumerate(outs):
                row[str(k)] = d["results"][i] if "results" in d else {"fatal": d.get("fatal", "?")}
            per.append({"seeds": [str(s) for s in seeds], "by_seed": row})
        return per
    finally:
        shutil.rmtree(work, ignore_errors=True)


def _judge_bytes(obs):
    """Message, or None: all digests of one key equal across seeds; string / str path / Path equal; no errors."""
    rows = obs["by_seed"]
    first = rows["0"]
    for k, row in rows.items():
        if "fatal" in row:
            return "driver: " + row["fatal"]
        if "build" in row:
            return "driver could not build the scenario: " + row["build"]
        if set(row) != set(first):
            return "different result keys under hash seed %s" % obs["seeds"][int(k)]
    for key in first:
        vals = {k: rows[k][key] for k in rows}
        for k, v in vals.items():
            if v.startswith("ERR"):
                return "serialising %s raised %s (hash seed %s)" % (key, v[4:], obs["seeds"][int(k)])
        if len(set(vals.values())) > 1:
            what = "type system XML" if key.startswith("tsxml") else key.split("|")[0].upper()
            return "hash seed: %s bytes of [%s] differ between PYTHONHASHSEED=%s" % (
                what, key, ", ".join("%s:%s" % (obs["seeds"][int(k)], v[:8]) for k, v in sorted(vals.items())))
    for key in first:
        if key.endswith("|string"):
            base = key[:-len("|string")]
            got = {s: first.get(base + "|" + s) for s in ("string", "strpath", "Path") if base + "|" + s in first}
            if len(set(got.values())) > 1:
                return "sink: [%s] written to a file differs from the returned string: %s" % (base, got)
        if key.endswith("|string-again"):
            base = key[:-len("-again")]
            if first[key] != first[base]:
                return "repeat: [%s] differs from the first time in the same process" % base
    return None


def extra_checks(ctx):
    tier = ctx["tier"]
    n = 40 if tier == "quick" else 300
    seeds = ["0", "1", "2", "random"] if tier == "quick" else ["0", "1", "2", "3", "4", "5", "random", "random"]
    rng = random.Random(ctx["seed"] * 7919 + 14)
    scs = []
    for _ in range(n):
        sc = _gen_cas(rng, ctx["cassis"], all_ids=True, n_objs=(3, 12))
        scs.append({"kind": "bytes", "tspec": sc["tspec"], "cspec": sc["cspec"], "seeds": seeds})
    results = []
    # at most 4 interpreters at a time
    per = []
    for k in range(0, len(seeds), 4):
        part = _run_bytes(scs, seeds[k:k + 4])
        if not per:
            per = part
        else:
            for a, b in zip(per, part):
                off = len(a["seeds"])
                a["seeds"].extend(b["seeds"])
                for kk, row in b["by_seed"].items():
                    a["by_seed"][str(int(kk) + off)] = row
    fails = {}
    for sc, obs in zip(scs, per):
        msg = _judge_bytes(obs)
        if msg:
            fails.setdefault(msg.split(":")[0], (msg, sc))
    nkeys = len(per[0]["by_seed"]["0"]) if per and "fatal" not in per[0]["by_seed"]["0"] else 0
    for what in ("hash seed", "sink", "repeat", "serialising", "driver", "different result keys"):
        hit = next((v for k, v in fails.items() if k.startswith(what)), None)
        name = "bytes_" + what.replace(" ", "_")
        if hit:
            results.append((name, False, hit[0], hit[1]))
        else:
            results.append((name, True, "%d scenarios x %d interpreters (%s) x %d documents" % (n, len(seeds), ",".join(seeds), nkeys), None))
    return results


# ------------------------------------------------------------------------------------------------ oracle


def oracle(cassis, sc, obs):
    if sc["kind"] == "bytes":
        return _judge_bytes(obs)
    if sc["kind"] == "emit":
        return _oracle_emit(sc, obs)
    X, J, A = set(obs["X"]), set(obs["J"]), list(obs["A"])
    # what each operation may give an id to / has to list: the structures its traversal reaches and every byte array holding
    # sofa data, each exactly once (to_json: the arrays in front of the first sofa that refers to them); typecheck only walks
    # the traversal
    want_of = {"xmi": sorted(X | set(A)), "json": sorted(J | set(A))}
    arr_of_view = [v.get("array") for v in sc["cspec"]["views"]]
    prev = obs["ids0"]
    digests = {}
    tcs = []
    nv = len(sc["cspec"]["views"])
    cur_want = [i % nv for i in range(2 * nv)]       # handles: one per view from building the CAS, one per view from get_view
    if obs["cur0"] != cur_want:
        return "handle: before the history the handles point at views %s, expected %s" % (obs["cur0"], cur_want)
    edit, ed = sc.get("edit"), obs.get("edit")
    fp_want = obs["fp0"]
    for k, st in enumerate(obs["steps"]):
        op = st["op"]
        if edit is not None and k == edit["at"]:
            # the edit itself: ids, index membership and handles as before; the content is that of a CAS built and edited in the
            # same way on which nothing was called before.  Documents written from here on are compared among themselves.
            if ed["ids"] != prev or ed["twin_ids"] != prev:
                return "edit: ids %s before, %s after the edit (second CAS %s)" % (prev, ed["ids"], ed["twin_ids"])
            if ed["cur"] != cur_want:
                return "handle: after the edit in front of step %d the handles point at views %s, expected %s" % (k, ed["cur"], cur_want)
            if ed["queries"] != obs["q0"] or ed["twin_queries"] != obs["q0"]:
                return "queries: after the edit in front of step %d select/select_all return %s, before the history %s" % (k, ed["queries"], obs["q0"])
            if ed["fp"] != ed["twin_fp"]:
                return ("earlier: the edit in front of step %d (after %s) left the CAS with other content than the same edit of "
                        "an identically built CAS on which nothing was called before" % (k, "/".join(sc["ops"][:k])))
            fp_want = ed["fp"]
            digests = {}
        may = {"xmi": X | set(A), "typecheck": X, "json": J | set(A)}.get(op, set())
        new = []
        for l, (a, b) in enumerate(zip(prev, st["ids"]), 1):
            if a is not None and a != b:
                return "renumbered: step %d (%s) changed the id of structure %d from %s to %s" % (k, op, l, a, b)
            if a is None and b is not None:
                if l not in may:
                    return "assigned: step %d (%s) gave an id to structure %d which it does not write" % (k, op, l)
                new.append(b)
        old = [a for a in prev if a is not None]
        if len(set(new)) != len(new) or set(new) & set(old):
            return "not fresh: step %d (%s) assigned ids %s, existing %s" % (k, op, sorted(new), sorted(old))
        if op in ("xmi", "json"):
            want = want_of[op]
            missing = [l for l in want if st["ids"][l - 1] is None]
            if missing:
                return "no id: after step %d (%s) structures %s still have no id" % (k, op, missing)
            if sorted(st["doc"]) != want:
                return "listing: step %d (%s) lists structures %s, expected %s" % (k, op, sorted(st["doc"]), want)
            ids_now = st["ids"]
            want_arr = [None if a is None else ids_now[a - 1] for a in arr_of_view]
            if st["sofa_arr"] != want_arr:
                return "sofa data: step %d (%s) writes sofaArray references %s, the arrays have ids %s" % (k, op, st["sofa_arr"], want_arr)
            tail = st["doc_ids"]
            if op == "json":
                head, first = [], set()
                for vi, a in enumerate(arr_of_view):
                    if a is not None and a not in first:
                        first.add(a)
                        head.append(["fs", ids_now[a - 1]])
                    head.append(["sofa", vi + 1])
                if st["head"] != head:
                    return "order: step %d (json) starts with %s, expected per view the sofa data array (once) and the sofa %s" % (k, st["head"], head)
                tail = tail[len(first):]
            if tail != sorted(tail):
                return "order: step %d (%s) lists structures in the order %s" % (k, op, st["doc_ids"][:12])
        if st["digest"] is not None:
            if op in digests and digests[op][1] != st["digest"]:
                return "repeat: the %s document of step %d differs from the one of step %d" % (op, k, digests[op][0])
            digests.setdefault(op, (k, st["digest"]))
        if st["cur"] != cur_want:
            return "handle: after step %d (%s through handle %d) the handles point at views %s, expected %s" % (k, op, st["via"], st["cur"], cur_want)
        if st["queries"] != obs["q0"]:
            return "queries: after step %d (%s through handle %d) select/select_all through the handles return %s, before the history %s" % (
                k, op, st["via"], st["queries"], obs["q0"])
        if st["fp"] != fp_want:
            return "content: step %d (%s) changed feature values of the CAS" % (k, op)
        tw = st.get("tw")
        if tw is not None:
            # an identically built and edited CAS on which nothing was called before the edit, asked the same
            if tw["ids"] != st["ids"]:
                return "earlier: step %d (%s) leaves ids %s, on the CAS not used before the edit %s" % (k, op, st["ids"], tw["ids"])
            if tw["digest"] != st["digest"]:
                return ("earlier: the %s document of step %d differs from the one an identically built and edited CAS returns on "
                        "which nothing was called before the edit (here: %s)" % (op, k, "/".join(sc["ops"][:edit["at"]])))
            if tw["queries"] != st["queries"]:
                return "earlier: after step %d (%s) the queries return %s, on the CAS not used before the edit %s" % (k, op, st["queries"], tw["queries"])
            if tw["tc"] != st["tc"]:
                return "earlier: typecheck of step %d reports %s, on the CAS not used before the edit %s" % (k, st["tc"], tw["tc"])
        if st["tc"] is not None:
            tcs.append(st["tc"])
        prev = st["ids"]
    if any(t != tcs[0] for t in tcs):
        return "typecheck: results differ along the history"
    return None


def _oracle_emit(sc, obs):
    ids_x = sorted(i for _l, i, _t in obs["found_x"])
    if [i for i, _p in obs["x_fs"]] != ids_x:
        return "order: XMI lists structures %s, expected ids ascending %s" % ([i for i, _p in obs["x_fs"]][:12], ids_x[:12])
    # namespaces: in the order the id-sorted structures first use them
    by_id = {i: t for _l, i, t in obs["found_x"]}
    want_ns = []
    for i in ids_x:
        t = by_id[i]
        p = t.rsplit(".", 1)[0] if "." in t else "uima.noNamespace"
        if p != "uima.cas" and p not in want_ns:
            want_ns.append(p)
    if obs["x_ns"] != want_ns:
        return "namespaces: XMI declares %s, expected first-use order %s" % (obs["x_ns"], want_ns)
    if [x[3] for x in obs["x_sofas"]] != obs["arr_ids"]:
        return "sofa data: XMI sofas name the arrays %s, expected %s" % ([x[3] for x in obs["x_sofas"]], obs["arr_ids"])
    for (name, sid, members), (xs, xm) in zip(obs["views"], obs["x_views"]):
        if xs != sid or xm != sorted(members):
            return "members: XMI view %s has members %s, expected %s" % (name, xm, sorted(members))
    for mode, given, seen in obs["j_types"]:
        want = sorted(n for n in given if n != DOCANN)
        if seen != want:
            return "types: JSON (%s) lists types %s, expected %s" % (mode, seen, want)
    if obs["j_none_types"] is not None:
        return "types: JSON (NONE) carries a type system"
    by_lab = {o["o"]: o for o in sc["cspec"]["objs"]}
    want_fs, first = [], set()
    for vi, v in enumerate(sc["cspec"]["views"]):
        if v.get("array") is not None and v["array"] not in first:
            first.add(v["array"])
            want_fs.append(by_lab[v["array"]]["id"])
        want_fs.append(vi + 1)
    want_fs += sorted(i for l, i, _t in obs["found_j"] if l not in first)
    if [i for i, _t in obs["j_fs"]] != want_fs or [i for i, _t in obs["j_none_fs"]] != want_fs:
        return "order: JSON lists structures %s, expected sofas (the first of an array after it) then the other ids ascending %s" % ([i for i, _t in obs["j_fs"]][:12], want_fs[:12])
    for (name, sid, members), (jn, js, jm) in zip(obs["views"], obs["j_views"]):
        if jn != name or js != sid or jm != sorted(members):
            return "members: JSON view %s has members %s, expected %s" % (name, jm, sorted(members))
    for red, given, seen in obs["ts"]:
        want = sorted(red) + sorted(n for n in given if n != DOCANN)
        if seen != want:
            return "typesystem: XML lists types %s, expected %s" % (seen, want)
    return None


# ------------------------------------------------------------------------------------------------ rendering (Z_scope is open)


def z(i):
    i = int(i)
    return "(%d)" % i if i < 0 else str(i)


def zl(l):
    return "[" + ";".join(z(i) for i in l) + "]"


def zll(ll):
    return "[" + ";".join(zl(l) for l in ll) + "]"


def sl(l):
    return glist([gstr(s) for s in l])


def render(sc, obs):
    if sc["kind"] == "bytes":
        return None
    if sc["kind"] == "emit":
        return _render_emit(sc, obs)
    steps = []
    nv = len(sc["cspec"]["views"])
    prev_ids, prev_q, prev_c = obs["ids0"], obs["q0"], [i % nv for i in range(2 * nv)]
    docs = []
    first = {}
    cut = sc["edit"]["at"] if sc.get("edit") else len(sc["ops"])
    via = sc.get("via") or [0] * len(sc["ops"])
    if any(c < 0 for st in obs["steps"] for c in st["cur"]) or any(c < 0 for c in obs["cur0"]):
        return None  # a handle points at no view of the scenario: the oracle has reported it
    for k, st in enumerate(obs["steps"]):
        if k == cut:
            first = {}
        delta = [(l, b) for l, (a, b) in enumerate(zip(prev_ids, st["ids"]), 1) if a != b]
        if any(b is None for _l, b in delta):
            return None  # an id was removed: outside what a case can express; the oracle has reported it
        if st["doc"] is None:
            d = "DNone"
            docs.append(None)
        else:
            same = next((j for j, dj in enumerate(docs) if dj == st["doc"]), None)
            d = "DSame %d" % same if same is not None else "DNew " + zl(st["doc"])
            docs.append(st["doc"])
        if st["op"] in ("xmi", "json"):
            cls = first.setdefault((st["op"], st["digest"]), k)
        else:
            cls = -1
        q = "None" if st["queries"] == prev_q else "(Some %s)" % zll(st["queries"])
        c = "None" if st["cur"] == prev_c else "(Some %s)" % zl(st["cur"])
        steps.append("mkObs [%s] (%s) %s %s %s" % (";".join("(%s,%s)" % (z(l), z(b)) for l, b in delta), d, z(cls), q, c))
        prev_ids, prev_q, prev_c = st["ids"], st["queries"], st["cur"]
    ids = [(-1 if i is None else i) for i in obs["ids0"]]
    ql = obs["qlabels"]
    return "CSeq %s %s %s %s %s %s %s %s %s %s %s\n  %s" % (
        zl(ids), z(obs["next"]), zl(obs["A"]), zl(obs["tx"]), zl(obs["tj"]), zl([i % nv for i in range(2 * nv)]),
        zll(ql[:nv]), zll(ql[nv:]), zll(obs["q0"]), z(cut),
        glist(["(%s,%s)" % (z(h), GOP[o]) for h, o in zip(via, sc["ops"])]), glist(steps, ";\n   "))


def _render_emit(sc, obs):
    def fi(items):
        return glist(["mkFi %s %d%%N %s" % (z(i), l, gstr(t)) for l, i, t in items])

    nv = len(sc["cspec"]["views"])
    sofas = glist(["mkSo %d %d %s %s" % (k + 1, k + 1, gstr(v["name"]), "None" if a is None else "(Some %s)" % z(a))
                   for k, (v, a) in enumerate(zip(sc["cspec"]["views"], obs["arr_ids"]))])
    views = glist(["(%s, mkVi %s %s)" % (gstr(n), z(s), zl(m)) for n, s, m in obs["views"]])
    x_fs = glist(["(%s,%s)" % (z(i), gstr(p)) for i, p in obs["x_fs"]])
    j_types = glist(["(%s,%s)" % (sl(given), sl(seen)) for _m, given, seen in obs["j_types"]])
    tsx = glist(["(%s,%s,%s)" % (sl(red), sl(given), sl(seen)) for red, given, seen in obs["ts"]])
    assert nv == len(obs["x_sofas"])
    return ("CEmit (mkEmit %s\n %s\n %s %s\n %s %s %s\n %s %s %s\n %s)" % (
        fi(obs["found_x"]), fi(obs["found_j"]), sofas, views, x_fs, sl(obs["x_ns"]), zll([m for _s, m in obs["x_views"]]),
        j_types, zl([i for i, _t in obs["j_fs"]]), zll([m for _n, _s, m in obs["j_views"]]), tsx))


# ------------------------------------------------------------------------------------------------ generation


BYTE_ARRAY = scen.T + "ByteArray"


def _add_sofa_arrays(rng, cspec, all_ids, p=0.3, settled=False):
    """Sofa data held by a uima.cas.ByteArray (view.sofa_array = ...): an object of its own, set through the API.  Mostly
    reachable only through its sofa, sometimes indexed as well, sometimes shared by two sofas.  Without explicit ids in the
    CAS it has none either; in a CAS with explicit ids it has one or (unless `settled`) none - then the largest explicit id
    is moved to an indexed structure, so that the id generator is ahead of every id (ids below next: ASSUMPTIONS)."""
    objs, views = cspec["objs"], cspec["views"]
    used = {o["id"] for o in objs if o.get("id") is not None} | set(range(1, len(views) + 1))
    last = None
    idless = False
    for v in views:
        if rng.random() >= p:
            continue
        if last is not None and rng.random() < 0.2:
            v["array"] = last
            continue
        lab = max(o["o"] for o in objs) + 1
        oid = None
        if all_ids and (settled or rng.random() < 0.5):
            oid = rng.choice([k for k in range(len(views) + 1, 4 * len(objs) + 40) if k not in used])
            used.add(oid)
        idless = idless or oid is None
        objs.append({"o": lab, "type": BYTE_ARRAY, "id": oid,
                     "slots": {"elements": {"list": [{"i": rng.choice([0, 1, 15, 16, 127, 128, 250, 255])}
                                                     for _ in range(rng.choice([0, 1, 4]))]}}})
        v["array"] = last = lab
        if rng.random() < 0.2:
            cspec["members"].append([rng.randrange(len(views)), lab])
    if all_ids and idless:
        member_labels = {l for _v, l in cspec["members"]}
        with_id = [o for o in objs if o.get("id") is not None]
        top = max(with_id, key=lambda o: o["id"])
        first = next(o for o in with_id if o["o"] in member_labels)   # gen_cspec indexes at least one structure
        top["id"], first["id"] = first["id"], top["id"]
    return cspec


def _gen_cas(rng, cassis, all_ids, n_objs=(3, 8), arrays=0.3, settled=False):
    tspec = scen.gen_tspec(rng, n_types=rng.choice([6, 7, 8]))
    cspec = scen.gen_cspec(rng, cassis, tspec, n_objs=n_objs, all_ids=all_ids)
    if arrays:
        _add_sofa_arrays(rng, cspec, all_ids, p=arrays, settled=settled)
    user = [t["name"] for t in tspec if t["name"] != "a.MyStr"]
    used = [o["type"] for o in cspec["objs"] if o["type"] in user]
    qtype = rng.choice(used + [scen.ANNOTATION, scen.TOP]) if used else scen.TOP
    return {"tspec": tspec, "cspec": cspec, "qtype": qtype}


def _gen_via(rng, base, n):
    """Per operation the handle it is called through: 0..nv-1 the objects the views were built through (0 = the Cas object
    itself), nv..2nv-1 those get_view returns; with a second view at least every other operation goes through a handle of a
    view other than the initial one."""
    nv = len(base["cspec"]["views"])
    out = []
    for _ in range(n):
        if nv > 1 and rng.random() < 0.5:
            out.append(rng.choice([h for h in range(2 * nv) if h % nv != 0]))
        else:
            out.append(rng.randrange(2 * nv))
    return out


ASTRAL = [0x1F600, 0x10000, 0x10FFFF, 0x1F1E9]
BMP = [0x62, 0xE9, 0x4E2D, 0x20, 0xFFFD]


def _flip_text(rng, old):
    """A text at least as long as `old` (code points) in which each character switches between BMP and supplementary with
    probability 1/2: the UTF-16 offsets of what follows move, the code point offsets do not."""
    old = list(old or [])
    n = max(len(old), rng.choice([0, 3, 6]))
    for _try in range(20):
        out = []
        for i in range(n):
            c = old[i] if i < len(old) else 0x61
            if rng.random() < 0.5:
                out.append(c)
            else:
                out.append(rng.choice(BMP) if c >= 0x10000 else rng.choice(ASTRAL))
        if out != old:
            break
    return out


def _gen_edit(rng, cassis, base, n_ops):
    """-> (cspec, edit).  The edit happens in front of operation `at` (1 <= at < n_ops).  In one of six a view with text and
    annotations starts without any text (the annotations carry their offsets already) and gets it only by the edit."""
    cs = json.loads(json.dumps(base["cspec"]))
    edit = {"at": rng.randrange(1, n_ops), "text": [], "mime": [], "feat": []}
    late = None
    if rng.random() < 1 / 6:
        c = [i for i, v in enumerate(cs["views"]) if v.get("text")]
        if c:
            late = rng.choice(c)
    for vi, v in enumerate(cs["views"]):
        if vi == late:
            old = v["text"]
            v["text"] = None
            v.pop("text0", None)
            edit["text"].append([vi, old if rng.random() < 0.5 else _flip_text(rng, old)])
        elif rng.random() < 0.7:
            edit["text"].append([vi, _flip_text(rng, v.get("text"))])
        if rng.random() < 0.4:
            edit["mime"].append([vi, rng.choice(["text/plain", "text/html", "application/x-c14"])])
    if not edit["text"]:
        vi = rng.randrange(len(cs["views"]))
        edit["text"].append([vi, _flip_text(rng, cs["views"][vi].get("text"))])
    schema = scen.schema_of(cassis, base["tspec"])
    for o in cs["objs"]:
        if o["type"] not in schema:
            continue
        for pn, _xn, rng_t, _el, _multi in schema[o["type"]]["feats"]:
            if pn in ("sofa", "begin", "end") or pn not in o["slots"] or rng.random() >= 0.4:
                continue
            prim = next((a for a in ([rng_t] + schema.get(rng_t, {"anc": []})["anc"]) if a in scen.PRIMS), None)
            if prim and o["slots"][pn] is not None and not ({"ref", "list", "sofa"} & set(o["slots"][pn])):
                edit["feat"].append([o["o"], pn, scen.rval(rng, scen.PRIMS[prim])])
    return cs, edit


DOC_OPS = ("xmi", "json")


def _all_histories():
    out = []
    for n in (1, 2, 3):
        out.extend(list(p) for p in itertools.product(OPS, repeat=n))
    out.extend(list(p) for p in itertools.permutations(OPS, 4))
    return out


def _lone_idless_array(cassis, base):
    """Some sofa's data is a byte array without an id that only the sofa holds (no traversal reaches it)."""
    _ts, cas, _views, objs = _build(cassis, base)
    reached = {id(x) for x in reach(cas, "json")}
    return any(objs[a].xmiID is None and id(objs[a]) not in reached for a in _arrays(base))


def _interesting(cassis, base):
    """An id-less CAS in which XMI has something to number and JSON something more, and a sofa data array only its sofa holds."""
    ts, cas, _views, objs = _build(cassis, base)
    lab_of = {id(fs): l for l, fs in objs.items()}
    X = {lab_of[id(x)] for x in reach(cas, "xmi") if id(x) in lab_of}
    J = {lab_of[id(x)] for x in reach(cas, "json") if id(x) in lab_of}
    return any(objs[l].xmiID is None for l in X) and len(J) > len(X) and _lone_idless_array(cassis, base)


def _second_view_in_use(base):
    """At least two views, and a view other than the initial one has members."""
    return len(base["cspec"]["views"]) > 1 and any(vi > 0 for vi, _l in base["cspec"]["members"])


def generate(rng, tier):
    import sys
    cassis = sys.modules.get("cassis") or core.load_impl()
    n_exh = {"quick": 2, "thorough": 8, "search": 0}[tier]
    n_rand, per = {"quick": (60, 8), "thorough": (400, 12), "search": (300, 12)}[tier]
    n_emit = {"quick": 60, "thorough": 300, "search": 100}[tier]
    for k in range(n_exh):
        all_ids = k % 2 == 1
        for _try in range(400):
            base = _gen_cas(rng, cassis, all_ids=all_ids, n_objs=(3, 6), arrays=0.5)
            if _second_view_in_use(base) and (_lone_idless_array(cassis, base) if all_ids else _interesting(cassis, base)):
                break
        for ops in _all_histories():
            yield dict(base, kind="seq", ops=ops, via=_gen_via(rng, base, len(ops)))
    for k in range(n_rand):
        base = _gen_cas(rng, cassis, all_ids=(k % 2 == 1), n_objs=(2, 8))
        for j in range(per):
            ops = [rng.choice(OPS + ["xmi", "json"]) for _ in range(4)]
            sc = dict(base, kind="seq", ops=ops, via=_gen_via(rng, base, len(ops)))
            if j % 2 == 1:
                # an edit between two operations, a document written before it and one after it
                cs, edit = _gen_edit(rng, cassis, base, len(ops))
                at = edit["at"]
                if not any(o in DOC_OPS for o in ops[:at]):
                    ops[rng.randrange(at)] = rng.choice(DOC_OPS)
                if not any(o in DOC_OPS for o in ops[at:]):
                    ops[rng.randrange(at, len(ops))] = rng.choice(DOC_OPS)
                sc.update(cspec=cs, edit=edit)
            yield sc
    for _ in range(n_emit):
        base = _gen_cas(rng, cassis, all_ids=True, n_objs=(3, 12), settled=True)
        yield dict(base, kind="emit")


def nontrivial(sc):
    if sc["kind"] == "seq":
        docs = [o for o in sc["ops"] if o in ("xmi", "json")]
        idless = any(o.get("id") is None for o in sc["cspec"]["objs"])
        if sc.get("edit") and any(o in DOC_OPS for o in sc["ops"][:sc["edit"]["at"]]) and any(o in DOC_OPS for o in sc["ops"][sc["edit"]["at"]:]):
            return True
        return (idless and any(o in ("xmi", "json", "typecheck") for o in sc["ops"])) or len(docs) != len(set(docs))
    return len(sc["cspec"]["objs"]) >= 3 and len(sc["tspec"]) >= 4


def _inside(sc):
    """ASSUMPTIONS: when something is left to number, every explicit id is below the id the generator hands out next."""
    ids = [o.get("id") for o in sc["cspec"]["objs"]]
    given = [i for i in ids if i is not None]
    return len(given) == len(ids) or not given or max(given) < _expected_next(sc)


def shrink_candidates(sc):
    for c in _shrink_candidates(sc):
        if _inside(c):
            yield c


def _shrink_candidates(sc):
    if sc["kind"] == "seq":
        ops = sc["ops"]
        via = sc.get("via") or [0] * len(ops)
        edit = sc.get("edit")
        for i in range(len(ops)):
            if len(ops) > 1:
                c = dict(sc, ops=ops[:i] + ops[i + 1:], via=via[:i] + via[i + 1:])
                if edit:
                    at = edit["at"] - 1 if i < edit["at"] else edit["at"]
                    c["edit"] = dict(edit, at=at) if 0 < at < len(c["ops"]) else None
                yield c
        for i in range(len(ops)):
            if via[i] != 0:
                yield dict(sc, via=via[:i] + [0] + via[i + 1:])
        if edit:
            for key in ("text", "mime", "feat"):
                for i in range(len(edit[key])):
                    yield dict(sc, edit=dict(edit, **{key: edit[key][:i] + edit[key][i + 1:]}))
    cs = sc["cspec"]
    # drop members, then unreferenced objects are harmless to keep: labels must stay 1..n
    for i in range(len(cs["members"])):
        if len(cs["members"]) > 1:
            c = json.loads(json.dumps(sc))
            del c["cspec"]["members"][i]
            yield c
    for o in cs["objs"]:
        for k in list(o["slots"]):
            if k in ("sofa", "begin", "end", "head", "tail", "elements"):
                continue
            c = json.loads(json.dumps(sc))
            del [x for x in c["cspec"]["objs"] if x["o"] == o["o"]][0]["slots"][k]
            yield c


def mutate(sc, rng):
    if sc["kind"] != "seq":
        return
    for _ in range(20):
        ops = [rng.choice(OPS) for _ in range(rng.randint(1, 4))]
        c = dict(sc, ops=ops, via=_gen_via(rng, sc, len(ops)))
        if c.get("edit"):
            c["edit"] = dict(c["edit"], at=rng.randrange(1, len(ops))) if len(ops) > 1 else None
        yield c


def signature(sc, msg):
    return {"kind": sc.get("kind"), "what": (msg or "").split(":")[0]}


def distribution(scenarios, observations):
    seq = [(s, o) for s, o in zip(scenarios, observations) if s["kind"] == "seq" and o]
    emit = [(s, o) for s, o in zip(scenarios, observations) if s["kind"] == "emit" and o]
    assigning = sum(1 for _s, o in seq if any(a != b for a, b in zip(o["ids0"], o["steps"][-1]["ids"])))
    return {"seq_cases": len(seq), "emit_cases": len(emit),
            "seq_without_explicit_ids": sum(1 for s, _o in seq if any(x.get("id") is None for x in s["cspec"]["objs"])),
            "seq_histories_assigning_ids": assigning,
            "seq_with_sofa_data_array": sum(1 for s, _o in seq if _arrays(s)),
            "seq_with_idless_array_only_its_sofa_holds": sum(
                1 for s, o in seq if any(o["ids0"][a - 1] is None and a not in o["J"] for a in o["A"])),
            "seq_array_also_reached_by_traversal": sum(1 for _s, o in seq if any(a in o["J"] for a in o["A"])),
            "seq_array_shared_by_two_sofas": sum(1 for _s, o in seq if len(set(o["A"])) < len(o["A"])),
            "emit_with_sofa_data_array": sum(1 for s, _o in emit if _arrays(s)),
            "seq_json_reaches_more_than_xmi": sum(1 for _s, o in seq if len(o["J"]) > len(o["X"])),
            "seq_two_documents_of_one_format": sum(1 for s, _o in seq if len([x for x in s["ops"] if x in ("xmi", "json")])
                                                   != len({x for x in s["ops"] if x in ("xmi", "json")})),
            "seq_operation_through_handle_of_second_view": sum(
                1 for s, _o in seq if any(h % len(s["cspec"]["views"]) != 0 for h in s.get("via") or [])),
            "seq_document_or_typecheck_through_handle_of_second_view": sum(
                1 for s, _o in seq if any(h % len(s["cspec"]["views"]) != 0 and op in ("xmi", "json", "typecheck")
                                          for h, op in zip(s.get("via") or [], s["ops"]))),
            "seq_with_edit": sum(1 for s, _o in seq if s.get("edit")),
            "seq_edit_first_text_of_a_view": sum(1 for s, _o in seq if s.get("edit") and any(
                s["cspec"]["views"][vi].get("text") is None for vi, _t in s["edit"]["text"])),
            "seq_edit_moves_utf16_offset_of_written_annotation": sum(1 for s, o in seq if _edit_moves_offsets(s, o)),
            "seq_documents_compared_with_unused_cas": sum(
                1 for _s, o in seq for st in o["steps"] if st.get("tw") and st["tw"]["digest"] and st["op"] in DOC_OPS),
            "by_first_op": {op: sum(1 for s, _o in seq if s["ops"][0] == op) for op in OPS},
            "emit_max_structures": max([len(o["found_j"]) for _s, o in emit] or [0]),
            "emit_namespaces_max": max([len(o["x_ns"]) for _s, o in emit] or [0])}


def _edit_moves_offsets(sc, obs):
    """The edit replaces the text of a view so that begin or end of an annotation a format writes gets another UTF-16 offset."""
    if not sc.get("edit"):
        return False
    cs = sc["cspec"]
    new = {cs["views"][vi]["name"]: (cs["views"][vi].get("text"), t) for vi, t in sc["edit"]["text"]}
    for o in cs["objs"]:
        sl = o["slots"]
        if o["o"] in obs["J"] and (sl.get("sofa") or {}).get("sofa") in new:
            old, t = new[sl["sofa"]["sofa"]]
            for k in ("begin", "end"):
                i = (sl.get(k) or {}).get("i")
                if isinstance(i, int) and (_u16(old, i) if old is not None else i) != _u16(t, i):
                    return True
    return False


MANIFEST = {
    "level_text": "PARTIAL. Machine-checked proof (Coq 8.16) over a model in which every set-iteration / id()-dependent site of the "
                  "three serialisers is an input list in arbitrary order: the emitted order is independent of it because each site "
                  "is followed by a stable sort on a unique key (sort_unique for Z and string keys, emit_order_independent for XMI, "
                  "JSON, type-system XML); a save only adds generator-fresh, pairwise distinct ids to id-less structures, is "
                  "idempotent, and along every history of to_xmi/to_json/to_xml/select/select_all/typecheck all documents of one "
                  "format are equal, each lists every byte array holding sofa data exactly once, and queries answer the same - through whichever handle (Cas object of a view) each operation is called: no handle changes the view it points at, stores and documents do not depend on the handles used. The model is tied to /repo on every run by evaluating it in Coq on "
                  "the observed histories and emitted orders. Byte identity across processes with different PYTHONHASHSEED, across "
                  "string / str path / Path sinks and option combinations is observed by a subprocess oracle on every run, not proved; that documents and answers after an edit (text, mime type, primitive features) are those of an identically built and edited CAS on which nothing was called before is observed differentially on every run, not proved.",
    "level_note": "Trusted: Coq kernel + vm_compute; hand-written model coq/Determinism.v; harness (own identity-based reachability, "
                  "stdlib parsers, sha256); CPython hashing, lxml and json below the abstract documents are outside the proof. "
                  "Print Assumptions: closed under the global context.",
    "technique": "Coq proof over an executable Gallina model + in-Coq behavioural correspondence (exhaustive short histories, random) "
                 "+ subprocess byte oracle across hash seeds and sinks",
    "design_ref": "DESIGN.md section 5, C14; section 8 (partial)",
}
