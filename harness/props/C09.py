"""C09 — xmi:ids and sofaNums stay unique; fresh ids never collide, loaded ids persist.

Scenario IR
    start: {"kind": "empty"} or {"kind": "doc", "fmt": "xmi"|"json", "form": "list"|"dict", "sofas": [{id,num,name}...] (document
           order), "fs": [{l,id,member (view name|None),ref (label|None)}...] (document order), "perm": seed for the element order}
           an entry of "fs" with "kind": "B" is a uima.cas.ByteArray (its single byte is the label) and "arr": [sofa names] says
           which sofas hold it as their data (sofaArray; such a sofa has no sofaString).  It is an FS like the others: member
           of a view and / or the `ref` of a t.A; every operation may name its label.
           "extra": [{name,key}...] (JSON only): views which the %VIEWS section declares although the document holds no Sofa
           feature structure for them (key places the entry in the section and orders its members); the reader creates
           their sofas itself.  An FS may have such a view as its "member".  The name _InitialView is allowed when the
           document has no sofa of that name.
    ops:   new{l,preset?} add{l,keep (true|false|null = argument omitted),view} add_all{ls,view} link{p,c}
           add / add_all with "alias": true go through the deprecated public aliases Cas.add_annotation(fs, keep_id) /
           Cas.add_annotations(fss), which the API documents as the same operations
           view{name,xid?,num?}   xid / num = {mode,arg}: create_view(name, xmiID=.., sofaNum=..) with a value chosen by the
                                  caller that is not in use: mode above (beyond every value in use, gap arg % 3) | free (an
                                  unused value below the largest one; none -> above).  Either, both or none may be given.
           save{fmt} reload{fmt} force{l,mode,arg}      mode: as (id of label arg) | below | above | sofa
           every op may carry "h": the operation is issued through the live handle number h mod (number of handles); handles are
           the root Cas, every Cas returned by create_view and by get_view (also after a reload). The model has one shared store.
The documents are written here as text (never by cassis) and parsed back with xml.etree / json only.
Every other FS is a t.A annotation with begin = label and the index of a view holds at most one byte array, so the
traversal order of Cas._find_all_fs is tie-free and is computed by `Sim` (views in creation order, in a view type after
type in the order of their first add, members by begin, then breadth-first through `ref`); it is handed to the model as
the order parameter of OpSave / OpReload.
"""
import base64
import json
import warnings
import xml.etree.ElementTree as ET

from harness.gallina import gbool, glist, gstr, gz

ID = "C09"
COQ_TARGETS = ["Ids.vo", "IdsProofs.vo", "CorrC09.vo", "Props/C09.vo"]
PROPS_FILE = "Props/C09.v"
CORR_IMPORTS = "Base Ids CorrC09"
ENTRY = ("cassis.cas.IdGenerator / Cas.add / Cas.create_view / Cas._find_all_fs; cassis.xmi.CasXmiDeserializer.deserialize; "
         "cassis.json.CasJsonDeserializer.deserialize; to_xmi / to_json")
RULE = (
    "start: Cas() (1 in 5) or a hand-written XMI or JSON document (list or dict form) with 1-3 sofas, ids drawn without "
    "repetition from 1..40 in shuffled element order, the largest id on a sofa in 2 of 5 documents, sofaNums with gaps and swaps "
    "(_InitialView rarely 1), 0-5 FS that are view members or only referenced; 35 in 100 documents also carry one or two "
    "uima.cas.ByteArray FS which are the data (sofaArray) of one or two sofas (9 in 10; one array shared by two sofas 1 in 4) "
    "and at the same time a member of a view or the reference of a member, 15 in 100 operations of such a history name a byte "
    "array (add, add_all, keep_id=False, force, link target); then a history of <= 12 operations over new "
    "(optionally with a preset id), every operation issued through a random live handle (root, create_view and get_view results), add (keep_id True / False / omitted), add_all, link, create_view (incl. an existing name), "
    "create_view with an xmi:id and / or a sofaNum chosen by the caller (about 4 in 10 create_view calls; a value not in use, "
    "ahead of the generator with a gap of 0-2 or an unused one below it; 1 scenario in 4 issues create_view more often), "
    "to_xmi, to_json, reload through either format, forcing an FS onto the id of another / an id below the maximum / above it; "
    "1 document in 8 has no _InitialView sofa; 4 in 10 JSON documents declare one or two views in the %VIEWS section only (no "
    "Sofa FS; the reader creates the sofa itself; some FS are members of such a view, some add / add_all go to it; a "
    "document without an _InitialView sofa may declare that name); about 1 add / add_all in 4 is issued through the "
    "deprecated public alias add_annotation(fs, keep_id) / add_annotations(fss); 1 scenario in 40 may force an FS onto a sofa's id (open finding "
    "fs_id_equals_sofa_id). A case is non-trivial when it loads a document, generates an id afterwards and serialises.")
TRUSTED = [
    "Coq 8.16.1 kernel and vm_compute; theorems in Props/C09.v are closed under the global context",
    "hand-written model coq/Ids.v of IdGenerator, Cas.add / create_view, the id part of Cas._find_all_fs, both readers' max-id bookkeeping",
    "the traversal order of _find_all_fs is a parameter of the model (theorems hold for every order); the harness computes the "
    "actual order for tie-free scenarios (harness/props/C09.py Sim.order) and the set of reachable FS is computed by the model",
    "correspondence harness: harness/props/C09.py writes the documents by hand, drives the public API, parses output with xml.etree/json",
    "XMI and JSON readers share one model function (load_doc); the format is not an input of the model",
    "a byte array which is the data of a sofa is an ordinary FS of the model (label, id, member, no reference): the scenarios keep "
    "it reachable from the indexes, so the sofa's own reference adds nothing to the set Cas._find_all_fs returns; that the sofa, "
    "the indexes and the referring FS hold one and the same object is observed by the driver (object identity) and judged by the oracle",
    "the deprecated aliases Cas.add_annotation / Cas.add_annotations are the model operations OpAdd / OpAddAll (the API documents "
    "them as the same operations); that they are is carried by the correspondence and the oracle, not by a theorem",
    "a JSON document which declares views without a Sofa FS is loaded as load_doc_views d names = load_doc d followed by the "
    "reader's own create_view calls in the order of the %VIEWS section (Props/C09.v C09_views_without_sofa_start / _fresh)",
    "the model is one shared store: that all view handles (Cas._copy) share both generators, the sofas and the views is carried by "
    "the correspondence only (every operation is issued through a randomly chosen live handle), not by a theorem",
]
ASSUMPTIONS = [
    "loaded documents have pairwise distinct ids and sofaNums and at most one sofa named _InitialView",
    "when the CAS is serialised no reachable FS carries an id set from outside (preset xmiID, fs.xmiID = k) that equals a sofa's id "
    "(open finding fs_id_equals_sofa_id: such an FS is written next to the sofa without an error)",
    "no FS carries xmiID 0 (cas:NULL; such FS are silently not written)",
    "an xmi:id / sofaNum passed to create_view is not in use at that moment (not the id of a sofa or of an FS of the CAS or of "
    "the loaded document, not the sofaNum of a sofa); create_view does not check this (Props/C09.v C09_chosen_values_unchecked)",
    "all handles of one CAS (root, create_view / get_view results) share the id generator and the sofaNum generator",
    "a byte array which is the data of a sofa is also a member of a view or referenced by a member whose reference is not changed "
    "afterwards (a byte array held by a sofa alone is appended by the writers outside Cas._find_all_fs and its duplicate test); "
    "the index of one view holds at most one byte array (two would be ordered by memory address)",
]
CASES_PER_SHARD = 150
SHARD_BYTES = 180_000

KNOWN = "[fs_id_equals_sofa_id]"
# Reference cycles are generated (p.ref = c with c reaching p): a forced duplicate on a cycle must still be a ValueError
# (5d97967: the message used to print both FS and FeatureStructure.__str__ does not terminate on cycles).
CYCLES = True
INIT = "_InitialView"
TEXT = "0123456789" * 8
_TS = {}


def _ts(cassis):
    if _TS.get("mod") is not cassis:
        ts = cassis.TypeSystem()
        A = ts.create_type("t.A", "uima.tcas.Annotation")
        ts.create_feature(A, "lab", "uima.cas.Integer")
        ts.create_feature(A, "ref", "uima.cas.TOP")
        _TS["mod"], _TS["ts"] = cassis, ts
    return _TS["ts"]


# ------------------------------------------------------------------------------------------------ scenario bookkeeping


def _members(start, s):
    """the FS of the document which are members of the view of sofa s, in the order the document lists them"""
    return [f for f in _shuffled(start["fs"], start["perm"] + s.get("id", s.get("key", 0))) if f["member"] == s["name"]]


def _views_section(start):
    """the entries of the %VIEWS section in the order they are written: the sofas of the document and, at places their
    keys choose, the views declared without a sofa"""
    out = _shuffled(start["sofas"], start["perm"] + 3)
    for e in start.get("extra", []):
        out.insert(e["key"] % (len(out) + 1), e)
    return out


def _extra_names(start):
    """views declared in %VIEWS only, in the order of the section (the order in which the reader creates them)"""
    return [e["name"] for e in _views_section(start) if "id" not in e] if start.get("extra") else []


class Sim:
    """What exists according to the scenario alone: views in creation order, labels, view membership, ref links, which
    FS are byte arrays (kind B) and which sofas hold them as their data, and - for the traversal order - the order in
    which the types first entered the index of every view (View.get_all_annotations lists type after type)."""

    def __init__(self, start):
        self.views = [INIT]
        self.fs = {}  # label -> {"views": [names], "ref": label|None, "kind": "A"|"B", "arr": [sofa names]}
        self.groups = {}  # view -> kinds in the order of their first add to that view
        if start["kind"] == "doc":
            for s in start["sofas"]:
                if s["name"] != INIT:
                    self.views.append(s["name"])
            for n in _extra_names(start):
                if n not in self.views:
                    self.views.append(n)
            for f in start["fs"]:
                self.fs[f["l"]] = {"views": [f["member"]] if f["member"] else [], "ref": f["ref"],
                                   "kind": f.get("kind", "A"), "arr": list(f.get("arr", []))}
            for s in start["sofas"] + start.get("extra", []):
                for f in _members(start, s):
                    self._group(s["name"], f.get("kind", "A"))
            self.prune()

    def _group(self, view, kind):
        g = self.groups.setdefault(view, [])
        if kind not in g:
            g.append(kind)

    def kind(self, l):
        return self.fs[l]["kind"] if l in self.fs else "A"

    def reachable(self):
        out, seen = [], set()
        for v in self.views:
            for kind in self.groups.get(v, []) + [k for k in ("A", "B") if k not in self.groups.get(v, [])]:
                for l in sorted(l for l, f in self.fs.items() if v in f["views"] and f["kind"] == kind):
                    if l not in seen:
                        seen.add(l)
                        out.append(l)
        i = 0
        while i < len(out):
            c = self.fs[out[i]]["ref"]
            if c is not None and c in self.fs and c not in seen:
                seen.add(c)
                out.append(c)
            i += 1
        return out

    order = reachable  # breadth-first order of _find_all_fs when begin == label and a view indexes at most one byte array

    def reaches(self, a, b):
        """b is a or is reached from a through ref links"""
        seen = set()
        while a is not None and a in self.fs and a not in seen:
            if a == b:
                return True
            seen.add(a)
            a = self.fs[a]["ref"]
        return False

    def prune(self, ids=None):
        """what a reload keeps; `ids` (label -> id written) gives the order in which the reader fills the indexes"""
        keep = set(self.reachable())
        self.fs = {l: f for l, f in self.fs.items() if l in keep}
        if ids is not None:
            self.groups = {}
            for v in self.views:
                for l in sorted((l for l, f in self.fs.items() if v in f["views"]), key=lambda l: ids.get(l, 0)):
                    self._group(v, self.fs[l]["kind"])

    # Preconditions kept by construction (operations outside them are skipped, by the driver and here alike):
    #  - the index of a view holds at most one byte array (two would be ordered by their memory addresses);
    #  - a byte array which is the data of a sofa stays reachable from the indexes: the reference of an FS which points
    #    to such a byte array is not changed (what only a sofa holds is written outside Cas._find_all_fs).
    def add_ok(self, l, view):
        if l not in self.fs or view not in self.views:
            return False
        if self.fs[l]["kind"] == "B":
            return not any(f["kind"] == "B" and view in f["views"] and k != l for k, f in self.fs.items())
        return True

    def addable(self, ls, view):
        """the labels of ls which add_all may add to view, one after the other"""
        out, has_b = [], [k for k, f in self.fs.items() if f["kind"] == "B" and view in f["views"]]
        for l in ls:
            if l not in self.fs or view not in self.views:
                continue
            if self.fs[l]["kind"] == "B":
                if has_b and has_b != [l]:
                    continue
                has_b = [l]
            out.append(l)
        return out

    def link_ok(self, p, c):
        if p not in self.fs or c not in self.fs or self.fs[p]["kind"] != "A":
            return False
        t = self.fs[p]["ref"]
        return not (t is not None and t in self.fs and self.fs[t]["kind"] == "B" and self.fs[t]["arr"])

    def apply(self, op):
        k = op["op"]
        if k == "new":
            if op["l"] not in self.fs:
                self.fs[op["l"]] = {"views": [], "ref": None, "kind": "A", "arr": []}
        elif k == "add":
            if self.add_ok(op["l"], op["view"]):
                self.fs[op["l"]]["views"].append(op["view"])
                self._group(op["view"], self.fs[op["l"]]["kind"])
        elif k == "add_all":
            for l in self.addable(op["ls"], op["view"]):
                self.fs[l]["views"].append(op["view"])
                self._group(op["view"], self.fs[l]["kind"])
        elif k == "link":
            if self.link_ok(op["p"], op["c"]):
                self.fs[op["p"]]["ref"] = op["c"]
        elif k == "view":
            if op["name"] not in self.views:
                self.views.append(op["name"])


# ------------------------------------------------------------------------------------------------ documents as text


def _shuffled(items, seed):
    import random
    r = random.Random(seed)
    items = list(items)
    r.shuffle(items)
    return items


def doc_text(start):
    sofas, fss = start["sofas"], start["fs"]
    sid = {s["name"]: s["id"] for s in sofas}
    idof = {f["l"]: f["id"] for f in fss}
    first = sofas[0]["name"]

    def fs_sofa(f):
        # an FS of a view for which the document has no sofa refers to another sofa (add() re-points it)
        return sid.get(f["member"]) or sid.get(INIT, sid[first])

    # the byte array which is the data of a sofa: such a sofa has no text
    arr = {n: f["id"] for f in fss for n in f.get("arr", [])}

    if start["fmt"] == "xmi":
        # Sofa elements stay in the order of start["sofas"] among themselves (that order is the order of cas.sofas)
        elems = []
        for f in fss:
            if f.get("kind") == "B":
                elems.append(("x", f'<cas:ByteArray xmi:id="{f["id"]}" elements="{f["l"]:02X}"/>'))
                continue
            ref = f' ref="{idof[f["ref"]]}"' if f["ref"] is not None else ""
            elems.append(("x", f'<t:A xmi:id="{f["id"]}" sofa="{fs_sofa(f)}" begin="{f["l"]}" end="{f["l"] + 1}" lab="{f["l"]}"{ref}/>'))
        for s in sofas:
            mem = [str(f["id"]) for f in _members(start, s)]
            if mem or (start["perm"] + s["id"]) % 3:
                elems.append(("x", f'<cas:View sofa="{s["id"]}" members="{" ".join(mem)}"/>'))
        elems = _shuffled(elems, start["perm"])
        sof = [f'<cas:Sofa xmi:id="{s["id"]}" sofaNum="{s["num"]}" sofaID="{s["name"]}" '
               + (f'mimeType="application/octet-stream" sofaArray="{arr[s["name"]]}"/>' if s["name"] in arr
                  else f'mimeType="text/plain" sofaString="{TEXT}"/>') for s in sofas]
        # interleave sofas at pseudo-random positions, keeping their relative order
        import random
        r = random.Random(start["perm"] * 7 + 1)
        pos = sorted(r.randint(0, len(elems)) for _ in sof)
        out = []
        j = 0
        for i in range(len(elems) + 1):
            while j < len(sof) and pos[j] == i:
                out.append(sof[j])
                j += 1
            if i < len(elems):
                out.append(elems[i][1])
        return ('<?xml version="1.0" encoding="UTF-8"?>\n<xmi:XMI xmlns:xmi="http://www.omg.org/XMI" '
                'xmlns:cas="http:///uima/cas.ecore" xmlns:t="http:///t.ecore" xmi:version="2.0">\n<cas:NULL xmi:id="0"/>\n'
                + "\n".join(out) + "\n</xmi:XMI>\n")
    recs = []
    for f in fss:
        if f.get("kind") == "B":
            recs.append({"%ID": f["id"], "%TYPE": "uima.cas.ByteArray", "%ELEMENTS": base64.b64encode(bytes([f["l"]])).decode()})
            continue
        d = {"%ID": f["id"], "%TYPE": "t.A", "@sofa": fs_sofa(f), "begin": f["l"], "end": f["l"] + 1, "lab": f["l"]}
        if f["ref"] is not None:
            d["@ref"] = idof[f["ref"]]
        recs.append(d)
    recs = _shuffled(recs, start["perm"])
    import random
    r = random.Random(start["perm"] * 7 + 1)
    pos = sorted(r.randint(0, len(recs)) for _ in sofas)
    out, j = [], 0
    for i in range(len(recs) + 1):
        while j < len(sofas) and pos[j] == i:
            s = sofas[j]
            if s["name"] in arr:
                out.append({"%ID": s["id"], "%TYPE": "uima.cas.Sofa", "sofaNum": s["num"], "sofaID": s["name"],
                            "mimeType": "application/octet-stream", "@sofaArray": arr[s["name"]]})
            else:
                out.append({"%ID": s["id"], "%TYPE": "uima.cas.Sofa", "sofaNum": s["num"], "sofaID": s["name"],
                            "mimeType": "text/plain", "sofaString": TEXT})
            j += 1
        if i < len(recs):
            out.append(recs[i])
    views = {}
    for s in _views_section(start):
        mem = [f["id"] for f in _members(start, s)]
        views[s["name"]] = {"%SOFA": s["id"], "%MEMBERS": mem} if "id" in s else {"%MEMBERS": mem}
    if start.get("form") == "dict":
        body = {}
        for d in out:
            d = dict(d)
            body[str(d.pop("%ID"))] = d
    else:
        body = out
    return json.dumps({"%FEATURE_STRUCTURES": body, "%VIEWS": views})


def parse_doc(fmt, text):
    """-> (sorted [(id, label)], [(id, num, name)] in document order, sorted [(sofa name, id its sofaArray refers to)]);
    stdlib parsers only.  The label of a byte array is its first byte."""
    fs, sofas, arrs = [], [], []
    if fmt == "xmi":
        root = ET.fromstring(text.encode("utf-8"))
        XMI = "{http://www.omg.org/XMI}id"
        for e in root:
            tag = e.tag
            if tag == "{http:///uima/cas.ecore}NULL" or tag == "{http:///uima/cas.ecore}View":
                continue
            if tag == "{http:///uima/cas.ecore}Sofa":
                sofas.append([int(e.attrib[XMI]), int(e.attrib["sofaNum"]), e.attrib["sofaID"]])
                if "sofaArray" in e.attrib:
                    arrs.append([e.attrib["sofaID"], int(e.attrib["sofaArray"])])
            elif tag == "{http:///uima/cas.ecore}ByteArray":
                fs.append([int(e.attrib[XMI]), int(e.attrib["elements"][:2], 16)])
            else:
                fs.append([int(e.attrib[XMI]), int(e.attrib.get("lab", "-1"))])
    else:
        data = json.loads(text)
        body = data["%FEATURE_STRUCTURES"]
        items = [(int(k), v) for k, v in body.items()] if isinstance(body, dict) else [(d["%ID"], d) for d in body]
        for i, d in items:
            if d["%TYPE"] == "uima.cas.Sofa":
                sofas.append([int(i), int(d["sofaNum"]), d["sofaID"]])
                if d.get("@sofaArray") is not None:
                    arrs.append([d["sofaID"], int(d["@sofaArray"])])
            elif d["%TYPE"] == "uima.cas.ByteArray":
                fs.append([int(i), base64.b64decode(d["%ELEMENTS"])[0]])
            else:
                fs.append([int(i), int(d.get("lab", -1))])
    return sorted(fs), sofas, sorted(arrs)


# ------------------------------------------------------------------------------------------------ implementation driver


def _label(fs):
    return list(fs.elements)[0] if fs.type.name == "uima.cas.ByteArray" else fs.lab


def _handles(cas):
    """label -> FS object, found through the public view API, the ref feature and the data arrays of the sofas; and
    label -> ids of the objects, for every label which two or more distinct objects of the CAS carry."""
    out, twins, seen, todo = {}, {}, set(), []
    for s in cas.sofas:
        todo.append(s.sofaArray)
    for v in cas.views:
        todo.extend(v.get_all_annotations())
    while todo:
        fs = todo.pop()
        if fs is None or id(fs) in seen:
            continue
        seen.add(id(fs))
        l = _label(fs)
        if l in out:
            twins.setdefault(l, [out[l].xmiID]).append(fs.xmiID)
        else:
            out[l] = fs
        todo.append(getattr(fs, "ref", None))
    return out, twins


def _snap(cas, objs):
    e = {"snap": sorted([l, fs.xmiID] for l, fs in objs.items()),
         "sofas": [[s.xmiID, s.sofaNum, s.sofaID] for s in cas.sofas]}
    # the data array of every sofa which has one: its label, and whether it is the very object known under that label
    arr = sorted([s.sofaID, _label(s.sofaArray), objs.get(_label(s.sofaArray)) is s.sofaArray]
                 for s in cas.sofas if s.sofaArray is not None)
    if arr:
        e["arr"] = arr
    return e


def _force_value(op, cas, objs):
    ids = [fs.xmiID for fs in objs.values() if fs.xmiID is not None]
    sid = [s.xmiID for s in cas.sofas]
    mode, arg = op["mode"], op.get("arg", 0)
    if mode == "as":
        o = objs.get(arg)
        return None if o is None else o.xmiID
    if mode == "sofa":
        return sid[arg % len(sid)]
    top = max(ids + sid)
    if mode == "above":
        return top + 1 + arg % 3
    for k in range(max(1, top - arg % 4), 0, -1):  # below: not a sofa id
        if k not in sid:
            return k
    return None


def _chosen(spec, used):
    """a value that is not in `used`: beyond all of them (gap arg % 3) or an unused one below the largest"""
    top = max(used)
    if spec["mode"] == "free":
        free = [k for k in range(1, top) if k not in used]
        if free:
            return free[spec["arg"] % len(free)]
    return top + 1 + spec["arg"] % 3


def _doc_ids(start):
    if start["kind"] != "doc":
        return set()
    return {f["id"] for f in start["fs"]} | {s["id"] for s in start["sofas"]}


def _quiet(f, *a, **kw):
    """a call of a deprecated public alias, without its DeprecationWarning"""
    with warnings.catch_warnings():
        warnings.simplefilter("ignore")
        return f(*a, **kw)


def run_impl(cassis, sc):
    """-> {"first": snapshot, "steps": [{"mop": model op (JSON), "snap", "sofas", "obs"}]}; one entry per *model* op."""
    from cassis import Cas, load_cas_from_json, load_cas_from_xmi
    ts = _ts(cassis)
    A = ts.get_type("t.A")
    start = sc["start"]
    load = {"xmi": load_cas_from_xmi, "json": load_cas_from_json}
    if start["kind"] == "doc":
        cas = load[start["fmt"]](doc_text(start), typesystem=ts)
    else:
        cas = Cas(typesystem=ts)
    sim = Sim(start)
    objs, twins = _handles(cas)
    first = _snap(cas, objs)
    if twins:
        first["twins"] = sorted([l, sorted(i for i in x if i is not None)] for l, x in twins.items())
    steps = []
    docids = _doc_ids(start)  # ids of the document the CAS was last loaded from (FS that were not reachable included)
    # live handles: the root and view handles obtained from it; later every Cas returned by create_view / get_view
    handles = [cas] + [cas.get_view(n) for n in sim.views]

    def via(op):
        return handles[op.get("h", 0) % len(handles)]

    def remember(h):
        if len(handles) < 12:
            handles.append(h)
        else:
            handles[1 + (len(steps) % 11)] = h

    def emit(mop, obs, simop=True):
        e = _snap(cas, objs)
        e["mop"], e["obs"] = mop, obs
        e["sop"] = cur if simop else None  # index of the scenario op whose bookkeeping applies after this step
        steps.append(e)

    for cur, op in enumerate(sc["ops"]):
        k = op["op"]
        if k == "new":
            l = op["l"]
            if l in objs:
                emit(["new", l], None)
                sim.apply(op)
                continue
            kw = {}
            pre = op.get("preset")
            if pre:
                val = _force_value(pre, cas, objs)
                if val is not None:
                    kw["xmiID"] = val
            fs = A(begin=l, end=l + 1, lab=l, sofa=via(op).get_view(INIT).get_sofa(), **kw)
            if kw:
                # the constructor argument is rendered as OpNewFs followed by OpForceId
                objs[l] = None
                e = _snap(cas, {x: o for x, o in objs.items() if o is not None})
                e["snap"] = sorted(e["snap"] + [[l, None]])
                e["mop"], e["obs"], e["sop"] = ["new", l], None, cur
                steps.append(e)
                objs[l] = fs
                emit(["force", l, kw["xmiID"]], None, simop=False)
            else:
                objs[l] = fs
                emit(["new", l], None)
        elif k == "add":
            fs = objs.get(op["l"])
            if fs is not None and sim.add_ok(op["l"], op["view"]):
                v = via(op).get_view(op["view"])
                remember(v)
                if op.get("alias"):
                    # the deprecated alias, arguments by position or by keyword
                    if op["keep"] is None:
                        _quiet(v.add_annotation, fs)
                    elif op.get("h", 0) % 2:
                        _quiet(v.add_annotation, fs, op["keep"])
                    else:
                        _quiet(v.add_annotation, fs, keep_id=op["keep"])
                elif op["keep"] is None:
                    v.add(fs)
                else:
                    v.add(fs, keep_id=op["keep"])
                emit(["add", op["l"], op["keep"] is not False], None)
            else:
                emit(["nop"], None)
        elif k == "add_all":
            if op["view"] in sim.views:
                ls = [l for l in sim.addable(op["ls"], op["view"]) if l in objs]
                v = via(op).get_view(op["view"])
                remember(v)
                if op.get("alias"):
                    _quiet(v.add_annotations, [objs[l] for l in ls])
                else:
                    v.add_all([objs[l] for l in ls])
                emit(["add_all", ls], None)
            else:
                emit(["nop"], None)
        elif k == "link":
            if op["p"] in objs and op["c"] in objs and not sim.link_ok(op["p"], op["c"]):
                emit(["nop"], None)  # a byte array has no reference; the reference to the data of a sofa stays
            else:
                if op["p"] in objs and op["c"] in objs:
                    objs[op["p"]].ref = objs[op["c"]]
                emit(["link", op["p"], op["c"]], None)
        elif k == "view":
            kw, mop = {}, ["view", op["name"]]
            if op.get("xid") or op.get("num"):
                if op.get("xid"):
                    used = docids | {s.xmiID for s in cas.sofas} | {fs.xmiID for fs in objs.values() if fs.xmiID is not None}
                    kw["xmiID"] = _chosen(op["xid"], used)
                if op.get("num"):
                    kw["sofaNum"] = _chosen(op["num"], {s.sofaNum for s in cas.sofas})
                mop = ["view_at", op["name"], kw.get("xmiID"), kw.get("sofaNum")]
            try:
                remember(via(op).create_view(op["name"], **kw))
                emit(mop, None)
            except ValueError:
                emit(mop, {"err": "EValue"})
        elif k == "force":
            fs = objs.get(op["l"])
            val = _force_value(op, cas, objs) if fs is not None else None
            if val is None:
                emit(["nop"], None)
            else:
                fs.xmiID = val
                emit(["force", op["l"], val], None)
        elif k in ("save", "reload"):
            order = sim.order()
            try:
                text = via(op).to_xmi() if op["fmt"] == "xmi" else via(op).to_json()
            except ValueError:
                emit([k, order], {"err": "EDupId"})
                sim.apply(op)
                continue
            fs_ids, sofas, arrs = parse_doc(op["fmt"], text)
            doc = {"fs": fs_ids, "sofas": sofas}
            if arrs:
                doc["arr"] = arrs
            if k == "reload" and {i for i, _l in fs_ids} & {x[0] for x in sofas}:
                # the document carries an FS and a sofa under one id: the oracle reports it; reading such a document back is
                # not attempted (the JSON reader keys sofas and FS in one dict), the history ends here as a plain save
                emit(["save", order], doc)
                break
            if k == "reload":
                cas = load[op["fmt"]](text, typesystem=ts)
                docids = {i for i, _l in fs_ids} | {x[0] for x in sofas}
                sim.prune({l: i for i, l in fs_ids})
                objs, twins = _handles(cas)
                handles = [cas] + [cas.get_view(n) for n in sim.views]
            emit([k, order], doc)
            if k == "reload" and twins:
                steps[-1]["twins"] = sorted([l, sorted(i for i in x if i is not None)] for l, x in twins.items())
        else:
            raise AssertionError(k)
        sim.apply(op)
    return {"first": first, "steps": steps}


# ------------------------------------------------------------------------------------------------ oracle


def _dups(xs):
    seen, d = set(), set()
    for x in xs:
        if x in seen:
            d.add(x)
        seen.add(x)
    return sorted(d)


def oracle(cassis, sc, obs):
    start = sc["start"]
    sim = Sim(start)
    base_fs, base_sofa, base_all = {}, {}, set()
    if start["kind"] == "doc":
        base_fs = {f["l"]: f["id"] for f in start["fs"]}
        base_sofa = {s["name"]: (s["id"], s["num"]) for s in start["sofas"]}
        base_all = set(base_fs.values()) | {s["id"] for s in start["sofas"]}
        base_nums = {s["num"] for s in start["sofas"]}
    else:
        base_nums = set()
    forced = set()   # labels whose current id was set from outside (preset / fs.xmiID = k)
    pending = set()  # ... and has not been seen by add(keep_id=True) since, so it is not reserved in the generator
    sofa_const = {}

    def check_snapshot(tag, e):
        if e.get("twins"):
            l, ids = e["twins"][0]
            return f"{tag}: FS {l} exists as {max(2, len(ids))} distinct objects of the CAS, which carry xmi:id {ids}"
        for name, l, same in e.get("arr", []):
            if not same:
                return f"{tag}: the data of sofa {name} (byte array {l}) is another object than the FS {l} held by the indexes"
        want = sorted([n, l] for l, f in sim.fs.items() for n in f["arr"])
        if [x[:2] for x in e.get("arr", [])] != want:
            return f"{tag}: sofas hold the byte arrays {[x[:2] for x in e.get('arr', [])]}, the document said {want}"
        sid = [s[0] for s in e["sofas"]]
        nums = [s[1] for s in e["sofas"]]
        if _dups(nums):
            return f"{tag}: two sofas share sofaNum {_dups(nums)} ({e['sofas']})"
        if _dups(sid):
            return f"{tag}: two sofas share xmi:id {_dups(sid)}"
        for i, n, name in e["sofas"]:
            if name in base_sofa and base_sofa[name] != (i, n):
                return f"{tag}: loaded sofa {name} has id/sofaNum {(i, n)}, the document said {base_sofa[name]}"
            if sofa_const.setdefault(name, (i, n)) != (i, n):
                return f"{tag}: sofa {name} changed id/sofaNum from {sofa_const[name]} to {(i, n)}"
        ids = sid + [i for l, i in e["snap"] if i is not None and l not in forced]
        if _dups(ids):
            return f"{tag}: id {_dups(ids)} is held by two of the sofas / FS whose ids were generated or loaded"
        return None

    m = check_snapshot("after load", obs["first"])
    if m:
        return m
    for l, i in obs["first"]["snap"]:
        if base_fs.get(l) != i:
            return f"after load: FS {l} has xmiID {i}, the document said {base_fs.get(l)}"
    if [x[2] for x in obs["first"]["sofas"]] != sim.views:
        return f"after load: the CAS has the sofas {[x[2] for x in obs['first']['sofas']]}, expected {sim.views}"
    if start["kind"] == "doc":
        # sofas the reader made up (_InitialView when the document has none, views declared without a sofa): their ids
        # and sofaNums are generated after loading and differ from everything in the document, unreachable FS included
        for i, num, name in obs["first"]["sofas"]:
            if name not in base_sofa and i in base_all:
                return f"after load: sofa {name}, for which the document has no Sofa FS, got id {i}, an id of the document"
            if name not in base_sofa and num in base_nums:
                return f"after load: sofa {name}, for which the document has no Sofa FS, got sofaNum {num}, used in the document"
    prev = obs["first"]
    for n, st in enumerate(obs["steps"]):
        mop = st["mop"]
        tag = f"step {n} {mop[0]}"
        pmap, cmap = dict(map(tuple, prev["snap"])), dict(map(tuple, st["snap"]))
        psid = {s[0] for s in prev["sofas"]}
        pnum = {s[1] for s in prev["sofas"]}
        reloaded = mop[0] == "reload" and st["obs"] and "fs" in st["obs"]
        # which labels may change their id in this step, and how
        regen = set()
        pend0 = set(pending)  # ids not yet reserved when this step begins
        if mop[0] == "add" and not mop[2]:
            regen = {mop[1]}
        if mop[0] == "force":
            forced.add(mop[1])
            pending.add(mop[1])
        elif mop[0] == "add" and not mop[2]:
            forced.discard(mop[1])
            pending.discard(mop[1])
        elif mop[0] == "add" and pmap.get(mop[1]) is not None:
            pending.discard(mop[1])
        elif mop[0] == "add_all":
            for l in mop[1]:
                if pmap.get(l) is not None:
                    pending.discard(l)
        if not reloaded:
            for l, i in cmap.items():
                if l not in pmap:
                    if mop[0] == "new" and i is None:
                        continue
                    return f"{tag}: FS {l} appeared with id {i}"
                p = pmap[l]
                if mop[0] == "force" and l == mop[1]:
                    continue
                if l in regen and p is not None and p == i and l not in pend0:
                    # keep_id=False asks for a newly generated id; an id which a generator of this CAS handed out, the
                    # document held or add() reserved is never generated again (an id set from outside that add() has
                    # not seen yet may be)
                    return f"{tag}: add(keep_id=False) left FS {l} under id {i}, which was in use before; no new id was generated"
                if p == i and l not in regen:
                    continue
                if p is not None and l not in regen:
                    return f"{tag}: xmiID of FS {l} changed from {p} to {i}"
                if i is None:
                    return f"{tag}: FS {l} lost its id {p}"
                # i was generated in this step
                if i in base_all:
                    return f"{tag}: generated id {i} for FS {l} is an id of the loaded document"
                if i in psid:
                    return f"{tag}: generated id {i} for FS {l} is the id of a sofa"
                others = {x for ll, x in pmap.items() if x is not None and ll not in pend0 and ll != l}
                if i in others:
                    return f"{tag}: generated id {i} for FS {l} was already in use"
            gen = [cmap[l] for l in cmap if l in pmap and cmap[l] != pmap[l] and not (mop[0] == "force" and l == mop[1])]
            if _dups(gen):
                return f"{tag}: id {_dups(gen)} generated twice in one step"
            new_sofas = [s for s in st["sofas"] if s[2] not in {x[2] for x in prev["sofas"]}]
            if mop[0] == "view_at" and not st["obs"]:
                # create_view(name, xmiID=, sofaNum=): the sofa carries the values the caller chose
                if [x[2] for x in new_sofas] != [mop[1]]:
                    return f"{tag}: create_view({mop[1]}) did not add exactly that sofa: {new_sofas}"
                i, num, _name = new_sofas[0]
                if mop[2] is not None and i != mop[2]:
                    return f"{tag}: create_view({mop[1]}, xmiID={mop[2]}) made a sofa with id {i}"
                if mop[3] is not None and num != mop[3]:
                    return f"{tag}: create_view({mop[1]}, sofaNum={mop[3]}) made a sofa with sofaNum {num}"
            for i, num, name in new_sofas:
                if i in base_all or i in psid or i in {x for ll, x in pmap.items() if x is not None and ll not in pend0}:
                    return f"{tag}: new sofa {name} got id {i} which is already in use"
                if num in pnum or num in base_nums:
                    return f"{tag}: new sofa {name} got sofaNum {num} which is already in use"
            for l in pmap:
                if l not in cmap:
                    return f"{tag}: FS {l} vanished"
        if mop[0] not in ("save", "reload"):
            m = check_snapshot(tag, st)
            if m:
                return m
        else:
            reach = sim.reachable()
            o = st["obs"]
            # ids as they are after the traversal (ids assigned before an error stay)
            after = cmap if not reloaded else None
            if "err" in o:
                ids = [cmap[l] for l in reach if cmap.get(l) is not None]
                if not _dups(ids):
                    return f"{tag}: serialising raised although no two reachable FS share an id"
            else:
                doc_fs, doc_sofas = o["fs"], o["sofas"]
                fids = [i for i, _l in doc_fs]
                if _dups(fids):
                    return f"{tag}: document has two FS under id {_dups(fids)}"
                if _dups([s[1] for s in doc_sofas]):
                    return f"{tag}: document has two sofas with sofaNum {_dups([s[1] for s in doc_sofas])}"
                if _dups([s[0] for s in doc_sofas]):
                    return f"{tag}: document has two sofas with id {_dups([s[0] for s in doc_sofas])}"
                both = sorted(set(fids) & {s[0] for s in doc_sofas})
                if both:
                    who = [l for i, l in doc_fs if i == both[0]][0]
                    if who in forced:
                        return (f"{tag}: document uses id {both[0]} for a sofa and for FS {who}, whose id was set from outside "
                                f"{KNOWN}")
                    return f"{tag}: document uses id {both[0]} for a sofa and for FS {who}, whose id was generated or loaded"
                if sorted(l for _i, l in doc_fs) != sorted(reach):
                    return f"{tag}: document holds FS {sorted(l for _i, l in doc_fs)}, reachable are {sorted(reach)}"
                want = sorted([n, l] for l, f in sim.fs.items() for n in f["arr"])
                if [n for n, _i in o.get("arr", [])] != [n for n, _l in want]:
                    return f"{tag}: document gives data arrays to the sofas {o.get('arr', [])}, the CAS to {want}"
                for (name, i), (_n, l) in zip(o.get("arr", []), want):
                    if [i, l] not in doc_fs:
                        return f"{tag}: sofa {name} refers to id {i} as its data, byte array {l} is written as {[x for x, y in doc_fs if y == l]}"
                if doc_sofas != prev["sofas"]:
                    return f"{tag}: document sofas {doc_sofas} differ from the sofas of the CAS {prev['sofas']}"
                for i, l in doc_fs:
                    p = pmap.get(l)
                    if p is not None and p != i:
                        return f"{tag}: FS {l} had id {p} and was written as {i}"
                    if after is not None and after.get(l) != i:
                        return f"{tag}: FS {l} was written as {i} but carries {after.get(l)}"
                    if p is None and (i in base_all or i in psid):
                        return f"{tag}: id {i} generated while serialising is already in use"
                # two reachable FS forced onto one id must not get here
                pre = [pmap[l] for l in reach if pmap.get(l) is not None]
                if _dups(pre):
                    return f"{tag}: two reachable FS share id {_dups(pre)} and the document was written anyway"
                if reloaded:
                    for l, i in cmap.items():
                        if [i, l] not in doc_fs:
                            return f"{tag}: after reload FS {l} has id {i}, not the id written"
                    if sorted(cmap) != sorted(reach):
                        return f"{tag}: after reload FS {sorted(cmap)} present, written were {sorted(reach)}"
                    if st["sofas"] != doc_sofas:
                        return f"{tag}: after reload sofas are {st['sofas']}, written were {doc_sofas}"
                    base_fs = {l: i for i, l in doc_fs}
                    base_all = set(fids) | {s[0] for s in doc_sofas}
                    base_nums = {s[1] for s in doc_sofas}
                    forced.clear()
                    pending.clear()
                    sim.prune()
            m = check_snapshot(tag, st)
            if m:
                return m
        if st.get("sop") is not None:
            sim.apply(sc["ops"][st["sop"]])
        prev = st
    return None


# ------------------------------------------------------------------------------------------------ rendering


def _gsofa(s):
    return f"mkSofa {gz(s[0])} {gz(s[1])} {gstr(s[2])}"


def _gso(e):
    snap = glist([f"({gz(l)}, {'None' if i is None else 'Some ' + gz(i)})" for l, i in e["snap"]])
    sof = glist([_gsofa(s) for s in e["sofas"]])
    o = e.get("obs")
    if not o:
        ob = "ONone"
    elif "err" in o:
        ob = f"(OErr {o['err']})"
    else:
        ob = f"(ODoc {glist([f'({gz(i)}, {gz(l)})' for i, l in o['fs']])} {glist([_gsofa(s) for s in o['sofas']])})"
    return f"mkSO {snap} {sof} {ob}"


def _gop(m):
    k = m[0]
    if k == "new":
        return f"OpNewFs {gz(m[1])}"
    if k == "add":
        return f"OpAdd {gz(m[1])} {gbool(m[2])}"
    if k == "add_all":
        return f"OpAddAll {glist([gz(x) for x in m[1]])}"
    if k == "link":
        return f"OpLink {gz(m[1])} {gz(m[2])}"
    if k == "view":
        return f"OpCreateView {gstr(m[1])}"
    if k == "view_at":
        oz = lambda v: "None" if v is None else f"(Some {gz(v)})"
        return f"OpCreateViewAt {gstr(m[1])} {oz(m[2])} {oz(m[3])}"
    if k == "save":
        return f"OpSave {glist([gz(x) for x in m[1]])}"
    if k == "reload":
        return f"OpReload {glist([gz(x) for x in m[1]])}"
    if k == "force":
        return f"OpForceId {gz(m[1])} {gz(m[2])}"
    if k == "nop":
        return "OpAddAll []"
    raise AssertionError(k)


def render(sc, obs):
    start = sc["start"]
    if start["kind"] == "empty":
        st = "StartEmpty"
    else:
        idl = {f["l"]: f for f in start["fs"]}
        sof = glist([_gsofa([s["id"], s["num"], s["name"]]) for s in start["sofas"]])
        fss = glist([f"mkDfs {gz(f['l'])} {gz(f['id'])} {gbool(bool(f['member']))} "
                     f"{'None' if f['ref'] is None or f['ref'] not in idl else '(Some ' + gz(f['ref']) + ')'}" for f in start["fs"]])
        st = f"(StartDoc (mkDoc {sof} {fss}))"
        if start.get("extra"):
            st = f"(StartDocViews (mkDoc {sof} {fss}) {glist([gstr(n) for n in _extra_names(start)])})"
    first = dict(obs["first"])
    ops = glist([_gop(e["mop"]) for e in obs["steps"]])
    sos = glist([_gso(e) for e in obs["steps"]], sep=";\n  ")
    return f"mkCase {st} ({_gso(first)}) {ops} {sos}"


# ------------------------------------------------------------------------------------------------ generation


def gen_start(rng):
    if rng.random() < 0.2:
        return {"kind": "empty"}
    nsof = rng.choice([1, 1, 2, 2, 3])
    nfs = rng.randint(0, 5)
    names = [INIT] + rng.sample(["v1", "v2", "v3"], nsof - 1)
    if rng.random() < 0.125:
        names = rng.sample(["v1", "v2", "v3"], nsof)  # no _InitialView sofa in the document
    rng.shuffle(names)
    hi = rng.choice([8, 12, 40])
    ids = rng.sample(range(1, max(hi, nsof + nfs) + 1), nsof + nfs)
    if rng.random() < 0.4:
        ids.sort()
        ids = [ids[-1]] + _shuffled(ids[:-1], rng.random())  # a sofa holds the largest id
    elif rng.random() < 0.3:
        ids.sort()  # the lowest ids on the sofas, as UIMA writes them
    nums = rng.sample(range(1, rng.choice([3, 5, 9]) + 1 + nsof), nsof)
    if rng.random() < 0.3:
        nums = list(range(1, nsof + 1))
        if rng.random() < 0.5:
            nums.reverse()
    sofas = [{"id": ids[i], "num": nums[i], "name": names[i]} for i in range(nsof)]
    fs = []
    for j in range(nfs):
        l = j + 1
        member = rng.choice(names) if (rng.random() < 0.65 or not any(f["member"] for f in fs)) else None
        fs.append({"l": l, "id": ids[nsof + j], "member": member, "ref": None})
    # FS that are not members are referenced by a reachable FS (rarely left unreachable)
    for f in fs:
        if f["member"] is None and rng.random() < 0.93:
            cands = [g for g in fs if g is not f and g["ref"] is None and (g["member"] or g["l"] < f["l"])]
            if cands:
                rng.choice(cands)["ref"] = f["l"]
    if fs and rng.random() < 0.3:
        a, b = rng.choice(fs), rng.choice(fs)
        probe = Sim({"kind": "doc", "sofas": [], "fs": [dict(f, member=INIT) for f in fs]})
        if a["ref"] is None and (CYCLES or not probe.reaches(b["l"], a["l"])):
            a["ref"] = b["l"]
    rng.shuffle(fs)
    fmt = rng.choice(["xmi", "json"])
    return {"kind": "doc", "fmt": fmt, "form": rng.choice(["list", "dict"]) if fmt == "json" else "list",
            "sofas": sofas, "fs": fs, "perm": rng.randint(0, 10 ** 6)}


def gen_scenario(rng, tier):
    onsofa = rng.random() < 0.025  # may force an FS onto a sofa's id (open finding fs_id_equals_sofa_id)
    start = gen_start(rng)
    sim = Sim(start)
    ops = []
    nxt = 10 + max([0] + list(sim.fs))
    n = rng.randint(3, 12)
    vnames = ["v1", "v2", "v3", "w", "x", "y"]
    viewy = rng.random() < 0.25  # create_view is issued more often

    def gen_view():
        op = {"op": "view", "name": rng.choice(vnames)}
        if rng.random() < 0.42:
            which = rng.choice(["xid", "num", "both"])
            for key in ("xid", "num"):
                if which in (key, "both"):
                    op[key] = {"mode": rng.choice(["above", "above", "free"]), "arg": rng.randint(0, 5)}
        return op

    for step in range(n):
        labels = sorted(sim.fs)
        r = rng.random()
        last = step == n - 1
        if last and rng.random() < 0.7:
            op = {"op": rng.choice(["save", "save", "reload"]), "fmt": rng.choice(["xmi", "json"])}
        elif viewy and rng.random() < 0.25:
            op = gen_view()
        elif r < 0.17 or not labels:
            op = {"op": "new", "l": nxt}
            nxt += 1
            if rng.random() < 0.25:
                mode = rng.choice(["as", "below", "above", "above"] + (["sofa", "sofa"] if onsofa else []))
                op["preset"] = {"mode": mode, "arg": rng.choice(labels) if mode == "as" and labels else rng.randint(0, 5)}
                if mode == "as" and not labels:
                    op["preset"]["mode"] = "below"
        elif r < 0.42:
            op = {"op": "add", "l": rng.choice(labels), "keep": rng.choice([True, None, None, False]), "view": rng.choice(sim.views)}
        elif r < 0.50:
            op = {"op": "add_all", "ls": rng.sample(labels, rng.randint(1, min(3, len(labels)))), "view": rng.choice(sim.views)}
        elif r < 0.62:
            op = {"op": "link", "p": rng.choice(labels), "c": rng.choice(labels)}
            if not CYCLES and sim.reaches(op["c"], op["p"]):
                op = {"op": "link", "p": op["c"], "c": op["p"]} if not sim.reaches(op["p"], op["c"]) else {"op": "view", "name": "w"}
        elif r < 0.72:
            op = gen_view()
        elif r < 0.82:
            op = {"op": "save", "fmt": rng.choice(["xmi", "json"])}
        elif r < 0.90:
            op = {"op": "reload", "fmt": rng.choice(["xmi", "json"])}
        else:
            mode = rng.choice(["as", "as", "as", "below", "above"] + (["sofa", "sofa"] if onsofa else []))
            op = {"op": "force", "l": rng.choice(labels), "mode": mode,
                  "arg": rng.choice(labels) if mode == "as" else rng.randint(0, 5)}
        if rng.random() < 0.8:
            op["h"] = rng.randint(0, 40)
        ops.append(op)
        if op["op"] == "reload":
            # which FS survive depends on whether serialising succeeds; both outcomes keep the reachable ones
            sim.prune()
        sim.apply(op)
    return {"start": start, "ops": ops}


def _start_ok(start):
    """the byte array which is the data of a sofa is a member of a view, or referenced by a member (see Sim)"""
    if start["kind"] != "doc":
        return True
    names = {s["name"] for s in start["sofas"]}
    for f in start["fs"]:
        if f.get("kind") == "B":
            if not set(f.get("arr", [])) <= names:
                return False
            if f.get("arr") and not f["member"] and not any(g["member"] and g["ref"] == f["l"] for g in start["fs"]):
                return False
    for s in start["sofas"]:
        if sum(1 for f in start["fs"] if f.get("kind") == "B" and f["member"] == s["name"]) > 1:
            return False
    return True


def _with_arrays(sc):
    """Some documents get one or two uima.cas.ByteArray FS (labels 6, 7): the data of one or two sofas (sofaArray; such
    a sofa has no sofaString), and at the same time a member of a view or the `ref` of a member; some operations of the
    history are redirected to them.  Drawn from a stream of its own (seeded by the document), so everything else in the
    scenario is what it was without byte arrays."""
    import random
    start = sc["start"]
    if start["kind"] != "doc":
        return sc
    r = random.Random(start["perm"] ^ 0x5A17)
    if r.random() >= 0.35:
        return sc
    names = [s["name"] for s in start["sofas"]]
    used = {s["id"] for s in start["sofas"]} | {f["id"] for f in start["fs"]}
    labels = []
    free_views = list(names)
    free_sofas = list(names)
    for l in ((6, 7) if len(names) > 1 and r.random() < 0.25 else (6,)):
        free = [k for k in range(1, max(used) + 4) if k not in used]
        b = {"l": l, "id": r.choice(free), "member": None, "ref": None, "kind": "B", "arr": []}
        used.add(b["id"])
        if r.random() < 0.9 and free_sofas:
            holders = r.sample(free_sofas, 2 if len(free_sofas) > 1 and r.random() < 0.25 else 1)
            b["arr"] = holders
            for n in holders:
                free_sofas.remove(n)
        referrers = [f for f in start["fs"] if f.get("kind") != "B" and f["member"] and f["ref"] is None]
        if referrers and r.random() < 0.35:
            r.choice(referrers)["ref"] = l
        else:
            # member of the view whose sofa holds it (2 in 3) or of another one
            own = [n for n in b["arr"] if n in free_views]
            b["member"] = r.choice(own) if own and r.random() < 0.67 else r.choice(free_views)
            free_views.remove(b["member"])
            if referrers and r.random() < 0.3:
                r.choice(referrers)["ref"] = l
        start["fs"].insert(r.randint(0, len(start["fs"])), b)
        labels.append(l)
    for op in sc["ops"]:
        if r.random() >= 0.15:
            continue
        l = r.choice(labels)
        if op["op"] in ("add", "force"):
            if op["op"] == "force" and op["mode"] == "as" and r.random() < 0.5:
                op["arg"] = l
            else:
                op["l"] = l
        elif op["op"] == "add_all":
            op["ls"] = op["ls"] + [l]
        elif op["op"] == "link":
            op["c"] = l
        elif op["op"] == "new" and op.get("preset", {}).get("mode") == "as":
            op["preset"]["arg"] = l
    assert _start_ok(start), start
    return sc


def _with_views(sc):
    """Some JSON documents declare one or two views in the %VIEWS section for which they hold no Sofa feature structure
    (the reader creates those sofas itself, with generated ids and sofaNums); some FS of the document become members of
    such a view and some add / add_all operations of the history go to it.  A document without an _InitialView sofa
    may declare that name (its members go to the view every CAS has).  Drawn from a stream of its own."""
    import random
    start = sc["start"]
    if start["kind"] != "doc" or start["fmt"] != "json":
        return sc
    r = random.Random(start["perm"] ^ 0x71E5)
    if r.random() >= 0.4:
        return sc
    names = [s["name"] for s in start["sofas"]]
    free = [n for n in ("v1", "v2", "v3", "w", "x") if n not in names]
    extra = [{"name": n, "key": r.randint(0, 99)} for n in r.sample(free, r.choice([1, 1, 2]))]
    if INIT not in names and r.random() < 0.5:
        extra.insert(r.randint(0, len(extra)), {"name": INIT, "key": r.randint(0, 99)})
    start["extra"] = extra
    plain = [f for f in start["fs"] if f.get("kind") != "B"]
    for f in plain:
        if r.random() < 0.3:
            f["member"] = r.choice(extra)["name"]
    for op in sc["ops"]:
        if op["op"] in ("add", "add_all") and r.random() < 0.25:
            op["view"] = r.choice(extra)["name"]
    assert _start_ok(start), start
    return sc


def _with_aliases(sc):
    """About one add / add_all in four is issued through the deprecated public alias (add_annotation / add_annotations);
    a stream of its own, seeded by the history."""
    import random
    r = random.Random(json.dumps(sc["ops"], sort_keys=True))
    for op in sc["ops"]:
        if op["op"] in ("add", "add_all") and r.random() < 0.25:
            op["alias"] = True
    return sc


def _directed():
    """Fixed scenarios: the repaired defects and the boundary shapes named in the property."""
    out = []
    for fmt in ("xmi", "json"):
        for form in (("list", "dict") if fmt == "json" else ("list",)):
            base = {"kind": "doc", "fmt": fmt, "form": form, "perm": 5,
                    "sofas": [{"id": 9, "num": 4, "name": INIT}, {"id": 2, "num": 2, "name": "v1"}],
                    "fs": [{"l": 1, "id": 5, "member": INIT, "ref": 2}, {"l": 2, "id": 3, "member": None, "ref": None},
                           {"l": 3, "id": 7, "member": "v1", "ref": None}]}
            cont = [{"op": "new", "l": 11}, {"op": "add", "l": 11, "keep": None, "view": INIT}, {"op": "view", "name": "w"},
                    {"op": "new", "l": 12}, {"op": "link", "p": 11, "c": 12}, {"op": "save", "fmt": fmt},
                    {"op": "add", "l": 1, "keep": False, "view": "v1"}, {"op": "reload", "fmt": "json" if fmt == "xmi" else "xmi"},
                    {"op": "new", "l": 13}, {"op": "add_all", "ls": [13, 2], "view": "w"}, {"op": "view", "name": "v3"},
                    {"op": "save", "fmt": "xmi"}]
            out.append({"start": base, "ops": cont})
            dup = [{"op": "new", "l": 11}, {"op": "add", "l": 11, "keep": True, "view": INIT},
                   {"op": "force", "l": 11, "mode": "as", "arg": 3}, {"op": "save", "fmt": fmt}, {"op": "reload", "fmt": fmt},
                   {"op": "add", "l": 11, "keep": False, "view": INIT}, {"op": "save", "fmt": fmt}]
            out.append({"start": json.loads(json.dumps(base)), "ops": dup})
            one = {"kind": "doc", "fmt": fmt, "form": form, "perm": 1, "sofas": [{"id": 1, "num": 1, "name": INIT}], "fs": []}
            out.append({"start": one, "ops": [{"op": "view", "name": "v1"}, {"op": "new", "l": 11},
                                              {"op": "add", "l": 11, "keep": None, "view": "v1"}, {"op": "save", "fmt": fmt}]})
    # repaired: a preset id above the generator kept by add was handed out again (ba2e314)
    out.append({"start": {"kind": "empty"},
                "ops": [{"op": "new", "l": 10, "preset": {"mode": "above", "arg": 1}}, {"op": "add", "l": 10, "keep": True, "view": INIT},
                        {"op": "view", "name": "v1"}, {"op": "view", "name": "v2"}, {"op": "new", "l": 11},
                        {"op": "add", "l": 11, "keep": None, "view": "v2"}, {"op": "save", "fmt": "xmi"}, {"op": "reload", "fmt": "json"}]})
    # values chosen by the caller of create_view ahead of both generators (gaps), then enough generated ids / sofaNums for
    # the generators to pass them; also an unused value below the generators
    for st in ({"kind": "empty"},
               {"kind": "doc", "fmt": "json", "form": "dict", "perm": 3, "sofas": [{"id": 6, "num": 2, "name": INIT}],
                "fs": [{"l": 1, "id": 2, "member": INIT, "ref": None}]}):
        out.append({"start": st,
                    "ops": [{"op": "view", "name": "v1", "xid": {"mode": "above", "arg": 2}, "num": {"mode": "above", "arg": 1}},
                            {"op": "view", "name": "v2"}, {"op": "new", "l": 11}, {"op": "add", "l": 11, "keep": None, "view": "v2"},
                            {"op": "view", "name": "v3", "h": 3}, {"op": "new", "l": 12}, {"op": "add", "l": 12, "keep": None, "view": "v1"},
                            {"op": "view", "name": "w", "xid": {"mode": "free", "arg": 0}, "num": {"mode": "free", "arg": 1}},
                            {"op": "view", "name": "x", "h": 2}, {"op": "save", "fmt": "xmi"}, {"op": "reload", "fmt": "json"},
                            {"op": "view", "name": "y"}]})
    # the data of a sofa is a byte array which is an FS of the CAS as well (member of a view / referenced by a member /
    # shared by two sofas): one object, one id, written once; ids generated afterwards avoid it; it can get a fresh id
    for fmt in ("xmi", "json"):
        for form in (("list", "dict") if fmt == "json" else ("list",)):
            for perm in (1, 2):
                st = {"kind": "doc", "fmt": fmt, "form": form, "perm": perm,
                      "sofas": [{"id": 1, "num": 1, "name": INIT}, {"id": 8, "num": 3, "name": "v1"}, {"id": 4, "num": 2, "name": "v2"}],
                      "fs": [{"l": 6, "id": 2, "member": INIT, "ref": None, "kind": "B", "arr": [INIT, "v2"]},
                             {"l": 1, "id": 3, "member": INIT, "ref": 7},
                             {"l": 7, "id": 9, "member": None, "ref": None, "kind": "B", "arr": ["v1"]},
                             {"l": 2, "id": 5, "member": "v1", "ref": 6}]}
                out.append({"start": st,
                            "ops": [{"op": "save", "fmt": fmt}, {"op": "new", "l": 11}, {"op": "add", "l": 11, "keep": None, "view": INIT},
                                    {"op": "view", "name": "w"}, {"op": "add", "l": 7, "keep": None, "view": "w", "h": 2},
                                    {"op": "save", "fmt": "json" if fmt == "xmi" else "xmi"}, {"op": "link", "p": 1, "c": 2},
                                    {"op": "add", "l": 6, "keep": False, "view": "v2"}, {"op": "reload", "fmt": fmt},
                                    {"op": "new", "l": 12}, {"op": "add", "l": 12, "keep": None, "view": "v2"},
                                    {"op": "force", "l": 12, "mode": "as", "arg": 7}, {"op": "save", "fmt": "json"},
                                    {"op": "add", "l": 12, "keep": False, "view": "v1"}, {"op": "reload", "fmt": "json"},
                                    {"op": "save", "fmt": "xmi"}]})
    # JSON documents with views declared in %VIEWS only: their sofas get generated ids / sofaNums beyond the document, and
    # what is generated afterwards lies beyond those; with and without an _InitialView sofa, the largest id on a sofa or
    # on an FS that is not reachable
    for form in ("list", "dict"):
        st = {"kind": "doc", "fmt": "json", "form": form, "perm": 4, "sofas": [{"id": 1, "num": 1, "name": INIT}],
              "fs": [{"l": 1, "id": 2, "member": INIT, "ref": None}, {"l": 2, "id": 3, "member": "v1", "ref": None}],
              "extra": [{"name": "v1", "key": 1}]}
        out.append({"start": st,
                    "ops": [{"op": "save", "fmt": "json"}, {"op": "new", "l": 11}, {"op": "add", "l": 11, "keep": None, "view": "v1"},
                            {"op": "view", "name": "w"}, {"op": "save", "fmt": "xmi"}, {"op": "reload", "fmt": "json"},
                            {"op": "new", "l": 12}, {"op": "add", "l": 12, "keep": None, "view": "w"}, {"op": "view", "name": "x"},
                            {"op": "save", "fmt": "json"}]})
        st = {"kind": "doc", "fmt": "json", "form": form, "perm": 6,
              "sofas": [{"id": 7, "num": 3, "name": "v2"}, {"id": 2, "num": 5, "name": "v1"}],
              "fs": [{"l": 1, "id": 4, "member": "x", "ref": 2}, {"l": 2, "id": 1, "member": None, "ref": None},
                     {"l": 3, "id": 3, "member": INIT, "ref": None}, {"l": 4, "id": 9, "member": None, "ref": None}],
              "extra": [{"name": "x", "key": 0}, {"name": INIT, "key": 1}, {"name": "w", "key": 5}]}
        out.append({"start": st,
                    "ops": [{"op": "view", "name": "x"}, {"op": "view", "name": "y"}, {"op": "new", "l": 11},
                            {"op": "add", "l": 11, "keep": None, "view": "w", "alias": True}, {"op": "save", "fmt": "json"},
                            {"op": "add", "l": 1, "keep": False, "view": "x", "alias": True}, {"op": "reload", "fmt": "xmi"},
                            {"op": "view", "name": "v3"}, {"op": "save", "fmt": "json"}]})
    # the deprecated aliases add_annotation / add_annotations are add / add_all: keep_id=False through the alias gives a new
    # id to an FS whose id (preset, or kept from the document) is in use in the CAS
    for st in ({"kind": "empty"},
               {"kind": "doc", "fmt": "xmi", "form": "list", "perm": 2, "sofas": [{"id": 4, "num": 1, "name": INIT}],
                "fs": [{"l": 1, "id": 1, "member": INIT, "ref": None}, {"l": 2, "id": 2, "member": INIT, "ref": None}]}):
        out.append({"start": st,
                    "ops": [{"op": "new", "l": 11}, {"op": "add", "l": 11, "keep": None, "view": INIT, "alias": True},
                            {"op": "new", "l": 12, "preset": {"mode": "as", "arg": 11}},
                            {"op": "add", "l": 12, "keep": False, "view": INIT, "alias": True, "h": 1}, {"op": "save", "fmt": "xmi"},
                            {"op": "new", "l": 13, "preset": {"mode": "sofa", "arg": 0}},
                            {"op": "add", "l": 13, "keep": False, "view": INIT, "alias": True}, {"op": "save", "fmt": "json"},
                            {"op": "new", "l": 14}, {"op": "add_all", "ls": [14, 11], "view": INIT, "alias": True},
                            {"op": "add", "l": 11, "keep": False, "view": INIT, "alias": True}, {"op": "reload", "fmt": "xmi"},
                            {"op": "add", "l": 12, "keep": True, "view": INIT, "alias": True, "h": 1}, {"op": "save", "fmt": "xmi"}]})
    # repaired: documents without an _InitialView sofa, FS id 1 / sofaNum 1 in the document (941f890)
    for fmt in ("xmi", "json"):
        out.append({"start": {"kind": "doc", "fmt": fmt, "form": "list", "perm": 2, "sofas": [{"id": 5, "num": 1, "name": "v1"}],
                              "fs": [{"l": 1, "id": 1, "member": "v1", "ref": None}]},
                    "ops": [{"op": "save", "fmt": fmt}, {"op": "view", "name": "v2"}, {"op": "new", "l": 11},
                            {"op": "add", "l": 11, "keep": None, "view": INIT}, {"op": "reload", "fmt": fmt}]})
    # repaired: forced duplicate on a reference cycle (5d97967)
    out.append({"start": {"kind": "empty"},
                "ops": [{"op": "new", "l": 10}, {"op": "new", "l": 11}, {"op": "link", "p": 10, "c": 11}, {"op": "link", "p": 11, "c": 10},
                        {"op": "add_all", "ls": [10, 11], "view": INIT}, {"op": "new", "l": 12},
                        {"op": "add", "l": 12, "keep": None, "view": INIT}, {"op": "force", "l": 12, "mode": "as", "arg": 10},
                        {"op": "save", "fmt": "xmi"}, {"op": "save", "fmt": "json"}]})
    out.append({"start": {"kind": "empty"},
                "ops": [{"op": "new", "l": 11}, {"op": "new", "l": 12}, {"op": "add_all", "ls": [11, 12], "view": INIT},
                        {"op": "force", "l": 12, "mode": "as", "arg": 11}, {"op": "save", "fmt": "xmi"}, {"op": "save", "fmt": "json"}]})
    return out


def generate(rng, tier):
    if tier != "search":
        yield from _directed()
    n = {"quick": 1100, "thorough": 12000, "search": 6000}[tier]
    for _ in range(n):
        yield _with_aliases(_with_views(_with_arrays(gen_scenario(rng, tier))))


# ------------------------------------------------------------------------------------------------ misc interface


def nontrivial(sc):
    if sc["start"]["kind"] != "doc":
        return False
    kinds = [o["op"] for o in sc["ops"]]
    gen = any(k in ("view",) or (k == "add") for k in kinds)
    return gen and any(k in ("save", "reload") for k in kinds)


def shrink_candidates(sc):
    ops = sc["ops"]
    for i in range(len(ops) - 1, -1, -1):
        c = json.loads(json.dumps(sc))
        del c["ops"][i]
        yield c
    st = sc["start"]
    if st["kind"] == "doc":
        for i in range(len(st["fs"])):
            c = json.loads(json.dumps(sc))
            gone = c["start"]["fs"].pop(i)["l"]
            for f in c["start"]["fs"]:
                if f["ref"] == gone:
                    f["ref"] = None
            if _start_ok(c["start"]):
                yield c
        for i in range(len(st["sofas"])):
            if len(st["sofas"]) > 1:
                c = json.loads(json.dumps(sc))
                gone = c["start"]["sofas"].pop(i)["name"]
                if any(f["member"] == gone for f in c["start"]["fs"]):
                    continue
                for f in c["start"]["fs"]:
                    if gone in f.get("arr", []):
                        f["arr"].remove(gone)
                if _start_ok(c["start"]):
                    yield c
        for i, e in enumerate(st.get("extra", [])):
            # a view declared without a sofa goes, its members become FS that are only parsed (or referenced)
            c = json.loads(json.dumps(sc))
            del c["start"]["extra"][i]
            if not c["start"]["extra"]:
                del c["start"]["extra"]
            for f in c["start"]["fs"]:
                if f["member"] == e["name"]:
                    f["member"] = None
            if _start_ok(c["start"]):
                yield c
    for i, o in enumerate(ops):
        if o.get("alias"):
            c = json.loads(json.dumps(sc))
            del c["ops"][i]["alias"]
            yield c


def mutate(sc, rng):
    for _ in range(30):
        c = json.loads(json.dumps(sc))
        if c["ops"] and rng.random() < 0.5:
            del c["ops"][rng.randrange(len(c["ops"]))]
        c["ops"].append({"op": rng.choice(["save", "reload"]), "fmt": rng.choice(["xmi", "json"])})
        yield c


def signature(sc, msg):
    msg = msg or ""
    if KNOWN in msg:
        return {"what": "fs_id_equals_sofa_id"}
    import re
    head = re.sub(r"\[.*?\]|\(.*?\)|\d+|sofa \w+|_InitialView", "", msg.split(":", 1)[-1])
    return {"what": "other", "head": " ".join(head.split())[:60]}


def distribution(scenarios, observations):
    docs = [s for s in scenarios if s["start"]["kind"] == "doc"]
    kinds = {}
    for s in scenarios:
        for o in s["ops"]:
            kinds[o["op"]] = kinds.get(o["op"], 0) + 1
    errs = sum(1 for o in observations if o for e in o["steps"] if e.get("obs") and "err" in e["obs"] and e["mop"][0] in ("save", "reload"))
    written = sum(1 for o in observations if o for e in o["steps"] if e.get("obs") and "fs" in e["obs"])
    return {"cases": len(scenarios), "from_document": len(docs),
            "xmi": sum(1 for s in docs if s["start"]["fmt"] == "xmi"), "json": sum(1 for s in docs if s["start"]["fmt"] == "json"),
            "sofa_holds_largest_id": sum(1 for s in docs if max(x["id"] for x in s["start"]["sofas"]) >
                                         max([0] + [f["id"] for f in s["start"]["fs"]])),
            "initial_view_sofanum_not_1": sum(1 for s in docs if any(x["name"] == INIT and x["num"] != 1 for x in s["start"]["sofas"])),
            "without_initial_view": sum(1 for s in docs if not any(x["name"] == INIT for x in s["start"]["sofas"])),
            "documents_with_sofa_data_array": sum(1 for s in docs if any(f.get("arr") for f in s["start"]["fs"])),
            "json_object_form_with_sofa_data_array": sum(1 for s in docs if s["start"].get("form") == "dict"
                                                         and any(f.get("arr") for f in s["start"]["fs"])),
            "data_array_shared_by_two_sofas": sum(1 for s in docs if any(len(f.get("arr", [])) > 1 for f in s["start"]["fs"])),
            "json_documents_with_views_without_sofa": sum(1 for s in docs if s["start"].get("extra")),
            "adds_through_deprecated_alias": sum(1 for s in scenarios for o in s["ops"] if o.get("alias")),
            "create_view_with_chosen_id": sum(1 for s in scenarios for o in s["ops"] if o["op"] == "view" and o.get("xid")),
            "create_view_with_chosen_sofanum": sum(1 for s in scenarios for o in s["ops"] if o["op"] == "view" and o.get("num")),
            "ops": kinds, "documents_written": written, "duplicate_errors": errs}


MANIFEST = {
    "level_text": "Machine-checked proof (Coq 8.16) over an executable model of the id generators, Cas.add / create_view, the id part "
                  "(also with an xmi:id / sofaNum chosen by the caller) of Cas._find_all_fs and the max-id bookkeeping of both readers: for every history from Cas() or from a document "
                  "with distinct ids and an _InitialView sofa, and for every traversal order, generated and loaded ids stay below "
                  "the generator, fresh ids are unused, sofaNums are unique, written documents carry pairwise distinct ids, loaded "
                  "ids are kept, and two reachable FS forced onto one id make serialising fail. The model is compared with /repo on "
                  "every run (hand-written XMI/JSON documents, also with sofas whose data is a byte array that is an FS of the CAS as "
                  "well and JSON documents that declare views without a sofa, add / add_all also through the deprecated aliases, histories of <= 12 operations) inside Coq.",
    "level_note": "Trusted: Coq kernel + vm_compute; hand-written model coq/Ids.v; the harness computes the traversal order for "
                  "tie-free scenarios, the theorems hold for every order; that all view handles share both generators is carried by "
                  "the correspondence (every operation goes through a random live handle). Remaining premises: ids set from outside "
                  "are not a sofa's id (the open known finding fs_id_equals_sofa_id, refuted without it), and a value passed to "
                  "create_view is not an existing sofa's id / sofaNum (caller error otherwise). The former premises about "
                  "_InitialView and about forced ids below the generator were dropped after the repairs ba2e314 / 941f890.",
    "technique": "Coq proof (invariant over histories) on an executable Gallina model + in-Coq behavioural correspondence + direct oracle",
    "design_ref": "DESIGN.md section 5, C09",
}
