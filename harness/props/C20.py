"""C20 — cas_to_comparable_text ignores ids and creation order but not content."""
import csv
import io
import json

from harness import scen
from harness.gallina import gbool, glist, gn, gopt, gstr, gz

ID = "C20"
COQ_TARGETS = ["Comparable.vo", "ComparableProofs.vo", "RefutedC20.vo", "CorrC20.vo", "Props/C20.vo"]
PROPS_FILE = "Props/C20.v"
CORR_IMPORTS = "Base Heap Schema Reach Comparable CorrC20"
OPEN_SCOPES = ["string_scope", "list_scope"]
CASES_PER_SHARD = 60
SHARD_BYTES = 170_000
SHARD_JOBS = 10
ENTRY = "cassis.util.cas_to_comparable_text"
RULE = (
    "every case is a pair (CAS, variant) over a random type system (2-6 user types under Annotation/TOP, two of them "
    "sharing a short name, features of every kind incl. names self/type/begin/end on non-annotation types). The CAS has "
    "1-3 views, per offset-bearing type 0-4 structures with pairwise distinct offsets plus at most one without offsets "
    "(mixed types), at most one structure per offset-less type, annotations never added to a view (sofa None), unset "
    "features, null arrays, arrays nested in FSArrays, an FSArray containing itself, shared and inline arrays/lists; "
    "only CASes whose found structures satisfy unique_offsets_per_type are kept (checked on the scenario by an "
    "independent reachability computation). Variants that must compare EQUAL: ids renumbered / dropped, creation and "
    "add order permuted, XMI round trip, JSON round trip. Variants that must compare DIFFERENT: one primitive value, "
    "one offset, one reference target (to a structure of another type/offsets/index status/view), one array element, one "
    "annotation moved to another view, one structure indexed/unindexed. A small extra stream has two FSArrays "
    "containing each other and a chain of 26 FSArrays each holding the next one twice (outside the premise; rendering must "
    "finish and not raise, model compared with hash := len(elements)). "
    "Texts are taken with default options, covered_text=False, mark_indexed=False and exclude_types={one type}. "
    "Type-system history: in every third pair (and in a directed stream of 8 small pairs over {Base, Sub <: Base}) the "
    "TypeSystem object is not complete when it is first used: the base CAS restricted to the features that exist so far is "
    "rendered, then the remaining user features (always including the feature through which a must-differ pair differs; "
    "declared on the type of the structure or on a supertype; one or two stages) are created with create_feature on the "
    "same object, then the pair is built and compared; the renderings in between are checked by the oracle as well. "
    "Add/remove history: in about 40 % of the pairs (and in a directed stream of 8 small multi-view pairs) one or both CASes "
    "reach their state the way user code does instead of by presetting every slot: the sofa of an indexed structure is left "
    "to Cas.add, structures are first added to and removed from other views (detours) before their final add, a referenced "
    "but unindexed annotation gets its sofa by add + remove; and the variant of a view / index / prim / ref / elem pair may be "
    "obtained from the LIVE base CAS after its rendering (remove from the old view + add to the new one, remove, add, "
    "setattr) instead of being built afresh.  The final state is the one of the scenario, so equal / different is decided "
    "as before and the model is evaluated on the final state. "
    "A case is non-trivial when its variant is a content mutation or it has a mixed type or a nested array."
)
TRUSTED = [
    "Coq 8.16.1 kernel and vm_compute; Print Assumptions of every theorem in Props/C20.v: closed under the global context "
    "(the external functions below are explicit premises, not axioms)",
    "hand-written model coq/Comparable.v of cassis/util.py (grouping, _compare_fs, anchors, disambiguation counter, index "
    "mark by identity, view suffix, row rendering; an array met inside an array is referred to by its anchor) on top of coq/Reach.v (Cas._find_all_fs) and coq/Heap.v / Schema.v",
    "csv module: quoting/escaping of a row of cell texts is not modelled; assumed injective on rows (rows are compared after "
    "parsing the text back with csv.reader); csv writes None as the empty field and every other cell with str()",
    "list.sort with a comparison function: a section parameter with the contract `sort_contract` (permutation; sorted when "
    "the comparison is a strict weak order; stable). The correspondence evaluates an insertion sort",
    "Python hash() inside _feature_structure_hash: a parameter without any contract; under unique_offsets_per_type it never "
    "decides (theorem C20_compare_total_order); the correspondence evaluates hash := 0 (len(elements) for arrays)",
    "repr(float) and repr(str) inside list cells: parameters assumed injective; the correspondence uses tables computed by "
    "the harness with Python's repr (not taken from the output under test); str(int) is DecimalString",
    "sorted() on distinct type names / feature names is modelled by an insertion sort on String.leb (UTF-8 byte order = "
    "code point order)",
    "harness/scen.py builders (public API) and its independent schema computation; the order of View.select_all() is read "
    "from the implementation and only used as traversal seed order, which the theorems prove irrelevant",
]
ASSUMPTIONS = [
    "premise unique_offsets_per_type (boolean, counted per case as premises_satisfied)",
    "open finding null_sentinel_string: a string feature value equal to the reserved text '<NULL>' is rendered like None; "
    "generated on purpose by a directed stream, reported as KNOWN-FINDING, refuted in Coq (C20_null_sentinel_refuted)",
    "open finding view_of_sofaless_fs: in which view a structure WITHOUT a sofa feature is indexed is not rendered (only "
    "whether it is indexed at all); directed stream, KNOWN-FINDING, C20_view_of_sofaless_refuted; the random 'moved to "
    "another view' variant uses structures with a sofa",
    "outside the claim: the contents of lists (IntegerList, FSList, ...) held by a feature without multipleReferencesAllowed "
    "are not rendered (the cell is empty; the nodes are not listed structures and lists are not in the property's enumeration "
    "of what must show); content mutations never touch them, the model agrees with the implementation when they are present",
    "view names contain no '(' (sensitivity to the view is proved under this premise)",
    "user features are not called sofa, xmiID, elements, head or tail (DESIGN section 6 end: structural names); array types "
    "are inheritance-final (a user subtype of an array type cannot be traversed by Cas._find_all_fs at all)",
]

T = scen.T
INTLIKE = {T + "Integer", T + "Long", T + "Short", T + "Byte", T + "Boolean"}
OPTS = [("default", {}), ("nocov", {"covered_text": False}), ("nomark", {"mark_indexed": False}), ("excl", None)]
EQUAL_KINDS = ["ids", "perm", "xmi", "json"]
DIFF_KINDS = ["prim", "offset", "ref", "elem", "view", "index"]
# directed "must differ" variants for the two open findings (known_findings.json): the oracle applies the property as written
OPEN_KINDS = ["nullstr", "sofaless_view"]
NULL_SENTINEL = "<NULL>"
_TS_CACHE = {}


# ------------------------------------------------------------------------------------------------ scenario helpers


def _schema(cassis, tspec):
    k = json.dumps(tspec, sort_keys=True)
    if k not in _TS_CACHE:
        if len(_TS_CACHE) > 400:
            _TS_CACHE.clear()
        _TS_CACHE[k] = (scen.build_ts(cassis, tspec), scen.schema_of(cassis, tspec))
    return _TS_CACHE[k]


# --- staged type systems: sc["stages"] = [[[type, feature], ...], ...] names the user features that are created on the
# TypeSystem object only AFTER a CAS over it has been rendered (stage k+1 after the k-th warm-up rendering).


def _stage_rank(sc):
    return {(d, f): i + 1 for i, st in enumerate(sc.get("stages") or []) for d, f in st}


def _tspec_upto(sc, k):
    rank = _stage_rank(sc)
    return [dict(t, feats=[f for f in t["feats"] if rank.get((t["name"], f["name"]), 0) <= k]) for t in sc["ts"]]


def _case_schema(cassis, sc, upto=None):
    """Independent schema of the case.  For a staged type system the effective feature lists are put into the order
    Type.all_features has after that history (own features in creation order; inherited: built-in ones, then user features
    in creation order), features of stages after `upto` left out.  Only the traversal order depends on this order."""
    if not sc.get("stages"):
        return _schema(cassis, sc["ts"])[1]
    rank = _stage_rank(sc)
    full = scen.schema_of(cassis, sc["ts"])
    n_own = {t["name"]: len(t["feats"]) for t in sc["ts"]}
    last = len(sc["stages"]) if upto is None else upto
    out = {}
    for n, s in full.items():
        if n not in n_own:
            out[n] = s
            continue

        def rk(fd, anc=s["anc"]):
            return next((rank[(a, fd[1])] for a in anc if (a, fd[1]) in rank), 0)

        own, inh = s["feats"][:n_own[n]], s["feats"][n_own[n]:]
        feats = sorted(own, key=rk) + sorted(inh, key=rk)          # sorted() is stable
        out[n] = {"anc": s["anc"], "feats": [fd for fd in feats if rk(fd) <= last]}
    return out


def _strip(cspec, sc, schema, k):
    """`cspec` without the slots of the features that do not exist yet after stage k."""
    gone = {(d, scen.pyname(f)) for (d, f), i in _stage_rank(sc).items() if i > k}
    c = clone(cspec)
    for o in c["objs"]:
        anc = schema[o["type"]]["anc"] if o["type"] in schema else []
        for pn in list(o["slots"]):
            if any((a, pn) in gone for a in anc):
                del o["slots"][pn]
    return c


def _is_prim(schema, rng):
    return any(a in scen.PRIMS for a in [rng] + schema.get(rng, {"anc": []})["anc"])


def _arr_like(tn):
    return tn in scen.ARRS or tn == scen.FS_ARRAY


def _list_like(tn):
    return tn in scen.LISTS or tn == scen.FS_LIST


def py_int(v):
    """isinstance(x, int) on a scenario value."""
    if isinstance(v, dict) and "i" in v:
        return v["i"]
    if isinstance(v, dict) and "b" in v:
        return int(v["b"])
    return None


def okey(o):
    """(type, offsets or None): the key of unique_offsets_per_type, by duck typing on begin/end like the code."""
    b, e = py_int(o["slots"].get("begin")), py_int(o["slots"].get("end"))
    return (o["type"], (b, e) if b is not None and e is not None else None)


def reach(cspec, schema):
    """Labels of the structures cas_to_comparable_text lists: closure of the indexed ones under references, FSArray
    elements and the members of FSArray/FSList collections held inline.  Independent of cassis and of the model."""
    by = {o["o"]: o for o in cspec["objs"]}
    seen, order, todo = set(), [], [l for _v, l in cspec["members"]]
    while todo:
        l = todo.pop(0)
        if l in seen:
            continue
        seen.add(l)
        order.append(l)
        o = by[l]
        if _arr_like(o["type"]):
            if o["type"] == scen.FS_ARRAY:
                el = o["slots"].get("elements")
                todo.extend(e["ref"] for e in (el["list"] if el else []) if e is not None and "ref" in e)
            continue
        for pn, _xn, rng, _el, multi in schema[o["type"]]["feats"]:
            if pn == "sofa" or _is_prim(schema, rng):
                continue
            v = o["slots"].get(pn)
            if v is None or "ref" not in v:
                continue
            if not multi and (_arr_like(rng) or _list_like(rng)):
                if rng == scen.FS_ARRAY:
                    el = by[v["ref"]]["slots"].get("elements")
                    todo.extend(e["ref"] for e in (el["list"] if el else []) if e is not None and "ref" in e)
                elif rng == scen.FS_LIST:
                    cur, nodes = v["ref"], set()
                    while cur is not None and cur not in nodes and "head" in [f[0] for f in schema[by[cur]["type"]]["feats"]]:
                        nodes.add(cur)
                        hd = by[cur]["slots"].get("head")
                        if hd is not None and "ref" in hd:
                            todo.append(hd["ref"])
                        tl = by[cur]["slots"].get("tail")
                        cur = tl["ref"] if tl is not None and "ref" in tl else None
                continue
            todo.append(v["ref"])
    return order


def premise_ok(cspec, schema):
    by = {o["o"]: o for o in cspec["objs"]}
    keys = [okey(by[l]) for l in reach(cspec, schema)]
    return len(keys) == len(set(keys))


def anchor_tuple(cspec, lab):
    """What an anchor is made of, from the scenario: short type name, offsets, indexed anywhere, view."""
    o = {x["o"]: x for x in cspec["objs"]}[lab]
    sofa = o["slots"].get("sofa")
    return (o["type"].rsplit(".", 1)[-1], okey(o)[1], any(l == lab for _v, l in cspec["members"]),
            sofa["sofa"] if sofa else None)


def pystr(v):
    """str() of the Python value a scenario value stands for (what csv writes); independent of cassis."""
    if v is None:
        return "<NULL>"
    if "i" in v:
        return str(v["i"])
    if "f" in v:
        return repr(scen.unfl(v["f"]))
    if "b" in v:
        return str(v["b"])
    if "s" in v:
        return v["s"]
    return json.dumps(v, sort_keys=True)


# ------------------------------------------------------------------------------------------------ generators


def gen_ts(r):
    """Random type system (own copy of the shape of scen.gen_tspec, so that changes there cannot shift the cases of this
    check): 2-5 user types under Annotation / TOP / AnnotationBase / one another, two of them possibly sharing a short
    name (the disambiguation counter is shared by all types), features of every kind, reserved and structural names."""
    n_types, max_feats, awkward = r.randint(2, 5), r.randint(1, 4), r.random() < 0.35
    names = ["a.b.T0", "a.c.T0" if r.random() < 0.5 else "a.c.T1", "x.b.T2", "NoNs", "q.cas.T4"][:n_types]
    AB = T + "AnnotationBase"
    spec = []
    for n in names:
        sup = r.choice([scen.ANNOTATION, scen.ANNOTATION, scen.TOP, AB] + [t["name"] for t in spec])
        spec.append({"name": n, "super": sup, "feats": []})
    spec.append({"name": "a.MyStr", "super": T + "String", "feats": []})
    by = {u["name"]: u for u in spec}

    def is_ann(t):
        while t is not None:
            if t["super"] == scen.ANNOTATION:
                return True
            t = by.get(t["super"])
        return False

    def chain_names(t):
        out, cur = set(), t
        while cur is not None:
            out.update(f["name"] for f in cur["feats"])
            cur = by.get(cur["super"])
        for u in spec:
            c = u
            while c is not None and c is not t:
                c = by.get(c["super"])
            if c is t:
                out.update(f["name"] for f in u["feats"])
        return out

    for t in spec[:-1]:
        for j in range(r.randint(0, max_feats)):
            kind = r.choice(["prim", "prim", "arr", "lst", "ref", "fsarr", "fslist", "top", "mystr"])
            pool = ["f%d" % j, "g%d" % j] + (["self", "type", "begin", "end", "id"] if awkward else [])
            fn = r.choice(pool) if j else "f0"
            if fn in ("begin", "end") and is_ann(t):
                fn = "h%d" % j
            if fn in chain_names(t):      # one definition per inheritance chain
                continue
            multi = r.choice([None, True, False])
            f = {"name": fn, "elem": None, "multi": None}
            if kind == "prim":
                f["range"] = r.choice(sorted(scen.PRIMS))
            elif kind == "arr":
                f["range"], f["multi"] = r.choice(sorted(scen.ARRS)), multi
            elif kind == "lst":
                f["range"], f["multi"] = r.choice(sorted(scen.LISTS)), multi
            elif kind == "ref":
                f["range"] = r.choice(spec[:-1])["name"]
            elif kind == "fsarr":
                f["range"], f["multi"] = scen.FS_ARRAY, multi
                f["elem"] = r.choice([None] + [x["name"] for x in spec[:-1]])
            elif kind == "fslist":
                f["range"], f["multi"] = scen.FS_LIST, multi
            elif kind == "top":
                f["range"] = scen.TOP
            else:
                f["range"] = "a.MyStr"
            t["feats"].append(f)
    return spec


def gen_cas(r, cassis, tspec, schema, ids="all", rt_safe=False):
    """rt_safe: leave out what a save/load round trip is not expected to keep or cannot write (C01/C02 preconditions):
    arrays whose elements are None (read back as empty), FSArrays containing themselves while held inline (the inline copy
    and the separately written array become two objects), annotations that were never given a sofa."""
    user = [t["name"] for t in tspec if t["name"] != "a.MyStr"]
    nviews = r.randint(1, 3)
    texts = [t for t in scen.TEXTS if t] + [[ord(c) for c in "The quick brown fox jumps over the lazy dog again."]]
    views = [{"name": "_InitialView" if i == 0 else "view%d" % i,
              "text": r.choice(texts + [[], None]) if i or r.random() < 0.2 else r.choice(texts),
              "mime": r.choice([None, "text/plain"])} for i in range(nviews)]
    objs, members, lab = [], [], [0]

    def aval(k):
        v = scen.rval(r, k)
        # an empty string element of a separately written StringArray does not survive XMI (C01 finding, not C20)
        return {"s": "e"} if rt_safe and v == {"s": ""} else v

    def new(type_, slots):
        lab[0] += 1
        objs.append({"o": lab[0], "type": type_, "id": None, "slots": slots})
        return lab[0]

    def isa(tn, anc):
        return anc in schema[tn]["anc"]

    def feat(tn, pn):
        return next((f for f in schema[tn]["feats"] if f[0] == pn), None)

    main, ann_view, ann_home = [], {}, {}
    for tn in user:
        fb, fe = feat(tn, "begin"), feat(tn, "end")
        offset_type = fb is not None and fe is not None and fb[2] in INTLIKE and fe[2] in INTLIKE
        if isa(tn, scen.ANNOTATION):
            used = set()
            for _ in range(r.choice([0, 1, 2, 3])):
                vi = r.randrange(nviews)
                L = len(views[vi]["text"] or [])
                b = r.randint(0, L)
                e = r.randint(b, L)
                if (b, e) in used:
                    continue
                used.add((b, e))
                l = new(tn, {"begin": {"i": b}, "end": {"i": e}})
                ann_home[l] = vi
                indexed = r.random() < 0.65
                if indexed or rt_safe or r.random() < 0.6:
                    by_l(objs, l)["slots"]["sofa"] = {"sofa": views[vi]["name"]}
                if indexed:
                    ann_view[l] = vi
                main.append(l)
            if r.random() < 0.3 and not rt_safe:      # at most one structure of the type without offsets: a mixed type
                l = new(tn, r.choice([{}, {"begin": {"i": 1}}]))
                main.append(l)
        elif offset_type:
            used = set()
            for _ in range(r.choice([0, 1, 2, 3])):
                vb = scen.rval(r, "bool") if fb[2] == T + "Boolean" else {"i": r.randint(-3, 9)}
                ve = scen.rval(r, "bool") if fe[2] == T + "Boolean" else {"i": r.randint(-3, 9)}
                k = (py_int(vb), py_int(ve))
                if k in used:
                    continue
                used.add(k)
                main.append(new(tn, {"begin": vb, "end": ve}))
            if r.random() < 0.3:
                main.append(new(tn, {}))
        elif r.random() < 0.75:
            main.append(new(tn, {}))
    if not main:
        main.append(new(user[0], {}))
    by_label = {o["o"]: o for o in objs}

    def pick_ref(range_):
        c = [l for l in main if isa(by_label[l]["type"], range_)]
        return {"ref": r.choice(c)} if c else None

    shared = {}      # collection type -> the one object of it that may be found (premise: one offset-less structure per type)

    def mklist(base, elems):
        cur = new(T + "Empty" + base + "List", {})
        for e in reversed(elems):
            cur = new(T + "NonEmpty" + base + "List", {"head": e, "tail": {"ref": cur}})
        return cur

    def fs_elems(n, arr_label=None):
        out = []
        for _ in range(n):
            x = r.random()
            if x < 0.15:
                out.append(None)
            elif x < 0.25 and arr_label is not None and not rt_safe:
                out.append({"ref": arr_label})                       # an FSArray that contains itself
            elif x < 0.4:
                at = r.choice(sorted(scen.ARRS))                     # a primitive array nested in the FSArray: it is found
                if at not in shared:
                    shared[at] = new(at, {"elements": {"list": [aval(scen.ARRS[at]) for _ in range(r.choice([0, 1, 2]))]}})
                out.append({"ref": shared[at]})
            else:
                out.append({"ref": r.choice(main)})
        return out

    for l in list(main):
        o = by_label[l]
        for pn, _xn, rng, _el, multi in schema[o["type"]]["feats"]:
            if pn == "sofa" or pn in o["slots"] or (pn in ("begin", "end") and okey(o)[1] is not None):
                continue
            if pn in ("begin", "end") and isa(o["type"], scen.ANNOTATION):
                continue
            if r.random() < 0.3:
                continue
            v = None
            if _is_prim(schema, rng):
                prim = next(a for a in [rng] + schema.get(rng, {"anc": []})["anc"] if a in scen.PRIMS)
                v = scen.rval(r, scen.PRIMS[prim])
                if pn in ("begin", "end") and py_int(v) is not None and py_int(o["slots"].get("end" if pn == "begin" else "begin")) is not None:
                    continue      # would turn an offset-less structure into an offset-bearing one unnoticed
            elif rng in scen.ARRS or rng == scen.FS_ARRAY:
                if multi and rng in shared:
                    v = {"ref": shared[rng]} if r.random() < 0.7 else None
                else:
                    a = new(rng, {})
                    if rng == scen.FS_ARRAY:
                        el = fs_elems(r.choice([0, 1, 2, 3]), a if (multi or r.random() < 0.3) else None)
                        # a self reference makes an inline array found as well: then it is THE found FSArray
                        if any(e is not None and e.get("ref") == a for e in el):
                            if scen.FS_ARRAY in shared:
                                el = [e for e in el if e is None or e.get("ref") != a]
                            else:
                                shared[scen.FS_ARRAY] = a
                    else:
                        el = [aval(scen.ARRS[rng]) for _ in range(r.choice([0, 0, 1, 3]))]
                    by_l(objs, a)["slots"]["elements"] = None if (r.random() < 0.12 and not rt_safe) else {"list": el}
                    if multi:
                        shared[rng] = a
                    v = {"ref": a}
            elif rng in scen.LISTS or rng == scen.FS_LIST:
                base = scen.LISTS[rng][0] if rng in scen.LISTS else "FS"
                if multi and rng in shared:
                    v = {"ref": shared[rng]} if r.random() < 0.7 else None
                else:
                    n = r.choice([0, 1]) if multi else r.choice([0, 1, 3])
                    if rng == scen.FS_LIST:
                        el = [(None if r.random() < 0.2 else {"ref": r.choice(main)}) for _ in range(n)]
                    else:
                        el = [scen.rval(r, scen.LISTS[rng][1]) for _ in range(n)]
                    v = {"ref": mklist(base, el)}
                    if multi:
                        shared[rng] = v["ref"]
            else:
                v = pick_ref(rng)
            if v is not None:
                o["slots"][pn] = v
        by_label = {o["o"]: o for o in objs}
    def has_sofa(tn):
        return feat(tn, "sofa") is not None

    for l in main:
        tn = by_label[l]["type"]
        if l in ann_view:
            members.append([ann_view[l], l])
        elif isa(tn, scen.ANNOTATION):
            continue
        elif has_sofa(tn):
            # subtypes of AnnotationBase: Cas.add sets the sofa, so such a structure is indexed in one view, its own
            vi = r.randrange(nviews)
            x = r.random()
            if x < 0.6:
                members.append([vi, l])
            if x < 0.8 or rt_safe:
                by_label[l]["slots"]["sofa"] = {"sofa": views[vi]["name"]}
        elif r.random() < 0.6:
            for vi in r.sample(range(nviews), r.randint(1, nviews) if r.random() < 0.3 else 1):
                members.append([vi, l])
    if not members:
        l = main[0]
        vi = ann_home.get(l, 0)      # the view its offsets were drawn for
        if has_sofa(by_label[l]["type"]):
            by_label[l]["slots"]["sofa"] = {"sofa": views[vi]["name"]}
        members.append([vi, l])
    r.shuffle(members)
    cspec = {"views": views, "objs": objs, "members": members}
    assign_ids(r, cspec, ids)
    return cspec


def by_l(objs, l):
    return next(o for o in objs if o["o"] == l)


def assign_ids(r, cspec, how):
    nviews = len(cspec["views"])
    if how == "none":
        for o in cspec["objs"]:
            o["id"] = None
        return
    pool = [i for i in range(1, 5 * len(cspec["objs"]) + 30) if i > nviews]
    r.shuffle(pool)
    for o, i in zip(cspec["objs"], pool):
        o["id"] = i


def clone(x):
    return json.loads(json.dumps(x))


def found_nonexcluded(cspec, schema):
    return reach(cspec, schema)


def mutate_cas(r, kind, cspec, schema):
    """A single-point content mutation of `cspec` (a new cspec), or None when this CAS offers no site for it."""
    v = clone(cspec)
    by = {o["o"]: o for o in v["objs"]}
    found = reach(v, schema)
    main_labels = [o["o"] for o in v["objs"] if not _arr_like(o["type"]) and not o["type"].startswith(T)]
    if kind == "prim":
        sites = []
        for l in found:
            o = by[l]
            if _arr_like(o["type"]):
                continue
            for pn, _xn, rng, _el, _m in schema[o["type"]]["feats"]:
                if pn in ("begin", "end", "sofa") or not _is_prim(schema, rng):
                    continue
                sites.append((l, pn, rng))
        if not sites:
            return None
        l, pn, rng = r.choice(sites)
        prim = next(a for a in [rng] + schema.get(rng, {"anc": []})["anc"] if a in scen.PRIMS)
        old = by[l]["slots"].get(pn)
        for _ in range(30):
            new = scen.rval(r, scen.PRIMS[prim]) if (old is None or r.random() < 0.85) else None
            if pystr(new) != pystr(old):
                if new is None:
                    by[l]["slots"].pop(pn, None)
                else:
                    by[l]["slots"][pn] = new
                return v
        return None
    if kind == "offset":
        sites = [l for l in found if okey(by[l])[1] is not None]
        if not sites:
            return None
        l = r.choice(sites)
        o = by[l]
        taken = {okey(by[m])[1] for m in found if m != l and by[m]["type"] == o["type"]}
        b, e = okey(o)[1]
        isbool = "b" in o["slots"]["begin"] or "b" in o["slots"]["end"]
        sofa = o["slots"].get("sofa")
        L = 12
        if sofa:
            L = len(next(w for w in v["views"] if w["name"] == sofa["sofa"])["text"] or [])
        cands = []
        if isbool:
            cands = [(nb, ne) for nb in (0, 1) for ne in (0, 1)]
        elif scen.ANNOTATION in schema[o["type"]]["anc"]:
            cands = [(nb, e) for nb in range(0, e + 1)] + [(b, ne) for ne in range(b, L + 1)]
        else:
            cands = [(b + d, e) for d in (-2, -1, 1, 2)] + [(b, e + d) for d in (-2, -1, 1, 2)]
        cands = [c for c in cands if c != (b, e) and c not in taken]
        if not cands:
            return None
        nb, ne = r.choice(cands)
        for nm, val in (("begin", nb), ("end", ne)):
            if "b" in o["slots"][nm]:
                o["slots"][nm] = {"b": bool(val)}
            else:
                o["slots"][nm] = {"i": val}
        return v
    if kind == "ref":
        sites = []
        for l in found:
            o = by[l]
            if _arr_like(o["type"]):
                continue
            for pn, _xn, rng, _el, _m in schema[o["type"]]["feats"]:
                if pn == "sofa" or _is_prim(schema, rng) or _arr_like(rng) or _list_like(rng) or rng.startswith(T + "NonEmpty") \
                        or rng.startswith(T + "Empty"):
                    continue
                sites.append((l, pn, rng))
        r.shuffle(sites)
        for l, pn, rng in sites:
            old = by[l]["slots"].get(pn)
            oldt = anchor_tuple(v, old["ref"]) if old else None
            # any other listed structure has another anchor (prefix or disambiguation counter); the old and the new target
            # must both be listed, otherwise the cell is empty either way
            cands = [m for m in main_labels if rng in schema[by[m]["type"]]["anc"] and m in found
                     and (old is None or m != old["ref"])]
            twins = [m for m in cands if anchor_tuple(v, m) == oldt]
            if twins and r.random() < 0.5:
                cands = twins
            if old and old["ref"] not in found:
                continue
            opts_ = [{"ref": m} for m in cands] + ([None] if old else [])
            if not opts_:
                continue
            new = r.choice(opts_)
            if new is None:
                by[l]["slots"].pop(pn)
            else:
                by[l]["slots"][pn] = new
            return v
        return None
    if kind == "elem":
        # arrays that are rendered: found themselves or held by a feature of a found structure
        shown = set()
        for l in found:
            o = by[l]
            if _arr_like(o["type"]):
                shown.add(l)
                continue
            for pn, _xn, rng, _el, _m in schema[o["type"]]["feats"]:
                val = o["slots"].get(pn)
                if val and "ref" in val and _arr_like(by[val["ref"]]["type"]):
                    shown.add(val["ref"])
        sites = [a for a in sorted(shown) if by[a]["slots"].get("elements") is not None]
        r.shuffle(sites)
        for a in sites:
            el = by[a]["slots"]["elements"]["list"]
            at = by[a]["type"]
            if at == scen.FS_ARRAY:
                i = r.randrange(len(el) + 1)
                old = el[i] if i < len(el) else "absent"
                cands = [{"ref": m} for m in main_labels if m in found and not (isinstance(old, dict) and old.get("ref") == m)]
                if old is not None:
                    cands.append(None)
                if not cands:
                    continue
                new = r.choice(cands)
            else:
                i = r.randrange(len(el) + 1)
                old = el[i] if i < len(el) else None
                new = None
                for _ in range(30):
                    c = scen.rval(r, scen.ARRS[at])
                    if i >= len(el) or pystr(c) != pystr(old):
                        new = c
                        break
                if new is None:
                    continue
            if i < len(el):
                el[i] = new
            else:
                el.append(new)
            return v
        return None
    if kind == "view":
        if len(v["views"]) < 2:
            return None
        sites = [l for l in found if by[l]["slots"].get("sofa")]
        if not sites:
            return None
        l = r.choice(sites)
        o = by[l]
        cur = o["slots"]["sofa"]["sofa"]
        others = [i for i, w in enumerate(v["views"]) if w["name"] != cur]
        ni = r.choice(others)
        o["slots"]["sofa"] = {"sofa": v["views"][ni]["name"]}
        for m in v["members"]:
            if m[1] == l:
                m[0] = ni
        return v
    if kind == "index":
        sites = [l for l in found if not _arr_like(by[l]["type"]) and not by[l]["type"].startswith(T)]
        if not sites:
            return None
        l = r.choice(sites)
        o = by[l]
        if any(m[1] == l for m in v["members"]):
            v["members"] = [m for m in v["members"] if m[1] != l]
            if not v["members"]:
                return None
        else:
            sofa = o["slots"].get("sofa")
            vi = 0
            if sofa:
                vi = next(i for i, w in enumerate(v["views"]) if w["name"] == sofa["sofa"])
            elif any(f[0] == "sofa" for f in schema[o["type"]]["feats"]):
                vi = r.randrange(len(v["views"]))
                o["slots"]["sofa"] = {"sofa": v["views"][vi]["name"]}      # Cas.add sets the sofa
            v["members"].insert(r.randrange(len(v["members"]) + 1), [vi, l])
        return v
    raise ValueError(kind)


def equal_variant(r, kind, cspec):
    if kind == "ids":
        v = clone(cspec)
        assign_ids(r, v, "none" if r.random() < 0.25 else "all")
        return v
    if kind == "perm":
        v = clone(cspec)
        r.shuffle(v["objs"])
        r.shuffle(v["members"])
        return v
    return None      # xmi / json: the variant is produced by the implementation


def two_cycle(r, cassis):
    """Two FSArrays containing each other (both are found: outside unique_offsets_per_type)."""
    tspec = [{"name": "a.Holder", "super": scen.TOP, "feats": [
        {"name": "arr", "range": scen.FS_ARRAY, "elem": None, "multi": r.choice([True, False, None])},
        {"name": "n", "range": T + "Integer", "elem": None, "multi": None}]}]
    extra = r.choice([[], [{"ref": 1}], [None, {"ref": 1}]])
    objs = [{"o": 1, "type": "a.Holder", "id": 10, "slots": {"arr": {"ref": 2}, "n": {"i": r.randint(0, 5)}}},
            {"o": 2, "type": scen.FS_ARRAY, "id": 11, "slots": {"elements": {"list": [{"ref": 3}] + extra}}},
            {"o": 3, "type": scen.FS_ARRAY, "id": 12, "slots": {"elements": {"list": [{"ref": 2}] + r.choice([[], [{"ref": 3}]])}}}]
    cs = {"views": [{"name": "_InitialView", "text": [97, 98], "mime": None}], "objs": objs, "members": [[0, 1]]}
    return {"ts": tspec, "cas": cs, "kind": "cycle2", "var": None, "xt": None, "outside": True}


def array_chain(r, depth=25):
    """A chain of FSArrays each holding the next one twice (lengths made pairwise different by padding with None, so that
    the content hash len(elements) orders them; outside the premise like the two-cycle).  Before fix 23e9ca1 an array met
    inside an array was expanded in place: 2^depth copies of the last array, i.e. the rendering does not finish (the
    engine reports a case that does not finish as a failing input).  Now every nested array appears as its anchor."""
    tspec = [{"name": "a.Holder", "super": scen.TOP, "feats": [
        {"name": "arr", "range": scen.FS_ARRAY, "elem": None, "multi": r.choice([True, False, None])},
        {"name": "n", "range": T + "Integer", "elem": None, "multi": None}]}]
    objs = [{"o": 1, "type": "a.Holder", "id": 10, "slots": {"arr": {"ref": 2}, "n": {"i": r.randint(0, 5)}}}]
    for i in range(depth):
        objs.append({"o": 2 + i, "type": scen.FS_ARRAY, "id": 11 + i,
                     "slots": {"elements": {"list": [{"ref": 3 + i}, {"ref": 3 + i}] + [None] * i}}})
    objs.append({"o": 2 + depth, "type": scen.FS_ARRAY, "id": 11 + depth,
                 "slots": {"elements": {"list": [{"ref": 1}] + [None] * (depth + 1)}}})
    cs = {"views": [{"name": "_InitialView", "text": [97, 98], "mime": None}], "objs": objs, "members": [[0, 1]]}
    return {"ts": tspec, "cas": cs, "kind": "chain", "var": None, "xt": None, "outside": True}


def bytearray_roundtrip(r, kind):
    """A separately listed ByteArray (held by a multipleReferencesAllowed feature or nested in an FSArray) and a round
    trip: the JSON reader used to return `bytes` elements, which the renderer could not handle (fix 83a4bf1)."""
    tspec = [{"name": "a.Holder", "super": scen.TOP, "feats": [
        {"name": "ba", "range": T + "ByteArray", "elem": None, "multi": True},
        {"name": "arr", "range": scen.FS_ARRAY, "elem": None, "multi": r.choice([True, False, None])},
        {"name": "n", "range": T + "Integer", "elem": None, "multi": None}]}]
    el = [{"i": r.randint(0, 255)} for _ in range(r.choice([0, 1, 3]))]
    slots = {"n": {"i": r.randint(0, 5)}}
    objs = [{"o": 1, "type": "a.Holder", "id": 10, "slots": slots},
            {"o": 2, "type": T + "ByteArray", "id": 11, "slots": {"elements": {"list": el}}}]
    if r.random() < 0.5:
        slots["ba"] = {"ref": 2}
    else:
        objs.append({"o": 3, "type": scen.FS_ARRAY, "id": 12, "slots": {"elements": {"list": [{"ref": 2}, {"ref": 1}]}}})
        slots["arr"] = {"ref": 3}
    cs = {"views": [{"name": "_InitialView", "text": [97, 98], "mime": None}], "objs": objs, "members": [[0, 1]]}
    return {"ts": tspec, "cas": cs, "kind": kind, "var": None, "xt": None}


def twin_ref_case(r):
    """Two types with one short name, one structure of each with the same offsets, view and index status: only the
    disambiguation counter (shared by all types) tells their anchors apart.  A reference (or an FSArray element) is switched
    from one to the other: the texts must differ."""
    tspec = [{"name": "a.b.Tw", "super": scen.ANNOTATION, "feats": []},
             {"name": "a.c.Tw", "super": scen.ANNOTATION, "feats": []},
             {"name": "a.Holder", "super": scen.TOP, "feats": [
                 {"name": "r", "range": scen.TOP, "elem": None, "multi": None},
                 {"name": "arr", "range": scen.FS_ARRAY, "elem": None, "multi": r.choice([None, True, False])}]}]
    b = r.randint(0, 3)
    e = r.randint(b, 3)
    indexed = r.random() < 0.7
    twin = {"begin": {"i": b}, "end": {"i": e}, "sofa": {"sofa": "_InitialView"}}
    objs = [{"o": 1, "type": "a.b.Tw", "id": 21, "slots": dict(twin)}, {"o": 2, "type": "a.c.Tw", "id": 22, "slots": dict(twin)},
            {"o": 3, "type": "a.Holder", "id": 23, "slots": {}},
            {"o": 4, "type": scen.FS_ARRAY, "id": 24, "slots": {"elements": {"list": [{"ref": 1}, {"ref": 2}]}}}]
    objs[2]["slots"]["arr"] = {"ref": 4}      # keeps both twins listed whatever r points to
    members = [[0, 3]] + ([[0, 1], [0, 2]] if indexed else [])
    cs = {"views": [{"name": "_InitialView", "text": [97, 98, 99], "mime": None}], "objs": objs, "members": members}
    var = clone(cs)
    if r.random() < 0.5:
        cs["objs"][2]["slots"]["r"] = {"ref": 1}
        var["objs"][2]["slots"]["r"] = {"ref": 2}
        kind = "ref"
    else:
        var["objs"][3]["slots"]["elements"]["list"] = [{"ref": 2}, {"ref": 2}] if r.random() < 0.5 else [{"ref": 2}, {"ref": 1}]
        kind = "elem"
    r.shuffle(cs["objs"])
    return {"ts": tspec, "cas": cs, "kind": kind, "var": var, "xt": None}


def open_finding_case(r, kind):
    """Directed pairs for the open findings: (nullstr) a String feature set to the literal '<NULL>' vs unset;
    (sofaless_view) a TOP-subtype structure indexed in view v2 vs _InitialView of a 2-view CAS.  Both are single-point
    content changes in the sense of the property, so the texts must differ."""
    tspec = [{"name": "a.T", "super": scen.TOP, "feats": [
        {"name": "s", "range": T + "String", "elem": None, "multi": None},
        {"name": "n", "range": T + "Integer", "elem": None, "multi": None}]},
        {"name": "a.Ann", "super": scen.ANNOTATION, "feats": [{"name": "t", "range": "a.T", "elem": None, "multi": None}]}]
    views = [{"name": "_InitialView", "text": [97, 98, 99], "mime": None}, {"name": "v2", "text": [100, 101], "mime": None}]
    objs = [{"o": 1, "type": "a.T", "id": 10, "slots": {"n": {"i": r.randint(0, 9)}}}]
    members = [[0, 1]]
    if r.random() < 0.5:
        objs.append({"o": 2, "type": "a.Ann", "id": 11, "slots": {"begin": {"i": 0}, "end": {"i": r.randint(0, 3)},
                                                                 "sofa": {"sofa": "_InitialView"}, "t": {"ref": 1}}})
        members.append([0, 2])
    cs = {"views": views, "objs": objs, "members": members}
    var = clone(cs)
    if kind == "nullstr":
        if r.random() < 0.5:
            cs["objs"][0]["slots"]["s"] = {"s": NULL_SENTINEL}
        else:
            var["objs"][0]["slots"]["s"] = {"s": NULL_SENTINEL}
    else:
        for m in var["members"]:
            if m[1] == 1:
                m[0] = 1
    return {"ts": tspec, "cas": cs, "kind": kind, "var": var, "xt": None}


def _mutated_features(sc, schema):
    """(declaring type, feature name) of the user features through which base and variant differ: the slot itself, or for
    a changed array the features that hold it."""
    d = _pair_diff(sc)
    if d is None:
        return []
    decl = {(t["name"], scen.pyname(f["name"])): f["name"] for t in sc["ts"] for f in t["feats"]}
    objs = sc["cas"]["objs"]
    by = {o["o"]: o for o in objs}
    out = []
    for l, k, _va, _vb in d[0]:
        holders = [(l, k)]
        if k == "elements":
            holders = [(o["o"], pn) for o in objs for pn, v in o["slots"].items()
                       if isinstance(v, dict) and v.get("ref") == l and pn not in ("elements", "head", "tail")]
        for hl, pn in holders:
            for a in schema.get(by[hl]["type"], {"anc": []})["anc"]:
                if (a, pn) in decl and (a, decl[(a, pn)]) not in out:
                    out.append((a, decl[(a, pn)]))
    return out


def stage_plan(pr, sc, schema):
    """Which user features are created only after a first rendering (one or two stages), or None when the type system has
    no candidate.  The features through which a 'must differ' pair differs are always among them.  begin/end stay (the
    stripped warm-up CAS must satisfy the premise like the base CAS does)."""
    cand = [(t["name"], f["name"]) for t in sc["ts"] for f in t["feats"] if f["name"] not in ("begin", "end")]
    if not cand:
        return None
    hot = [x for x in _mutated_features(sc, schema) if x in cand]
    p = 0.3 if hot else 0.5
    late = hot + [c for c in cand if c not in hot and pr.random() < p]
    if not late:
        late = [pr.choice(cand)]
    stages = [late]
    if len(late) > 1 and pr.random() < 0.4:
        pr.shuffle(late)
        cut = pr.randint(1, len(late) - 1)
        stages = [late[:cut], late[cut:]]
    pos = {c: i for i, c in enumerate(cand)}
    return [[list(x) for x in sorted(st, key=pos.get)] for st in stages]


def late_feature_case(r):
    """The demonstration shape of a type system that grows while it is in use: a CAS over {Base, Sub <: Base} is rendered,
    then a feature is created on Sub or on its supertype Base, then two CASes that differ only in the value of that feature
    (a primitive value, a reference target, an element of an array held by it) are compared: the texts must differ."""
    ann = r.random() < 0.7
    tspec = [{"name": "a.b.Base", "super": scen.ANNOTATION if ann else scen.TOP,
              "feats": [{"name": "label", "range": T + "String", "elem": None, "multi": None}]},
             {"name": "a.b.Sub", "super": "a.b.Base",
              "feats": [{"name": "k", "range": T + "Integer", "elem": None, "multi": None}]}]
    dom = r.choice([0, 1])
    fname = r.choice(["added", "a0", "z9"])          # sorts before, between and after the existing columns
    what = r.choice(["int", "str", "float", "ref", "arr", "arr"])
    f = {"name": fname, "elem": None, "multi": None}
    objs = [{"o": 1, "type": "a.b.Sub", "id": 10, "slots": {"label": {"s": "PER"}, "k": {"i": r.randint(0, 3)}}},
            {"o": 2, "type": "a.b.Base", "id": 11, "slots": {}}]
    if ann:
        e1 = r.randint(0, 3)
        objs[0]["slots"].update({"begin": {"i": 0}, "end": {"i": e1}, "sofa": {"sofa": "_InitialView"}})
        objs[1]["slots"].update({"begin": {"i": 1}, "end": {"i": r.randint(1, 3)}, "sofa": {"sofa": "_InitialView"}})
    site = 0 if dom == 1 else r.choice([0, 1])       # the structure whose new feature is set: a Sub, or a Base when it has it
    kind = "prim"
    if what == "int":
        f["range"] = T + r.choice(["Integer", "Long", "Short"])
        va, vb = {"i": 1}, r.choice([{"i": 2}, None])
    elif what == "str":
        f["range"] = T + "String"
        va, vb = {"s": "x"}, r.choice([{"s": "y"}, {"s": ""}, None])
    elif what == "float":
        f["range"] = T + "Double"
        va, vb = {"f": scen.fl(0.5)}, r.choice([{"f": scen.fl(1.5)}, None])
    elif what == "ref":
        f["range"] = r.choice([scen.TOP, "a.b.Base"])
        va, vb = {"ref": 1}, r.choice([{"ref": 2}, None])
        kind = "ref"
    else:
        f["range"], f["multi"] = T + "IntegerArray", r.choice([None, False])
        objs.append({"o": 3, "type": T + "IntegerArray", "id": 12, "slots": {"elements": {"list": [{"i": 1}, {"i": 2}]}}})
        va = vb = {"ref": 3}
        kind = "elem"
    tspec[dom]["feats"].append(f)
    cs = {"views": [{"name": "_InitialView", "text": [97, 98, 99], "mime": None}], "objs": objs, "members": [[0, 1], [0, 2]]}
    cs["objs"][site]["slots"][fname] = va
    var = clone(cs)
    if kind == "elem":
        var["objs"][2]["slots"]["elements"]["list"] = r.choice([[{"i": 1}, {"i": 3}], [{"i": 1}], [{"i": 1}, {"i": 2}, {"i": 0}]])
    elif vb is None:
        del var["objs"][site]["slots"][fname]
    else:
        var["objs"][site]["slots"][fname] = vb
    if r.random() < 0.5:
        cs, var = var, cs
    return {"ts": tspec, "cas": cs, "kind": kind, "var": var, "xt": None, "stages": [[[tspec[dom]["name"], fname]]]}


# --- add/remove history: sc["hist"] = {"cas": plan | None, "var": plan | None, "live": bool}.  A plan
# {"detours": [[label, [view index, ...]], ...]} makes the builder reach the state of the scenario the way user code does:
# the sofa of an indexed structure is left to Cas.add, and a structure with detours is added to and removed from the given
# views before its final add (an unindexed annotation with a sofa: add + remove in the view of its sofa at the end).
# "live": the variant is obtained from the base CAS object after its rendering by remove / add / setattr.

LIVE_KINDS = ["view", "index", "prim", "ref", "elem"]


def _sofa_name(o):
    s = o["slots"].get("sofa")
    return s["sofa"] if isinstance(s, dict) and "sofa" in s else None


def _member_views(cspec):
    mem = {}
    for vi, l in cspec["members"]:
        mem.setdefault(l, []).append(vi)
    return mem


def side_plan(pr, cspec, must=()):
    """Detours for about half of the indexed structures and of the unindexed ones that carry a sofa (those in `must` always)."""
    nv = len(cspec["views"])
    mem = _member_views(cspec)
    det = []
    for o in cspec["objs"]:
        l = o["o"]
        if (l in mem or _sofa_name(o) is not None) and (l in must or pr.random() < 0.5):
            det.append([l, [pr.randrange(nv) for _ in range(pr.choice([1, 1, 2]))]])
    return {"detours": det}


def hist_plan(pr, sc):
    kind = sc["kind"]
    if sc.get("var") is None:                       # xmi / json: the base CAS has a history, the variant is loaded
        return {"cas": side_plan(pr, sc["cas"]), "var": None, "live": False}
    if kind in EQUAL_KINDS:                         # one side only: same content, different history
        side = pr.choice(["cas", "var"])
        return {"cas": side_plan(pr, sc["cas"]) if side == "cas" else None,
                "var": side_plan(pr, sc["var"]) if side == "var" else None, "live": False}
    if kind in LIVE_KINDS and pr.random() < 0.6:
        return {"cas": side_plan(pr, sc["cas"]) if pr.random() < 0.5 else None, "var": None, "live": True}
    sides = pr.choice([["cas"], ["var"], ["cas", "var"]])
    return {"cas": side_plan(pr, sc["cas"]) if "cas" in sides else None,
            "var": side_plan(pr, sc["var"]) if "var" in sides else None, "live": False}


def _conv(v, objs, views, names):
    if v is None:
        return None
    for k in ("i", "b", "s"):
        if k in v:
            return v[k]
    if "f" in v:
        return scen.unfl(v["f"])
    if "ref" in v:
        return objs[v["ref"]]
    if "list" in v:
        return [_conv(e, objs, views, names) for e in v["list"]]
    if "sofa" in v:
        return views[names.index(v["sofa"])].get_sofa()
    raise ValueError(v)


def _build_cas(cassis, ts, cspec, plan):
    """scen.build_cas, or -- with a plan -- the same final state through a history of adds and removes (public API only)."""
    if not plan:
        return scen.build_cas(cassis, ts, cspec)
    by = {o["o"]: o for o in cspec["objs"]}
    names = [v["name"] for v in cspec["views"]]
    mem = _member_views(cspec)
    det = {l: vs for l, vs in plan.get("detours", []) if l in by}

    def left_to_add(l):
        s = _sofa_name(by[l])
        if s is None:
            return False
        if l in mem:
            return len(mem[l]) == 1 and names[mem[l][0]] == s
        return l in det

    pre = clone(cspec)
    pre["members"] = []
    for o in pre["objs"]:
        if left_to_add(o["o"]):
            del o["slots"]["sofa"]
    cas, views, objs = scen.build_cas(cassis, ts, pre)
    done = set()

    def detour(l):
        if l in done:
            return
        done.add(l)
        for vj in det.get(l, []):
            w = views[vj % len(views)]
            w.add(objs[l])
            w.remove(objs[l])

    for vi, l in cspec["members"]:
        detour(l)
        views[vi].add(objs[l], keep_id=True)
    for l in det:
        if l in mem:
            continue
        s = _sofa_name(by[l])
        if s is None and hasattr(objs[l], "sofa"):
            continue                                # an add would give it a sofa the scenario does not have
        detour(l)
        if s is not None:
            w = views[names.index(s)]
            w.add(objs[l])
            w.remove(objs[l])
    return cas, views, objs


def _apply_live(sc, views, objs):
    """Turn the live CAS built for sc["cas"] into sc["var"]: setattr for changed slots, remove / add for changed index
    membership (Cas.add gives the structure the sofa of the view), add + remove for a changed sofa of an unindexed one."""
    slots, _same = _pair_diff(sc)
    names = [v["name"] for v in sc["cas"]["views"]]
    ma, mb = [tuple(m) for m in sc["cas"]["members"]], [tuple(m) for m in sc["var"]["members"]]
    for l, k, _va, vb in slots:
        if k != "sofa":
            setattr(objs[l], k, _conv(vb, objs, views, names))
    for vi, l in [m for m in ma if m not in mb]:
        views[vi].remove(objs[l])
    added = [m for m in mb if m not in ma]
    for vi, l in added:
        views[vi].add(objs[l], keep_id=True)
    for l, k, _va, vb in slots:
        if k == "sofa" and not (vb is not None and (names.index(vb["sofa"]), l) in added):
            if vb is None:
                objs[l].sofa = None
            else:
                w = views[names.index(vb["sofa"])]
                w.add(objs[l])
                w.remove(objs[l])


def _live_ok(sc):
    h = sc.get("hist") or {}
    if not h.get("live") or sc.get("var") is None or sc["kind"] not in LIVE_KINDS:
        return False
    d = _pair_diff(sc)
    return d is not None and not any(k in ("begin", "end") for _l, k, _a, _b in d[0])


def moved_case(pr, k):
    """The everyday shape of the history stream: Tok annotations (and a Meta <: AnnotationBase) created WITHOUT a sofa and
    added to the views of a 2-3 view CAS.  Even k: one structure is moved to another view on the live CAS (remove + add):
    the texts must differ.  Odd k: the same content, but one structure reaches its view via a detour through another
    view: the texts must be equal."""
    tspec = [{"name": "a.b.Tok", "super": scen.ANNOTATION,
              "feats": [{"name": "pos", "range": T + "String", "elem": None, "multi": None}]},
             {"name": "a.b.Meta", "super": T + "AnnotationBase",
              "feats": [{"name": "n", "range": T + "Integer", "elem": None, "multi": None},
                        {"name": "tok", "range": "a.b.Tok", "elem": None, "multi": None}]}]
    nv = pr.choice([2, 2, 3])
    views = [{"name": "_InitialView" if i == 0 else "view%d" % i,
              "text": [ord(c) for c in ["Die Katze schlaeft", "The cat is asleep", "Le chat dort"][i]], "mime": None}
             for i in range(nv)]
    objs, members = [], []
    spans = pr.sample([(0, 3), (4, 9), (4, 7), (10, 12), (0, 0), (2, 9)], pr.choice([2, 3]))
    for j, (b, e) in enumerate(spans):
        vi = pr.randrange(nv)
        objs.append({"o": j + 1, "type": "a.b.Tok", "id": 20 + j,
                     "slots": {"begin": {"i": b}, "end": {"i": e}, "pos": {"s": pr.choice(["DET", "NN", "V"])},
                               "sofa": {"sofa": views[vi]["name"]}}})
        members.append([vi, j + 1])
    with_meta = pr.random() < 0.5
    if with_meta:
        vi = pr.randrange(nv)
        objs.append({"o": 9, "type": "a.b.Meta", "id": 40, "slots": {"n": {"i": pr.randint(0, 5)}, "tok": {"ref": 1},
                                                                      "sofa": {"sofa": views[vi]["name"]}}})
        members.append([vi, 9])
    pr.shuffle(members)
    cs = {"views": views, "objs": objs, "members": members}
    var = clone(cs)
    lab = 9 if with_meta and pr.random() < 0.3 else pr.choice([o["o"] for o in objs if o["type"] == "a.b.Tok"])
    cur = next(vi for vi, l in members if l == lab)
    other = pr.choice([i for i in range(nv) if i != cur])
    if k % 2 == 0:
        by_l(var["objs"], lab)["slots"]["sofa"] = {"sofa": views[other]["name"]}
        for m in var["members"]:
            if m[1] == lab:
                m[0] = other
        hist = {"cas": {"detours": []} if pr.random() < 0.7 else None, "var": None, "live": True}
        kind = "view"
    else:
        plan = {"detours": [[lab, [other] + ([pr.randrange(nv)] if pr.random() < 0.3 else [])]]}
        side = pr.choice(["cas", "var"])
        hist = {"cas": plan if side == "cas" else None, "var": plan if side == "var" else None, "live": False}
        kind = "perm"
    return {"ts": tspec, "cas": cs, "kind": kind, "var": var, "xt": None, "hist": hist}


def generate(rng, tier):
    import cassis
    import random
    n = {"quick": 340, "thorough": 2500, "search": 3000}[tier]
    kinds = EQUAL_KINDS + DIFF_KINDS
    made = 0
    attempts = 0
    for k in range(6 if tier != "search" else 0):
        yield two_cycle(rng, cassis)
    for k in range(6):
        yield bytearray_roundtrip(rng, ["json", "xmi"][k % 2])
    for k in range(6 if tier != "search" else 0):
        yield open_finding_case(rng, OPEN_KINDS[k % 2])
    for k in range(6):
        yield twin_ref_case(rng)
    # small directed pairs over a type system that grows while in use; drawn from a private generator derived from the
    # state of `rng` without consuming it (the streams around it stay the ones of the unstaged check)
    pr = random.Random("late:" + ",".join(map(str, rng.getstate()[1][:8])))
    for k in range(8):
        yield late_feature_case(pr)
    for k in range(2 if tier != "search" else 0):
        yield array_chain(pr)
    # small multi-view pairs whose structures get their sofa from Cas.add and are moved between views (private generator too)
    hr = random.Random("moved:" + ",".join(map(str, rng.getstate()[1][:8])))
    for k in range(8):
        yield moved_case(hr, k)
    while made < n and attempts < 60 * n:
        attempts += 1
        tspec = gen_ts(rng)
        _ts, schema = _schema(cassis, tspec)
        kind = kinds[made % len(kinds)] if rng.random() < 0.85 else rng.choice(kinds)
        cs, var = None, None
        for _ in range(8):      # CASes over this type system until one offers a site for the variant kind
            c = gen_cas(rng, cassis, tspec, schema, ids="none" if rng.random() < 0.1 else "all",
                        rt_safe=kind if kind in ("xmi", "json") else False)
            if not premise_ok(c, schema):
                continue
            if kind in DIFF_KINDS:
                for _try in range(4):
                    v = mutate_cas(rng, kind, c, schema)
                    if v is not None and premise_ok(v, schema):
                        cs, var = c, v
                        break
            elif kind in ("ids", "perm"):
                cs, var = c, equal_variant(rng, kind, c)
            else:
                cs = c
            if cs is not None:
                break
        if cs is None:
            continue
        types_present = sorted({o["type"] for o in cs["objs"]})
        xt = rng.choice(types_present) if rng.random() < 0.8 else "no.such.Type"
        made += 1
        sc = {"ts": tspec, "cas": cs, "kind": kind, "var": var, "xt": xt}
        if made % 3 == 0:
            # every third case (a stride coprime to the rotation of the 10 variant kinds): the type system is completed only
            # after a first rendering (decided by a private generator derived from the case, so that the stream of cases
            # itself is the one of the unstaged check)
            st = stage_plan(random.Random(f"stage:{made}:{kind}:{len(cs['objs'])}"), sc, schema)
            if st:
                sc["stages"] = st
        # about 40 % of the pairs: one or both CASes are built through an add/remove history, or the variant is made from
        # the live base CAS (again decided by a private generator derived from the case: the stream of cases is unchanged)
        hp = random.Random(f"hist:{made}:{kind}:{len(cs['objs'])}")
        if hp.random() < 0.4:
            sc["hist"] = hist_plan(hp, sc)
        yield sc


# ------------------------------------------------------------------------------------------------ implementation driver


def _rows(text):
    if text is None:
        return []
    return [list(r) for r in csv.reader(io.StringIO(text, newline=""), dialect=csv.unix_dialect)]


def _texts(cassis, cas, xt):
    from cassis.util import cas_to_comparable_text
    out = {}
    for name, kw in OPTS:
        if kw is None:
            if xt is None:
                continue
            kw = {"exclude_types": {xt}}
        try:
            out[name] = {"text": cas_to_comparable_text(cas, **kw)}
        except RecursionError:
            out[name] = {"error": "RecursionError"}
        except Exception as e:  # noqa
            out[name] = {"error": type(e).__name__ + ": " + str(e)[:200]}
    return out


def _members(views, objs):
    lab = {id(fs): l for l, fs in objs.items()}
    return [[lab.get(id(fs), 0) for fs in v.select_all()] for v in views]


def _staged_ts(cassis, sc, obs):
    """A fresh TypeSystem object that goes through the history of the case: the types and the stage-0 features, then per
    stage a rendering of the base CAS restricted to the features that exist so far (observed in obs["warm"]) followed by
    the creation of the features of the stage -- all through the public API, on one and the same object."""
    full = scen.schema_of(cassis, sc["ts"])
    rank = _stage_rank(sc)
    ts = scen.build_ts(cassis, _tspec_upto(sc, 0))
    obs["warm"] = []
    for k in range(len(sc["stages"])):
        casw, _vw, _ow = scen.build_cas(cassis, ts, _strip(sc["cas"], sc, full, k))
        obs["warm"].append(_texts(cassis, casw, sc.get("xt")))
        for t in sc["ts"]:
            for f in t["feats"]:
                if rank.get((t["name"], f["name"]), 0) == k + 1:
                    ts.create_feature(ts.get_type(t["name"]), f["name"], f["range"], elementType=f.get("elem"),
                                      multipleReferencesAllowed=f.get("multi"))
    return ts


def run_impl(cassis, sc):
    obs = {}
    ts = _staged_ts(cassis, sc, obs) if sc.get("stages") else _schema(cassis, sc["ts"])[0]
    hist = sc.get("hist") or {}
    cas, views, objs = _build_cas(cassis, ts, sc["cas"], hist.get("cas"))
    obs.update({"base": _texts(cassis, cas, sc.get("xt")), "base_members": _members(views, objs)})
    kind = sc["kind"]
    if sc.get("var") is not None:
        if _live_ok(sc):
            _apply_live(sc, views, objs)
            cas2, views2, objs2 = cas, views, objs
        else:
            cas2, views2, objs2 = _build_cas(cassis, ts, sc["var"], hist.get("var"))
        obs["var"] = _texts(cassis, cas2, sc.get("xt"))
        obs["var_members"] = _members(views2, objs2)
    elif kind in ("xmi", "json"):
        try:
            if kind == "xmi":
                cas2 = cassis.load_cas_from_xmi(cas.to_xmi(), typesystem=ts)
            else:
                cas2 = cassis.load_cas_from_json(cas.to_json(), typesystem=ts)
            obs["var"] = _texts(cassis, cas2, sc.get("xt"))
        except Exception as e:  # noqa
            obs["roundtrip_error"] = type(e).__name__ + ": " + str(e)[:200]
    for d0 in [obs.get("base", {}), obs.get("var", {})] + obs.get("warm", []):
        for name, d in d0.items():
            if "text" in d:
                d["rows"] = _rows(d["text"])
    return obs


# ------------------------------------------------------------------------------------------------ oracle


def _listing_violation(cassis, sc, cspec, rows, schema=None):
    """Structures of each annotation type come by ascending begin, then descending end; offset-less ones after them;
    and there are as many of them as the scenario has listed structures of the type."""
    if schema is None:
        schema = _case_schema(cassis, sc)
    by = {o["o"]: o for o in cspec["objs"]}
    expect = {}
    for l in reach(cspec, schema):
        expect.setdefault(by[l]["type"], []).append(okey(by[l])[1])
    i = 0
    seen_types = []
    while i < len(rows):
        if len(rows[i]) != 1 or rows[i][0] not in schema or i + 1 >= len(rows) or rows[i + 1][:1] != ["<ANCHOR>"]:
            return f"row {i} is not a type block start: {rows[i][:3]}"
        t = rows[i][0]
        seen_types.append(t)
        head = rows[i + 1]
        j = i + 2
        body = []
        while j < len(rows) and not (len(rows[j]) == 1 and rows[j][0] in schema and j + 1 < len(rows)
                                     and rows[j + 1][:1] == ["<ANCHOR>"]):
            body.append(rows[j])
            j += 1
        if len(body) != len(expect.get(t, [])):
            return f"type {t}: {len(body)} rows for {len(expect.get(t, []))} listed structures"
        if scen.ANNOTATION in schema[t]["anc"]:
            want = sorted([k for k in expect[t] if k is not None], key=lambda k: (k[0], -k[1])) + [k for k in expect[t] if k is None]
            got = []
            for rw in body:
                # an offset-less row has no covered-text cell: locate begin/end from the right end of the row
                cb = len(rw) - (len(head) - head.index("begin"))
                ce = len(rw) - (len(head) - head.index("end"))
                try:
                    got.append((int(rw[cb]), int(rw[ce])))
                except ValueError:
                    got.append(None)
            if got != want:
                return f"type {t}: listed offsets {got}, expected {want} (begin ascending, end descending)"
        i = j
    if seen_types != sorted(expect):
        return f"type blocks {seen_types}, expected {sorted(expect)}"
    return None


def oracle(cassis, sc, obs):
    kind = sc["kind"]
    for side in ("base", "var"):
        for name, d in obs.get(side, {}).items():
            if "error" in d:
                return f"raises: cas_to_comparable_text({side}, {name}) raised {d['error']}"
    for k, w in enumerate(obs.get("warm", [])):
        for name, d in w.items():
            if "error" in d:
                return f"raises: cas_to_comparable_text(rendering before stage {k + 1} of the type system, {name}) raised {d['error']}"
        early = _case_schema(cassis, sc, upto=k)
        msg = _listing_violation(cassis, sc, _strip(sc["cas"], sc, early, k), w["default"]["rows"], early)
        if msg:
            return f"listing(rendering before stage {k + 1} of the type system): " + msg
    if "roundtrip_error" in obs:
        return None       # C01/C02 territory: the variant could not be produced
    if sc.get("outside"):
        return None
    msg = _listing_violation(cassis, sc, sc["cas"], obs["base"]["default"]["rows"])
    if msg:
        return "listing: " + msg
    if sc.get("var") is not None:
        msg = _listing_violation(cassis, sc, sc["var"], obs["var"]["default"]["rows"])
        if msg:
            return "listing(variant): " + msg
    if "var" not in obs:
        return None
    for name in obs["base"]:
        a, b = obs["base"][name]["text"], obs["var"][name]["text"]
        how = ""
        if sc.get("hist"):
            h = sc["hist"]
            how = " [add/remove history: " + ("variant made from the live base CAS" if _live_ok(sc) else "built with detours: "
                                              + "/".join(x for x in ("cas", "var") if h.get(x))) + "]"
        if kind in EQUAL_KINDS and a != b:
            return f"equal:{kind}: texts differ ({name}) although the variant differs only by {kind}" + how
        if kind in DIFF_KINDS + OPEN_KINDS and name in ("default", "nocov") and a == b:
            return f"different:{kind}: texts are equal ({name}) although the variant differs in content ({kind})" + how
    return None


# ------------------------------------------------------------------------------------------------ rendering


def _strings(v, out):
    if v is None:
        return
    if "s" in v:
        out["s"].add(v["s"])
    if "f" in v:
        out["f"].add(v["f"])
    if "list" in v:
        for e in v["list"]:
            _strings(e, out)


def g_opts(name, xt):
    mark = name != "nomark"
    cov = name != "nocov"
    ex = glist([gstr(xt)]) if name == "excl" else "[]"
    return f"mkOpts {gbool(mark)} {gbool(cov)} {ex}"


def g_rows(rows):
    return glist([glist([gstr(c) for c in rw]) for rw in rows], ";\n    ")


def g_cas(cspec, members):
    views = []
    for i, v in enumerate(cspec["views"]):
        sofa = f"mkSofa {gz(i + 1)} {gz(i + 1)} {gstr(v['name'])} {scen.g_text(v.get('text'))} {gopt(v.get('mime'), gstr)} None None"
        views.append(f"mkView ({sofa}) {glist([gn(l) for l in members[i]])}")
    return f"mkCas {glist(views)} {scen.g_heap(cspec)} 100000%Z"


def render(sc, obs):
    import cassis
    schema = _case_schema(cassis, sc)
    runs = []
    strs = {"s": set(), "f": set()}
    sides = [("base", sc["cas"], "base_members")]
    if sc.get("var") is not None:
        sides.append(("var", sc["var"], "var_members"))
    names = set()
    for side, cspec, mk in sides:
        if side not in obs or any("rows" not in d for d in obs[side].values()):
            return None
        if any(0 in m for m in obs[mk]):
            return None
        for o in cspec["objs"]:
            for v in o["slots"].values():
                _strings(v, strs)
        names.update(scen.used_type_names(schema, cspec))
        # all option sets are run and checked by the oracle; the model is compared on the default ones and one more, in rotation
        other = sorted(n for n in obs[side] if n != "default")[len(cspec["objs"]) % max(1, len(obs[side]) - 1):][:1]
        keep = {n: obs[side][n] for n in ["default"] + (other if side == "base" else [])}
        ob = glist([f"({g_opts(n, sc.get('xt'))}, {g_rows(d['rows'])})" for n, d in keep.items()], ";\n   ")
        runs.append(f"mkRun ({g_cas(cspec, obs[mk])}) {ob}")
    floats = glist([f"({gstr(t)}, {gstr(repr(scen.unfl(t)))})" for t in sorted(strs["f"])])
    reprs = glist([f"({gstr(s)}, {gstr(repr(s))})" for s in sorted(strs["s"]) if repr(s) != "'" + s + "'"])
    return f"mkCase {scen.g_schema(schema, sorted(names))}\n {floats}\n {reprs}\n {glist(runs, ';' + chr(10) + ' ')}"


# ------------------------------------------------------------------------------------------------ bookkeeping


def nontrivial(sc):
    if sc["kind"] in DIFF_KINDS + OPEN_KINDS:
        return True
    keys = {}
    for o in sc["cas"]["objs"]:
        keys.setdefault(o["type"], set()).add(okey(o)[1] is None)
        el = o["slots"].get("elements")
        if o["type"] == scen.FS_ARRAY and el and any(e is not None for e in el["list"]):
            return True
    return any(len(v) == 2 for v in keys.values())


def shrink_candidates(sc):
    import cassis
    _ts, schema = _schema(cassis, sc["ts"])
    objs = sc["cas"]["objs"]
    if sc.get("var") is not None and sc["kind"] in DIFF_KINDS + OPEN_KINDS:
        return      # base and variant must stay in step: no structural shrinking of mutation pairs
    refd = set()

    def refs(v):
        if v is None:
            return
        if "ref" in v:
            refd.add(v["ref"])
        if "list" in v:
            for e in v["list"]:
                refs(e)

    for o in objs:
        for v in o["slots"].values():
            refs(v)
    for o in objs:
        if o["o"] in refd:
            continue
        c = clone(sc)
        c["cas"]["objs"] = [x for x in c["cas"]["objs"] if x["o"] != o["o"]]
        c["cas"]["members"] = [m for m in c["cas"]["members"] if m[1] != o["o"]]
        if not c["cas"]["members"] or not premise_ok(c["cas"], schema):
            continue
        if c.get("var") is not None:
            c["var"]["objs"] = [x for x in c["var"]["objs"] if x["o"] != o["o"]]
            c["var"]["members"] = [m for m in c["var"]["members"] if m[1] != o["o"]]
        yield c
    for o in objs:
        for k in list(o["slots"]):
            if k in ("begin", "end", "sofa", "elements", "head", "tail"):
                continue
            c = clone(sc)
            for side in ("cas", "var"):
                if c.get(side) is not None:
                    for x in c[side]["objs"]:
                        if x["o"] == o["o"]:
                            x["slots"].pop(k, None)
            if premise_ok(c["cas"], schema):
                yield c


def mutate(sc, rng):
    import cassis
    _ts, schema = _schema(cassis, sc["ts"])
    for kind in DIFF_KINDS + ["ids", "perm"]:
        c = clone(sc)
        c["kind"] = kind
        c.pop("outside", None)
        if not premise_ok(c["cas"], schema):
            return
        c["var"] = mutate_cas(rng, kind, c["cas"], schema) if kind in DIFF_KINDS else equal_variant(rng, kind, c["cas"])
        if c["var"] is not None and premise_ok(c["var"], schema):
            yield c


def _pair_diff(sc):
    """How base and variant differ: ([(label, slot, base value, variant value)], members equal?)."""
    a, b = sc["cas"], sc.get("var")
    if b is None:
        return None
    oa, ob = {o["o"]: o for o in a["objs"]}, {o["o"]: o for o in b["objs"]}
    if set(oa) != set(ob) or a["views"] != b["views"]:
        return None
    slots = []
    for l in sorted(oa):
        if oa[l]["type"] != ob[l]["type"]:
            return None
        for k in sorted(set(oa[l]["slots"]) | set(ob[l]["slots"])):
            va, vb = oa[l]["slots"].get(k), ob[l]["slots"].get(k)
            if va != vb:
                slots.append((l, k, va, vb))
    return slots, sorted(map(tuple, a["members"])) == sorted(map(tuple, b["members"]))


def signature(sc, msg):
    """Known-finding signatures are given out only for exactly the two open shapes: texts equal although (a) one String
    slot is the literal '<NULL>' on one side and unset on the other, nothing else differs; (b) one structure of a type
    without a sofa feature is indexed in another view, nothing else differs."""
    what = (msg or "").split(" ")[0].rstrip(":")
    if (msg or "").startswith("different:") and sc.get("var") is not None:
        d = _pair_diff(sc)
        if d is not None:
            slots, same_members = d
            if same_members and len(slots) == 1 and {json.dumps(slots[0][2]), json.dumps(slots[0][3])} == \
                    {"null", json.dumps({"s": NULL_SENTINEL})}:
                return {"what": "null_sentinel_string"}
            if not slots and not same_members:
                ma, mb = sorted(map(tuple, sc["cas"]["members"])), sorted(map(tuple, sc["var"]["members"]))
                only_a, only_b = [m for m in ma if m not in mb], [m for m in mb if m not in ma]
                if len(only_a) == 1 and len(only_b) == 1 and only_a[0][1] == only_b[0][1]:
                    import cassis
                    _ts, schema = _schema(cassis, sc["ts"])
                    t = next(o["type"] for o in sc["cas"]["objs"] if o["o"] == only_a[0][1])
                    if all(f[0] != "sofa" for f in schema[t]["feats"]):
                        return {"what": "view_of_sofaless_fs"}
    return {"what": what}


def distribution(scenarios, observations):
    kinds = {}
    for s in scenarios:
        kinds[s["kind"]] = kinds.get(s["kind"], 0) + 1
    sizes = [len(s["cas"]["objs"]) for s in scenarios]
    return {"cases": len(scenarios), "by_variant_kind": kinds, "max_objects": max(sizes or [0]),
            "mean_objects": round(sum(sizes) / max(1, len(sizes)), 1),
            "multi_view": sum(1 for s in scenarios if len(s["cas"]["views"]) > 1),
            "mixed_types": sum(1 for s in scenarios if any(
                len({okey(o)[1] is None for o in s["cas"]["objs"] if o["type"] == t}) == 2
                for t in {o["type"] for o in s["cas"]["objs"]})),
            "self_containing_fsarray": sum(1 for s in scenarios if any(
                o["type"] == scen.FS_ARRAY and o["slots"].get("elements") and
                any(e is not None and e.get("ref") == o["o"] for e in o["slots"]["elements"]["list"]) for o in s["cas"]["objs"])),
            "sofa_less_annotations": sum(1 for s in scenarios if any(
                "begin" in o["slots"] and "sofa" not in o["slots"] for o in s["cas"]["objs"])),
            "staged_type_system": sum(1 for s in scenarios if s.get("stages")),
            "add_remove_history": sum(1 for s in scenarios if s.get("hist")),
            "variant_from_live_cas": sum(1 for s in scenarios if _live_ok(s)),
            "history_detours": sum(len(vs) for s in scenarios for x in ("cas", "var")
                                   for _l, vs in ((s.get("hist") or {}).get(x) or {}).get("detours", [])),
            "staged_must_differ_pairs": sum(1 for s in scenarios if s.get("stages") and s["kind"] in DIFF_KINDS),
            "roundtrip_variant_unavailable": sum(1 for o in observations if o and "roundtrip_error" in o)}


MANIFEST = {
    "level_text": "Machine-checked proof (Coq 8.16) about a hand-written executable model of cas_to_comparable_text at row level "
                  "(grouping, _compare_fs, sort, anchors with disambiguation counter, index mark, view suffix, cell rendering): under "
                  "unique_offsets_per_type the comparison is a strict total order that never consults the hash, the rows do not depend on "
                  "the order in which structures are found or on xmi:ids, annotation types are listed by begin ascending / end descending, "
                  "rendering never fails on well-formed CASes, and six kinds of single-point content changes change the rows; the model is "
                  "tied to /repo on every run by evaluating it inside Coq on the CASes the implementation rendered.",
    "level_note": "Trusted: Coq kernel + vm_compute; models Comparable.v/Reach.v/Heap.v/Schema.v; csv quoting (assumed injective on rows); "
                  "list.sort, hash, repr(float), repr(str) are explicit parameters with stated contracts; harness builders. Sensitivity is "
                  "proved for single-point changes only (C20_render_sensitive_*_partial); the general 'different whenever content differs' "
                  "is not proved. Round-trip invariance is checked by the oracle only (needs C01/C02).",
    "technique": "Coq proof over an executable Gallina model + in-Coq behavioural correspondence on (CAS, variant) pairs + metamorphic oracle",
    "design_ref": "DESIGN.md section 5, C20",
}
