"""C11 — effective features = own + all ancestors', whatever the order of creation."""
import json
import random

from harness import bridge, scen
from harness.gallina import gbool, glist, gn, gstr
from harness.props import tscommon as T
from harness.props.tscommon import Tree, gbits, gobool, gop, gostr, gout, gstrs

ID = "C11"
COQ_TARGETS = ["TS.vo", "TSProofs.vo", "CorrC10.vo", "Schema.vo", "Bridge.vo", "Index.vo", "IndexProofs.vo", "BridgeProofs.vo",
               "CorrC11.vo", "Props/C11.vo"]
PROPS_FILE = "Props/C11.v"
CORR_IMPORTS = "Base TS CorrC10 Schema Bridge CorrC11"
OPEN_SCOPES = ["string_scope", "list_scope"]
ENTRY = "cassis.typesystem.Type._add_feature/all_features/get_feature/__call__/__attrs_post_init__, TypeSystem.create_type/create_feature"
CASES_PER_SHARD = 160
SHARD_BYTES = 150_000
SHARD_JOBS = 14
RULE = (
    "histories of create_type / create_feature / instantiate on a fresh TypeSystem(). Exhaustive: every history of the 14-operation "
    "alphabet {create a.A<Annotation, a.B<a.A, a.C<a.B, a.C<a.A; f:Integer or f:String on A, B, C; g:Integer on A; instantiate A, B, C} in "
    "which every operation refers to existing types, up to length 4 plus a seeded sample of length 5 (quick) / all of length 5 plus a "
    "sample of length 6 (thorough). Malformed stream: the same alphabet without the existence restriction plus reserved names "
    "(self/type), differing description / element type / multipleReferencesAllowed, unknown and short type names. Random: trees of "
    "depth <= 8, fan-out <= 3 with features added before and after subtypes and instances exist. Observed per type: effective feature "
    "table, get_feature per candidate name, constructor acceptance per keyword (and read/write on the new instance), outcome kinds. "
    "Oracle-only streams: the final type system after load_typesystem(ts.to_xml()), and merge_typesystems of 2-3 random type systems "
    "over a shared pool, must satisfy the same statement (all_features = own + ancestors' features, one definition per name, constructor). "
    "Merging as a history of definitions: 2-4 type systems that each declare an upward-closed part of one tree (chains up to depth 5) "
    "with features f, g, h of four ranges on any level - the same name on an ancestor in one argument and on a descendant (new to "
    "the merge or not) in another, with the same or another range, in either argument order, arguments that are TypeSystem() itself, "
    "dense and sparse (one or two definitions per argument) - merged by merge_typesystems or, every fourth two-argument case, by "
    "load_cas_from_json(<CAS over the second>, typesystem=<the first>). Oracle (for these and for the 2-3 random type systems above): "
    "ValueError exactly when two declarations of one name on one inheritance chain of the merged hierarchy differ in range; otherwise "
    "the merged types list / find / construct with exactly their own + their ancestors' declarations. When all arguments declare every "
    "shared type with the same supertype the merge is rendered to Coq as the history of its definitions (arguments in order, a type "
    "as soon as its supertype exists) with the single observed outcome (c_merge): both model forms must refuse somewhere in the "
    "history exactly when the implementation raised, and answer the queries like the merged type system. "
    "Bridge (coq/Bridge.v): for every history the flattened view `flatten` of the model's final state is compared in Coq, on the "
    "observed types, (a) with the supertype chains and the ORDERED all_features read off the implementation and (b) with what "
    "harness/scen.schema_of computes for the declarations of the history (the schema all heap-level checks feed to their models): "
    "exactly when the history has the shape scen.build_ts executes (all types first, then the features type by type), as a set of "
    "features otherwise; histories that declare a feature on a built-in type or define a name twice on one chain are outside "
    "schema_of's domain and only (a) is compared. Two further streams have exactly scen's shape: scen.gen_tspec itself (6-8 types, "
    "reserved and awkward names, element types, a String subtype) and deep trees (chains up to depth 9, features on every level). "
    "Features on the built-in ancestors (`on any type`): exhaustive over the 13-operation alphabet {create r.A<uima.cas.TOP, r.B<r.A, "
    "r.C<Annotation; f:Integer / f:String on uima.cas.TOP; f:Integer on r.A, f:String on r.B, g:Integer on AnnotationBase, g:String and "
    "f:Integer on r.C; instantiate r.A, r.B, r.C} up to length 3 plus samples of length 4 and 5 (quick) / up to 4 plus a sample of 5 "
    "(thorough), and random histories (2-7 types below TOP / AnnotationBase / Annotation / DocumentAnnotation and below each other, "
    "features on those built-in types and on the user types before and after the types below them exist, now and then a name a "
    "built-in descendant defines already); observed there: the user types, uima.cas.TOP, Annotation, a built-in sibling. "
    "Both spellings of the operation: TypeSystem.add_feature (deprecated alias of create_feature, same arguments) is rendered as "
    "create_feature; exhaustive over the 12-operation alphabet {create a.A, a.B<a.A; f:FSArray<Annotation> on a.A and a.B by either "
    "spelling, f:FSArray without element type, g:String with a description by add_feature on a.A and by create_feature on a.B, "
    "g:Integer, h with element type + description + multipleReferencesAllowed; instantiate a.B} up to length 3 (quick, plus samples "
    "of length 4 and 5) / 5 (thorough); in the random histories above up to 70 % of the features come through add_feature. "
    "Non-trivial: a feature is added to a type that already has a (user-defined) subtype or an instance."
)
TRUSTED = [
    "Coq 8.16.1 kernel and vm_compute; theorems in Props/C11.v are closed under the global context",
    "hand-written model coq/TS.v of cassis/typesystem.py: _features/_inherited_features as insertion-ordered tables, "
    "all_features = unique_everseen with Feature.__eq__ (which ignores multipleReferencesAllowed), the lazily built instance class as "
    "the list of field names captured at the last __attrs_post_init__ plus the cached class",
    "two-form model of Type._add_feature: theorems are about the functional form (add_feature); the mechanism form (add_rec: "
    "recursion through _children) is proved equal to it under WF (C11_mechanism_agrees) and is evaluated in every correspondence case",
    "the model's initial state equals the observed TypeSystem() (extra obligation, decided by vm_compute on every run)",
    "correspondence harness harness/props/C11.py + tscommon.py; oracle = independent bookkeeping (declared supertypes + own definitions)",
    "TypeSystem.add_feature is read as the operation create_feature (model: OCreateFeature with the same arguments; oracle: the same "
    "bookkeeping): the API documents it as a deprecated alias",
    "reading a merge as a history (harness/props/C11.py _merge_plan/_merge_linearise): the arguments' declarations, taken from the "
    "oracle's bookkeeping of each argument, in argument order, a type as soon as its supertype exists",
    "harness/bridge.py: reading the declarations of a history (history_to_tspec) and the flattened view off the implementation's objects "
    "(impl_schema); harness/scen.schema_of is not trusted here: it is one of the three things compared",
]
ASSUMPTIONS = [
    "feature names are not the structural attribute names type / xmiID (self and type are renamed by the code to self_ / type_)",
    "features given to built-in types are named f / g / h / self or, to meet an existing definition, begin / language; not sofa, "
    "elements, head, tail (DESIGN section 6)",
    "`identical` means equal range, element type (None = TOP), description and multipleReferencesAllowed; `conflicting` means a "
    "different range; for definitions in between the property is silent: the oracle accepts either a refusal or a no-op, the model "
    "follows Feature.__eq__ (description and element type compared, multipleReferencesAllowed not)",
    "type systems built by create_type / create_feature from TypeSystem(); the XML and JSON constructors are C12 and C02; a merge is "
    "read as the history of its arguments' definitions when the arguments agree on every supertype; which supertype wins when they "
    "do not (re-parenting, its order dependence) is C13: there the oracle takes the chains from the merged result and accepts a refusal",
]

INT, STR = "uima.cas.Integer", "uima.cas.String"


def ct(n, s):
    return {"op": "ct", "n": n, "s": s, "d": None}


def cf(dom, n, r, e=None, m=None, d=None):
    return {"op": "cf", "dom": dom, "n": n, "r": r, "e": e, "m": m, "d": d}


def inst(t):
    return {"op": "inst", "t": t}


def af(dom, n, r, e=None, m=None, d=None):
    """create_feature spelled through its deprecated alias TypeSystem.add_feature (same operation, same arguments)"""
    return dict(cf(dom, n, r, e, m, d), via="add_feature")


CTS = [ct("a.A", "uima.tcas.Annotation"), ct("a.B", "a.A"), ct("a.C", "a.B"), ct("a.C", "a.A")]
POOL = ["a.A", "a.B", "a.C"]
ALPHABET = CTS + [cf(x, "f", r) for x in POOL for r in (INT, STR)] + [cf("a.A", "g", INT)] + [inst(x) for x in POOL]
ODD = [cf("a.A", "self", INT), cf("a.B", "type", STR), cf("a.B", "f", INT, m=True), cf("a.A", "f", INT, d="doc"),
       cf("a.C", "f", "uima.cas.FSArray", e="uima.tcas.Annotation"), cf("a.A", "f", "uima.cas.FSArray", e="a.A"),
       cf("a.A", "f", "uima.cas.FSArray"), cf("a.A", "f", "uima.cas.FSArray", e="uima.cas.TOP"),
       cf("B", "g", "Integer"), cf("a.A", "g", "no.Such"), cf("no.Such", "f", INT), cf("a.B", "begin", STR), cf("a.B", "begin", INT),
       cf("uima.tcas.Annotation", "f", STR), cf("uima.tcas.Annotation", "f", INT), cf("a.C", "sofa", "uima.cas.Sofa"),
       ct("a.A", "a.B"), ct("b.B", "a.A"), inst("B"), inst("no.Such"), cf("a.A", "g", INT, m=False)]

# features on the built-in ancestors every user type has (the root uima.cas.TOP, AnnotationBase, Annotation), before and after
# types are created directly below them and further down
TOPT, ANB, ANN = "uima.cas.TOP", "uima.cas.AnnotationBase", "uima.tcas.Annotation"
ROOT = [ct("r.A", TOPT), ct("r.B", "r.A"), ct("r.C", ANN), cf(TOPT, "f", INT), cf(TOPT, "f", STR), cf("r.A", "f", INT),
        cf("r.B", "f", STR), cf(ANB, "g", INT), cf("r.C", "g", STR), cf("r.C", "f", INT), inst("r.A"), inst("r.B"), inst("r.C")]
ROOT_TYPES = ["r.A", "r.B", "r.C", TOPT, ANN, "uima.cas.Integer"]
# the two spellings of the operation (create_feature / add_feature) with every optional argument in use
FSA = "uima.cas.FSArray"
ALIAS = [ct("a.A", ANN), ct("a.B", "a.A"), af("a.A", "f", FSA, e=ANN), cf("a.A", "f", FSA, e=ANN), cf("a.B", "f", FSA, e=ANN),
         af("a.B", "f", FSA, e=ANN), af("a.B", "f", FSA), af("a.A", "g", STR, d="doc"), cf("a.B", "g", STR, d="doc"), af("a.B", "g", INT),
         af("a.A", "h", FSA, e="a.A", m=True, d="all"), inst("a.B")]


def _mk(ops, types=None, fn=None, kw=None):
    users = []
    names = set()
    for op in ops:
        if op["op"] == "ct" and op["n"] not in users:
            users.append(op["n"])
        if op["op"] == "cf":
            names.add(op["n"] + "_" if op["n"] in ("self", "type") else op["n"])
    types = types if types is not None else (users[:8] + ["uima.tcas.Annotation"])
    fn = fn if fn is not None else sorted(names | {"f", "nope", "begin"})[:7]
    kw = kw if kw is not None else sorted(names | {"f", "nope", "begin", "self"})[:8]
    return {"ops": ops, "types": types, "fn": fn, "kw": kw}


def _valid_histories(L, alphabet=None):
    """every history over the alphabet in which each operation refers to existing types (prefix-closed enumeration)"""
    out = []
    alphabet = ALPHABET if alphabet is None else alphabet

    def rec(ops, exist):
        out.append(list(ops))
        if len(ops) == L:
            return
        for o in alphabet:
            if o["op"] == "ct":
                if o["n"] in exist or (o["s"] not in exist and not o["s"].startswith("uima")):
                    continue
                rec(ops + [o], exist | {o["n"]})
            else:
                x = o["dom"] if o["op"] == "cf" else o["t"]
                if x in exist or x.startswith("uima"):
                    rec(ops + [o], exist)
    rec([], frozenset())
    return out


def _random_history(rng, big):
    n_types = rng.randint(4, 18 if big else 9)
    users, depth, kids, ops = [], {}, {}, []
    ranges = [INT, STR, "uima.cas.FSArray", "uima.cas.Float", "uima.tcas.Annotation"]
    fnames = ["f", "g", "h", "k"]

    def feature_op():
        dom = rng.choice(users) if rng.random() < 0.9 else rng.choice(["uima.tcas.Annotation", "uima.tcas.DocumentAnnotation"])
        r = rng.choice(ranges + users[:2])
        e = rng.choice([None, None, "uima.tcas.Annotation"] + users[:1]) if r == "uima.cas.FSArray" else None
        return cf(dom, rng.choice(fnames), r, e, rng.choice([None, None, None, True, False]), rng.choice([None, None, None, None, "d"]))

    for i in range(n_types):
        name = rng.choice(["a", "b"]) + ".T" + str(i)
        cands = [u for u in users if depth[u] < 8 and kids.get(u, 0) < 3]
        if cands and rng.random() < 0.85:
            cands.sort(key=lambda u: -depth[u])
            par = rng.choice(cands[:2]) if rng.random() < 0.6 else rng.choice(cands)
            ops.append(ct(name, par))
            depth[name] = depth[par] + 1
            kids[par] = kids.get(par, 0) + 1
        else:
            ops.append(ct(name, rng.choice(["uima.tcas.Annotation", "uima.cas.TOP", "uima.tcas.DocumentAnnotation"])))
            depth[name] = 1
        users.append(name)
        for _ in range(rng.choice([0, 0, 1, 1, 2])):
            ops.append(feature_op())
        if rng.random() < 0.3:
            ops.append(inst(rng.choice(users)))
    for _ in range(rng.randint(1, 5)):      # features arriving after the tree exists
        ops.append(feature_op())
        if rng.random() < 0.3:
            ops.append(inst(rng.choice(users)))
    deep = sorted(users, key=lambda u: -depth[u])
    types = []
    for n in deep[:4] + rng.sample(users, min(3, len(users))) + ["uima.tcas.Annotation"]:
        if n not in types:
            types.append(n)
    return _mk(ops, types=types, fn=fnames + ["begin", "nope"], kw=fnames + ["begin", "nope", "sofa"])


def generate(rng, tier):
    if tier != "search":
        full_len = 4 if tier == "quick" else 5
        hs = _valid_histories(full_len + 1)
        longer = [h for h in hs if len(h) == full_len + 1]
        for h in hs:
            if len(h) <= full_len:
                yield _mk([dict(o) for o in h])
        for h in rng.sample(longer, min(len(longer), {"quick": 700, "thorough": 6000}[tier])):
            yield _mk([dict(o) for o in h])
    n_odd = {"quick": 300, "thorough": 4000, "search": 2000}[tier]
    for _ in range(n_odd):
        L = rng.randint(2, 7)
        ops = [dict(rng.choice(ALPHABET + ODD)) if rng.random() < 0.75 else dict(rng.choice(CTS[:3])) for _ in range(L)]
        yield _mk(ops)
    n_r = {"quick": 220, "thorough": 3000, "search": 2000}[tier]
    for k in range(n_r):
        yield _random_history(rng, big=(k % 3 == 0))
    # histories of exactly the shape scen.build_ts executes (all types, then all features type by type): what every
    # heap-level check feeds to scen.schema_of.  (a) scen.gen_tspec itself, (b) deep trees with features on every level.
    n_s = {"quick": 90, "thorough": 1200, "search": 600}[tier]
    for k in range(n_s):
        yield _scen_history(rng, k)
    # type systems obtained by merging (oracle only: merging itself is C13's subject; here the merged result has to satisfy
    # the statement of C11 like any other type system)
    n_m = {"quick": 200, "thorough": 3000, "search": 2000}[tier]
    for k in range(n_m):
        yield _merge_scenario(rng)
    # merging as a history of definitions: every argument declares a part of ONE hierarchy, so the merge is the sequence of
    # the arguments' create_type / create_feature operations in the order of the arguments (own random stream: the streams
    # above stay what they were)
    sub = random.Random(rng.getrandbits(32) ^ 0xC11E3)
    n_h = {"quick": 320, "thorough": 3000, "search": 3000}[tier]
    for k in range(n_h):
        yield _merge_history_scenario(sub, k)
    # "on any type": features on the built-in ancestors (the root uima.cas.TOP, AnnotationBase, Annotation) before and after types
    # are created directly below them; "create_feature": both spellings of the operation (the deprecated alias add_feature) with
    # element type / description / multipleReferencesAllowed given.  Own random stream again.
    sub = random.Random(rng.getrandbits(32) ^ 0xC11F4)
    if tier != "search":
        for alphabet, types, full_len, n4, n5 in ((ROOT, ROOT_TYPES, {"quick": 3, "thorough": 4}[tier], 120, 60),
                                                  (ALIAS, None, {"quick": 3, "thorough": 5}[tier], 150, 60)):
            hs = _valid_histories(5, alphabet)
            for h in hs:
                if len(h) <= full_len:
                    yield _mk([dict(o) for o in h], types=types)
            for L, n in ((4, n4), (5, n5)):
                longer = [h for h in hs if len(h) == L and L > full_len]
                for h in sub.sample(longer, min(len(longer), n if tier == "quick" else 1500)):
                    yield _mk([dict(o) for o in h], types=types)
    n_b = {"quick": 140, "thorough": 1500, "search": 3000}[tier]
    for k in range(n_b):
        yield _root_history(sub, k)


def _root_history(rng, k):
    """random histories in which the built-in ancestors (uima.cas.TOP, AnnotationBase, Annotation, DocumentAnnotation) receive
    features too, before and after types exist directly below them and further down; in two thirds of the histories some of the
    features are added through the deprecated alias add_feature; element types, descriptions and multipleReferencesAllowed in
    all states; now and then a name some built-in descendant defines already (begin, language)"""
    builtins = [TOPT, TOPT, ANB, ANN, "uima.tcas.DocumentAnnotation"]
    fnames = ["f", "g", "h"]
    ranges = [INT, STR, FSA, "uima.cas.Float", ANN]
    p_alias = rng.choice([0.0, 0.35, 0.7])
    p_root = rng.choice([0.25, 0.5])
    users, ops = [], []

    def feature_op():
        dom = rng.choice(builtins) if not users or rng.random() < p_root else rng.choice(users)
        name = rng.choice(fnames) if rng.random() < 0.92 else rng.choice(["begin", "language", "self"])
        r = rng.choice(ranges + users[:1])
        e = rng.choice([None, ANN, TOPT] + users[:1]) if r == FSA else None
        mk = af if rng.random() < p_alias else cf
        return mk(dom, name, r, e, rng.choice([None, None, True, False]), rng.choice([None, None, "d"]))

    def inst_op():
        return inst(rng.choice(users) if rng.random() < 0.85 else rng.choice([TOPT, ANN]))

    if rng.random() < 0.5:                      # the root has the feature before any user type exists
        ops.append(feature_op())
    for i in range(rng.randint(2, 7)):
        name = "r.T" + str(i)
        par = rng.choice(users) if users and rng.random() < 0.55 else rng.choice(builtins)
        ops.append(ct(name, par))
        users.append(name)
        for _ in range(rng.choice([0, 1, 1, 2])):
            ops.append(feature_op())
        if rng.random() < 0.3:
            ops.append(inst_op())
    for _ in range(rng.randint(0, 3)):
        ops.append(feature_op())
        if rng.random() < 0.3:
            ops.append(inst_op())
    sc = _mk(ops, types=sorted(rng.sample(users, min(4, len(users)))) + [TOPT, ANN], fn=fnames + ["begin", "self_", "nope"], kw=fnames + ["begin", "language", "self_", "nope"])
    sc["stream"] = "root"
    return sc


def _deep_tspec(rng):
    """a tspec in scen's domain: one or two chains of depth up to 9 with side branches, a feature name at most once per
    chain, reserved names, element types and multipleReferencesAllowed in all three states"""
    n = rng.randint(5, 12)
    spec, depth = [], {}
    for i in range(n):
        name = rng.choice(["d", "e.f"]) + ".N" + str(i)
        if spec and rng.random() < 0.8:
            deep = sorted(spec, key=lambda t: -depth[t["name"]])
            par = (deep[0] if rng.random() < 0.7 else rng.choice(spec))["name"]
            if depth[par] >= 9:
                par = spec[0]["name"]
        else:
            par = rng.choice([scen.ANNOTATION, scen.TOP, scen.ANNOTATION_BASE, "uima.tcas.DocumentAnnotation"])
        depth[name] = depth.get(par, 0) + 1
        spec.append({"name": name, "super": par, "feats": []})
    names = ["self", "type", "id", "k"] + ["f%d" % j for j in range(14)]
    rng.shuffle(names)
    users = [t["name"] for t in spec]
    for t in spec:
        for _ in range(rng.choice([0, 1, 1, 2, 3])):
            if not names:
                break
            fn = names.pop()           # globally unique: one definition per chain
            r = rng.choice([INT, STR, "uima.cas.FSArray", "uima.cas.FSList", "uima.cas.StringArray", scen.ANNOTATION, scen.TOP] + users[:3])
            e = rng.choice([None, scen.ANNOTATION, scen.TOP] + users[:2]) if r == "uima.cas.FSArray" else None
            t["feats"].append({"name": fn, "range": r, "elem": e, "multi": rng.choice([None, True, False])})
    return spec


def _scen_history(rng, k):
    tspec = scen.gen_tspec(rng, n_types=rng.randint(2, 8), max_feats=4) if k % 2 == 0 else _deep_tspec(rng)
    ops = bridge.tspec_to_ops(tspec)
    if k % 5 == 4:                      # instances and refused / no-op operations in between leave the shape intact
        for _ in range(3):
            t = rng.choice(tspec)
            extra = rng.choice([inst(t["name"]), ct(t["name"], scen.TOP), cf(t["name"], "begin", STR) if t["super"] == scen.ANNOTATION else inst(t["name"])])
            ops.insert(rng.randint(len(tspec), len(ops)), extra)
    users = [t["name"] for t in tspec]
    types = users[-9:] + [scen.ANNOTATION]
    fnames = []
    for t in tspec:
        for f in t["feats"]:
            if scen.pyname(f["name"]) not in fnames:
                fnames.append(scen.pyname(f["name"]))
    rng.shuffle(fnames)
    sc = _mk(ops, types=types, fn=fnames[:5] + ["begin", "nope"], kw=fnames[:5] + ["begin", "nope", "self"])
    sc["stream"] = "scen"
    return sc


def _merge_scenario(rng):
    order = ["m.A", "m.B", "m.C", "m.D", "m.E"]
    parts = []
    for _ in range(rng.choice([2, 2, 3])):
        ops, have = [], []
        for n in order:
            if rng.random() < 0.75:
                par = rng.choice(have) if have and rng.random() < 0.8 else "uima.tcas.Annotation"
                if have and rng.random() < 0.5:
                    par = have[-1]
                ops.append(ct(n, par))
                have.append(n)
                if rng.random() < 0.45:
                    ops.append(cf(n, rng.choice(["f", "g"]), rng.choice([INT, INT, STR])))
        parts.append(ops)
    return {"ops": [], "types": [], "fn": [], "kw": [], "merge": parts}


MRANGES = [INT, STR, "uima.cas.Float", "uima.tcas.Annotation"]


def _merge_history_scenario(rng, k):
    """2-4 type systems that each declare an upward-closed part of one tree (chains up to depth 5 under Annotation / TOP) with
    features f, g, h on any level: the same name on an ancestor in one argument and on a (possibly new) descendant in another,
    with the same or with another range, the ancestor's argument first or second; an argument may be TypeSystem() itself.
    Every fourth two-argument case goes through load_cas_from_json(<CAS of the second>, typesystem=<the first>)."""
    n = rng.randint(2, 6)
    names, sup, depth = [], {}, {}
    for i in range(n):
        name = "h." + "PQRSTU"[i]
        if names and rng.random() < 0.85:
            par = names[-1] if rng.random() < 0.65 else rng.choice(names)
            if depth[par] >= 5:
                par = names[0]
        else:
            par = rng.choice(["uima.tcas.Annotation", "uima.tcas.Annotation", "uima.cas.TOP"])
        names.append(name)
        sup[name] = par
        depth[name] = depth.get(par, 0) + 1
    fnames = ["f", "g", "h"]
    used = fnames[:rng.choice([1, 2, 2, 3])]              # few names: the same name meets itself along the chains
    main = {x: rng.choice(MRANGES) for x in fnames}
    p_other = rng.choice([0.0, 0.0, 0.1, 0.25])
    p_part = rng.choice([0.0, 0.3, 0.6, 0.9])
    sparse = rng.random() < 0.5
    parts = []
    for _ in range(rng.choice([2, 2, 2, 3, 3, 4])):
        if rng.random() < 0.08:
            parts.append([])
            continue
        keep = rng.choice([0.4, 0.7, 0.9])                 # low: short prefixes, the deeper types are new to a later argument
        mine = dict(main)                                  # an argument that is consistent in itself but not with the others
        if rng.random() < p_part:
            fn = rng.choice(used)
            mine[fn] = rng.choice([r for r in MRANGES if r != main[fn]])
        have = []
        for x in names:                                    # upward closed: a type only with its declared supertype
            if (sup[x] not in names or sup[x] in have) and rng.random() < keep:
                have.append(x)
        feats = []
        if sparse:                                         # one or two definitions per argument: a conflict, if any, is the
            carriers = [rng.choice(have) for _ in range(rng.choice([1, 1, 2]))] if have else []      # only one of the merge
        else:
            carriers = [x for x in have for _ in range(rng.choice([0, 1, 1, 2]))]
        for x in carriers:
            fn = rng.choice(used)
            feats.append(cf(x, fn, rng.choice(MRANGES) if rng.random() < p_other else mine[fn]))
        ops = []
        if rng.random() < 0.5:                             # features as the types are created
            for x in have:
                ops.append(ct(x, sup[x]))
                ops += [f for f in feats if f["dom"] == x]
        else:                                              # all types first, features in any order (descendant before ancestor)
            ops = [ct(x, sup[x]) for x in have]
            rng.shuffle(feats)
            ops += feats
        parts.append(ops)
    via = "json" if len(parts) == 2 and k % 4 == 3 else "merge"
    return {"ops": [], "types": names + ["uima.tcas.Annotation"], "fn": fnames + ["begin", "nope"],
            "kw": fnames + ["begin", "nope", "sofa"], "merge": parts, "via": via}


def _merge_plan(parts, part_outs):
    """The oracle's reading of a merge (nothing of cassis, nothing of the Coq model): per argument the declared supertypes and
    own definitions (bookkeeping of tscommon.Tree driven by the observed outcomes of the argument's own operations).
    Returns (problem, decl): decl = per argument [(type, supertype, {feature: definition})] in registration order."""
    decl = []
    for k, (ops, outs) in enumerate(zip(parts, part_outs)):
        tree = Tree()
        for i, (op, out) in enumerate(zip(ops, outs)):
            allowed = tree.apply(op, out)
            if out not in allowed:
                return f"outcome: argument {k}, operation {i} {json.dumps(op)} gave {out}, the property allows {sorted(allowed)}", None
        decl.append([(n, tree.sup[n], dict(tree.own[n])) for n in tree.sup if n not in T.BUILTIN_NAMES])
    return None, decl


def _merge_linearise(decl):
    """The definitions a merge performs, as one history on a fresh TypeSystem(): the arguments' types in the order of the
    arguments, a type as soon as its supertype is there (create_type the first time a name comes, then its own features).
    Only used when every name is declared with one supertype throughout."""
    pending = [d for part in decl for d in part]
    done, ops = set(), []
    while pending:
        rest = []
        for (n, s, own) in pending:
            if s not in T.BUILTIN_NAMES and s not in done:
                rest.append((n, s, own))
                continue
            if n not in done:
                ops.append(ct(n, s))
                done.add(n)
            for fn, (r, e, m, d) in own.items():
                ops.append(cf(n, fn, r, e, m, d))
        if len(rest) == len(pending):
            return None
        pending = rest
    return ops


def _merge_declared(decl):
    sups, defs = {}, {}
    for part in decl:
        for (n, s, own) in part:
            sups.setdefault(n, [])
            if s not in sups[n]:
                sups[n].append(s)
            for fn, d in own.items():
                defs.setdefault(n, {}).setdefault(fn, []).append(d)
    return sups, defs


def _observe(ts, sc, types, obs):
    for n in types:
        ty = ts.get_type(n)
        obs["tables"].append(sorted((T.feat_row(f) for f in ty.all_features), key=lambda r: (r[0], r[1], str(r[2]), str(r[3]))))
        obs["getf"].append([(T.feat_row(ty.get_feature(x)) if ty.get_feature(x) is not None else None) for x in sc["fn"]])
        acc = []
        for kw in sc["kw"]:
            try:
                fs = ty(**{kw: 7})
                acc.append(True)
                if getattr(fs, kw) != 7:
                    obs["rw_fail"].append(f"{n}({kw}=7).{kw} reads {getattr(fs, kw)!r}")
                setattr(fs, kw, 9)
                if getattr(fs, kw) != 9:
                    obs["rw_fail"].append(f"{n}: {kw} not writable")
            except TypeError:
                acc.append(False)
        obs["accept"].append(acc)
        # a plain new instance exposes every effective feature as an attribute
        fs0 = ty()
        for f in ty.all_features:
            if not hasattr(fs0, f.name):
                obs["rw_fail"].append(f"new {n}() has no attribute {f.name}")


MERGE_FN = ["f", "g", "begin", "nope"]
MERGE_KW = ["f", "g", "begin", "nope", "sofa"]


def _merge_view(sc):
    """scenario with the queries filled in (the first merge stream carries none: the types of its pool are asked)"""
    if sc.get("types"):
        return sc
    pool = []
    for ops in sc["merge"]:
        for op in ops:
            if op["op"] == "ct" and op["n"] not in pool:
                pool.append(op["n"])
    return dict(sc, types=sorted(pool)[:8], fn=MERGE_FN, kw=MERGE_KW)


def _run_merge(cassis, sc):
    sc = _merge_view(sc)
    runs = [T.run_ops(cassis, ops) for ops in sc["merge"]]
    tss = [r[0] for r in runs]
    obs = {"part_out": [r[1] for r in runs], "closure": [], "types": [], "tables": [], "getf": [], "accept": [], "rw_fail": [],
           "sup": {}, "impl_schema": {}}
    try:
        if sc.get("via") == "json":
            merged = cassis.load_cas_from_json(cassis.Cas(typesystem=tss[1]).to_json(), typesystem=tss[0]).typesystem
        else:
            merged = cassis.merge_typesystems(*tss)
        obs["merge"] = "ok"
    except ValueError:
        obs["merge"] = "EValue"
    if obs["merge"] != "ok":
        return obs
    obs["closure"] = T.closure_failures(merged)[:3]
    obs["sup"] = {t.name: t.supertype.name for t in merged.get_types()}
    types = [n for n in sc["types"] if merged.contains_type(n, True)]
    obs["types"] = types
    _observe(merged, sc, types, obs)
    obs["impl_schema"] = bridge.impl_schema(merged, types)
    return obs


# ---------------------------------------------------------------------------------------------- implementation
def _apply_op(cassis, ts, op):
    """tscommon.apply_op, plus the second spelling of create_feature: TypeSystem.add_feature(type_, name, rangeTypeName,
    elementType, description, multipleReferencesAllowed) (deprecated alias; takes the Type object)"""
    if op["op"] != "cf" or op.get("via") != "add_feature":
        return T.apply_op(cassis, ts, op)
    try:
        ts.add_feature(ts.get_type(op["dom"]), op["n"], op["r"], elementType=op.get("e"), description=op.get("d"),
                       multipleReferencesAllowed=op.get("m"))
        return "ok"
    except Exception as e:  # noqa
        return T.err_kind(cassis, e)


def _run_ops(cassis, ops):
    """tscommon.run_ops over _apply_op: (ts, outcomes, indices of refused operations after which the dump differs)"""
    ts = cassis.TypeSystem()
    outcomes, changed = [], []
    before = T.dump(ts)
    for i, op in enumerate(ops):
        out = _apply_op(cassis, ts, op)
        outcomes.append(out)
        after = T.dump(ts)
        if out != "ok" and after != before:
            changed.append(i)
        before = after
    return ts, outcomes, changed


def run_impl(cassis, sc):
    if "merge" in sc:
        return _run_merge(cassis, sc)
    ts, outcomes, changed = _run_ops(cassis, sc["ops"])
    types = [n for n in sc["types"] if ts.contains_type(n, True)]
    obs = {"out": outcomes, "changed_on_failure": changed, "types": types, "tables": [], "getf": [], "accept": [], "rw_fail": [],
           "order": [t.name for t in ts.get_types(built_in=True)]}
    _observe(ts, sc, types, obs)
    # Bridge: the flattened view read off the implementation, and scen.schema_of on the declarations of the history
    obs["impl_schema"] = bridge.impl_schema(ts, types)
    tspec, dom = bridge.history_to_tspec(sc["ops"], outcomes)
    obs["scen_dom"] = dom
    obs["scen_schema"] = bridge.scen_schema(cassis, tspec, types) if dom["d1"] and dom["d2"] else None
    # the same statement on the type system that comes back from a descriptor (loading itself is C12's subject)
    obs["closure_xml"] = []
    if types and len(sc["ops"]) % 2 == 0:
        try:
            ts2 = cassis.load_typesystem(ts.to_xml())
        except Exception as e:  # noqa
            ts2 = None
            obs["xml_skipped"] = type(e).__name__
        if ts2 is not None:
            obs["closure_xml"] = T.closure_failures(ts2)[:3]
    return obs


# ---------------------------------------------------------------------------------------------- oracle
def _row(name, d):
    return [name, d[0], d[1], d[2]]


def _judge_queries(sc, obs, types, eff_of, full_rows=True):
    """the effective feature table, get_feature and the constructor of every observed type against own + ancestors' definitions"""
    cut = (lambda r: r) if full_rows else (lambda r: r[:2])
    for i, n in enumerate(types):
        eff = eff_of(n)
        table = obs["tables"][i]
        names = [r[0] for r in table]
        if len(set(names)) != len(names):
            return f"two_definitions: {n} lists {sorted(x for x in names if names.count(x) > 1)[0]} more than once: {table}"
        want = sorted((_row(k, v) for k, v in eff.items()), key=lambda r: (r[0], r[1], str(r[2]), str(r[3])))
        if [cut(r) for r in table] != [cut(r) for r in want]:
            miss = [r for r in want if cut(r) not in [cut(x) for x in table]]
            extra = [r for r in table if cut(r) not in [cut(x) for x in want]]
            return f"effective: all_features of {n}: missing {miss[:3]}, unexpected {extra[:3]} (own + ancestors' definitions: {want[:6]})"
        for x, g in zip(sc["fn"], obs["getf"][i]):
            w = _row(x, eff[x]) if x in eff else None
            if (g and cut(g)) != (w and cut(w)):
                return f"get_feature: {n}.get_feature({x!r}) gave {g}, expected {w}"
        for kw, a in zip(sc["kw"], obs["accept"][i]):
            if a != (kw in eff):
                return (f"constructor: {n}({kw}=...) was {'accepted' if a else 'rejected'} but {kw} is "
                        f"{'an' if kw in eff else 'not an'} effective feature of {n}")
    if obs["rw_fail"]:
        return "instance: " + obs["rw_fail"][0]
    return None


def _merge_oracle(sc, obs):
    """Merging is a sequence of definitions: the declarations of all arguments end up in one type system, so whenever two
    declarations of one feature name that lie on one inheritance chain differ in range the merge has to raise ValueError -
    whichever argument comes first, whether or not the descendant is new to the merge -, and when all agree it succeeds and
    every type has its own + its ancestors' features.  Where arguments declare a type with different supertypes, which one
    wins (or that the merge is refused) is C13's subject: the chains are then those of the merged result."""
    sc = _merge_view(sc)
    if obs["closure"]:
        return "merged: " + obs["closure"][0]
    problem, decl = _merge_plan(sc["merge"], obs["part_out"])
    if problem:
        return problem
    sups, defs = _merge_declared(decl)
    fixed = all(len(v) == 1 for v in sups.values())
    if fixed:
        hier = {n: v[0] for n, v in sups.items()}
    elif obs["merge"] == "ok":
        hier = {}
        for n, v in sups.items():
            if obs["sup"].get(n) not in v:
                return f"registry: merged type {n} has supertype {obs['sup'].get(n)}, declared: {v}"
            hier[n] = obs["sup"][n]
    else:
        return None
    base = Tree()

    def chain(n):  # n and its ancestors, nearest first
        out = []
        while n is not None and len(out) < 100:
            out.append(n)
            n = hier[n] if n in hier else base.sup.get(n)
        return out

    def on_chain(n, x):
        return [(a, d) for a in chain(n) for d in (defs.get(a, {}).get(x, []) if a in hier else
                                                   ([base.own[a][x]] if x in base.own.get(a, {}) else []))]

    conflict, between = None, False
    for n in hier:
        for x in sorted({x for a in chain(n) for x in defs.get(a, {})}):
            ds = on_chain(n, x)
            for (a, d) in ds[1:]:
                rel = Tree._rel(ds[0][1], d)
                if rel == "conflict" and conflict is None:
                    conflict = f"{ds[0][0]}.{x}:{ds[0][1][0]} and {a}.{x}:{d[0]} (chain of {n})"
                between = between or rel == "between"
    allowed = {"EValue"} if conflict else ({"ok", "EValue"} if between or not fixed else {"ok"})
    if obs["merge"] not in allowed:
        how = "load_cas_from_json with a base type system" if sc.get("via") == "json" else "merge_typesystems"
        if conflict:
            return f"merge_conflict: {how} raised no ValueError although one chain holds two definitions with different ranges: {conflict}"
        return f"merge_refused: {how} raised ValueError although all declarations of every feature on every chain agree"
    if obs["merge"] != "ok":
        return None
    types = [n for n in sc["types"] if n in hier or n in base.sup]
    if types != obs["types"]:
        return f"registry: merged type system disagrees on the presence of {sorted(set(types) ^ set(obs['types']))[:5]}"

    def eff_of(n):
        eff = {}
        for a in chain(n):
            for x, dl in (defs.get(a, {}).items() if a in hier else [(x, [d]) for x, d in base.own.get(a, {}).items()]):
                eff.setdefault(x, dl[0])
        return eff
    return _judge_queries(sc, obs, types, eff_of, full_rows=not between and sc.get("via") != "json")


def oracle(cassis, sc, obs):
    if "merge" in sc:
        return _merge_oracle(sc, obs)
    if obs.get("closure_xml"):
        return "loaded: after load_typesystem(ts.to_xml()): " + obs["closure_xml"][0]
    tree = Tree()
    for i, (op, out) in enumerate(zip(sc["ops"], obs["out"])):
        allowed = tree.apply(op, out)
        if out not in allowed:
            return f"outcome: operation {i} {json.dumps(op)} gave {out}, the property allows {sorted(allowed)}"
    if obs["changed_on_failure"]:
        i = obs["changed_on_failure"][0]
        return f"unchanged: refused operation {i} {json.dumps(sc['ops'][i])} changed the type system"
    if obs["order"] != list(tree.sup):
        return "registry: registered types differ from the declared ones"
    types = [n for n in sc["types"] if n in tree.sup]
    if types != obs["types"]:
        return f"registry: contains_type(exact) disagrees on {sorted(set(types) ^ set(obs['types']))[:5]}"
    bad = _judge_queries(sc, obs, types, tree.effective)
    if bad:
        return bad
    # Bridge: scen.schema_of (independent of cassis except for the built-in table) against the implementation's own objects
    ss = obs.get("scen_schema")
    if ss is not None:
        for n in obs["types"]:
            a, b = obs["impl_schema"][n], ss.get(n)
            if b is None or a["anc"] != b["anc"]:
                return f"schema: ancestor chain of {n}: implementation {a['anc']}, scen.schema_of {b and b['anc']}"
            fa, fb = a["feats"], b["feats"]
            if not obs["scen_dom"]["d3"]:
                fa, fb = sorted(fa, key=str), sorted(fb, key=str)
            if fa != fb:
                return (f"schema: effective features of {n} ({'ordered' if obs['scen_dom']['d3'] else 'as a set'}): implementation "
                        f"{a['feats']}, scen.schema_of {b['feats']}")
    return None


# ---------------------------------------------------------------------------------------------- Gallina
def gof(r):
    return "None" if r is None else f"(Some (mkOF {gstr(r[0])} {gstr(r[1])} {gostr(r[2])} {gobool(r[3])}))"


def gof1(r):
    return f"mkOF {gstr(r[0])} {gstr(r[1])} {gostr(r[2])} {gobool(r[3])}"


def render(sc, obs):
    if "merge" in sc:
        return _render_merge(sc, obs)
    parts = [
        glist([gop(o) for o in sc["ops"]]),
        glist([gout(o) for o in obs["out"]]),
        gstrs(obs["types"]),
        glist([glist([gof1(r) for r in t]) for t in obs["tables"]]),
        gstrs(sc["fn"]),
        glist([glist([gof(r) for r in row]) for row in obs["getf"]]),
        gstrs(sc["kw"]),
        glist([gbits(a) for a in obs["accept"]]),
    ]
    names = obs["types"]
    impl, ss = obs["impl_schema"], obs.get("scen_schema")
    exact = bool(obs["scen_dom"]["d3"])
    if ss is None:
        scen_term = "None"
    elif all(n in ss and ss[n] == impl[n] for n in names):
        scen_term = "(Some si)"                   # identical to the implementation's: rendered once
    else:
        scen_term = f"(Some {bridge.g_schema_compact(ss, [n for n in names if n in ss])})"
    head = "mkCase " + " ".join(f"({p})" for p in parts)
    return f"(let si := {bridge.g_schema_compact(impl, names)} in {head} si {scen_term} {gbool(exact)} None)"


def _render_merge(sc, obs):
    """a merge whose arguments agree on every supertype, as the history of its definitions (c_merge = Some ok); merges with
    competing supertypes stay with the oracle (re-parenting is modelled in coq/Merge*.v, C13)"""
    sc = _merge_view(sc)
    problem, decl = _merge_plan(sc["merge"], obs["part_out"])
    if problem or decl is None:
        return None
    sups, _ = _merge_declared(decl)
    if not all(len(v) == 1 for v in sups.values()):
        return None
    ops = _merge_linearise(decl)
    if ops is None:
        return None
    names = obs["types"]
    parts = [
        glist([gop(o) for o in ops]),
        "[]",
        gstrs(names),
        glist([glist([gof1(r) for r in t]) for t in obs["tables"]]),
        gstrs(sc["fn"]),
        glist([glist([gof(r) for r in row]) for row in obs["getf"]]),
        gstrs(sc["kw"]),
        glist([gbits(a) for a in obs["accept"]]),
    ]
    head = "mkCase " + " ".join(f"({p})" for p in parts)
    return f"({head} {bridge.g_schema_compact(obs['impl_schema'], names)} None false (Some {gbool(obs['merge'] == 'ok')}))"


def nontrivial(sc):
    if "merge" in sc and sc.get("types"):
        # one feature name is defined in two different arguments
        seen = {}
        for k, part in enumerate(sc["merge"]):
            for op in part:
                if op["op"] == "cf":
                    seen.setdefault(op["n"], set()).add(k)
        return any(len(v) >= 2 for v in seen.values())
    if "merge" in sc:
        return len(sc["merge"]) >= 2 and all(len(p) >= 2 for p in sc["merge"])
    tree = Tree()
    hit = False
    for op in sc["ops"]:
        if op["op"] == "cf":
            td = tree.resolve(op["dom"])
            below = td is not None and (td in tree.instantiated or any(c not in T.BUILTIN_NAMES for c in tree.subtree(td) if c != td))
            if td is not None and ((td not in T.BUILTIN_NAMES and tree.children(td)) or below):
                allowed = tree.apply(op, "ok")
                hit = hit or "ok" in allowed
                continue
        tree.apply(op, "ok")
    return hit


def shrink_candidates(sc):
    if "merge" in sc:
        for i, part in enumerate(sc["merge"]):
            for j in range(len(part)):
                cand = T.clone(sc)
                cand["merge"][i] = part[:j] + part[j + 1:]
                yield cand
        if len(sc["merge"]) > 2:
            for i in range(len(sc["merge"])):
                cand = T.clone(sc)
                cand["merge"] = sc["merge"][:i] + sc["merge"][i + 1:]
                yield cand
        return
    ops = sc["ops"]
    n = len(ops)
    chunk = max(1, n // 2)
    while chunk >= 1:
        for i in range(0, n, chunk):
            cand = T.clone(sc)
            cand["ops"] = ops[:i] + ops[i + chunk:]
            if len(cand["ops"]) < n:
                yield cand
        if chunk == 1:
            break
        chunk //= 2
    for key in ("types", "kw", "fn"):
        if len(sc[key]) > 1:
            for i in range(len(sc[key])):
                cand = T.clone(sc)
                cand[key] = sc[key][:i] + sc[key][i + 1:]
                yield cand


def mutate(sc, rng):
    if "merge" in sc:
        return
    for _ in range(10):
        c = T.clone(sc)
        c["ops"].insert(rng.randint(0, len(c["ops"])), dict(rng.choice(ALPHABET + ROOT + ALIAS)))
        yield c


def signature(sc, msg):
    return {"what": msg.split(":")[0] if msg else ""}


def distribution(scenarios, observations):
    outs, kinds = {}, {"ct": 0, "cf": 0, "inst": 0}
    for s, o in zip(scenarios, observations):
        for op in s["ops"]:
            kinds[op["op"]] += 1
        if o and "out" in o:
            for x in o["out"]:
                outs[x] = outs.get(x, 0) + 1
    merges = [o for s, o in zip(scenarios, observations) if o and "merge" in s and not s.get("types")]
    hist = [(s, o) for s, o in zip(scenarios, observations) if o and "merge" in s and s.get("types")]
    return {"cases": len(scenarios), "operations": kinds, "outcomes": outs,
            "merged_type_systems": {"ok": sum(1 for o in merges if o["merge"] == "ok"), "refused": sum(1 for o in merges if o["merge"] != "ok")},
            "merges_as_histories": {"ok": sum(1 for _, o in hist if o["merge"] == "ok"), "refused": sum(1 for _, o in hist if o["merge"] != "ok"),
                                    "through_json": sum(1 for s, _ in hist if s.get("via") == "json"),
                                    "with_empty_argument": sum(1 for s, _ in hist if any(not p for p in s["merge"]))},
            "max_history": max(len(s["ops"]) for s in scenarios) if scenarios else 0,
            "tables_observed": sum(len(o["tables"]) for o in observations if o and "tables" in o),
            "constructor_probes": sum(len(o["accept"]) * len(s["kw"]) for s, o in zip(scenarios, observations) if o and "accept" in o),
            "feature_after_instance": sum(1 for s in scenarios if _after_instance(s)),
            "features_on_builtin_types": _count_cf(scenarios, observations, lambda op: op["dom"] in T.BUILTIN_NAMES),
            "features_on_the_root_type": _count_cf(scenarios, observations, lambda op: op["dom"] == TOPT),
            "types_created_below_a_builtin_type_that_got_a_feature": sum(1 for s in scenarios if _below_extended_builtin(s)),
            "through_add_feature": _count_cf(scenarios, observations, lambda op: op.get("via") == "add_feature"),
            "through_add_feature_with_element_or_description": _count_cf(
                scenarios, observations, lambda op: op.get("via") == "add_feature" and (op.get("e") or op.get("d"))),
            "bridge": _bridge_distribution(scenarios, observations)}


def _bridge_distribution(scenarios, observations):
    d = {"histories": 0, "scen_exact(D1-D3)": 0, "scen_as_set(D1,D2)": 0, "outside_scen_domain": 0, "scen_shape_streams": 0,
         "scen_differs_from_impl_order": 0, "types_compared": 0, "max_chain": 0, "max_features": 0}
    for s, o in zip(scenarios, observations):
        if not o or "impl_schema" not in o or "merge" in s:
            continue
        d["histories"] += 1
        d["scen_shape_streams"] += 1 if s.get("stream") == "scen" else 0
        d["types_compared"] += len(o["types"])
        for n in o["types"]:
            d["max_chain"] = max(d["max_chain"], len(o["impl_schema"][n]["anc"]))
            d["max_features"] = max(d["max_features"], len(o["impl_schema"][n]["feats"]))
        if o["scen_schema"] is None:
            d["outside_scen_domain"] += 1
        elif o["scen_dom"]["d3"]:
            d["scen_exact(D1-D3)"] += 1
        else:
            d["scen_as_set(D1,D2)"] += 1
            if any(o["scen_schema"].get(n) != o["impl_schema"][n] for n in o["types"]):
                d["scen_differs_from_impl_order"] += 1
    return d


def _count_cf(scenarios, observations, pred):
    """[operations, of which accepted]"""
    n = ok = 0
    for s, o in zip(scenarios, observations):
        for i, op in enumerate(s["ops"]):
            if op["op"] == "cf" and pred(op):
                n += 1
                ok += 1 if o and i < len(o.get("out", [])) and o["out"][i] == "ok" else 0
    return [n, ok]


def _below_extended_builtin(sc):
    got = set()
    for op in sc["ops"]:
        if op["op"] == "cf" and op["dom"] in T.BUILTIN_NAMES:
            got.add(op["dom"])
        if op["op"] == "ct" and op["s"] in got:
            return True
    return False


def _after_instance(sc):
    seen = set()
    for op in sc["ops"]:
        if op["op"] == "inst":
            seen.add(op["t"])
        if op["op"] == "cf" and seen:
            return True
    return False


def extra_checks(ctx):
    return [T.observed_init_check(ctx["cassis"], ID)]


MANIFEST = {
    "level_text": "Machine-checked proof (Coq 8.16) over an executable model of cassis/typesystem.py that the invariant WF (hierarchy "
                  "invariant of C10 plus: inherited features are own features of proper ancestors, every ancestor's own feature is "
                  "inherited up to Feature.__eq__, one definition per name, the lazily built constructor captures exactly the effective "
                  "feature names and a cached class is never stale) holds for TypeSystem() and after every history of create_type / "
                  "create_feature / instantiate in any order; under WF: effective_features_spec, get_feature_spec, no_two_definitions, "
                  "identical redefinition is a no-op, a conflicting definition raises whether the ancestor or the descendant was defined "
                  "first and changes nothing, the constructor accepts exactly the effective feature names. Tied to /repo on every run by "
                  "evaluating the model inside Coq on the histories the implementation was run on.",
    "level_note": "Theorems are about the functional form of Type._add_feature; the mechanism form (recursion through _children with its "
                  "early return) is a second executable definition, proved equal to the functional form on every well-formed type "
                  "system (C11_mechanism_agrees, C11_histories_mechanism_agree) and evaluated in every correspondence case (two-form "
                  "model, DESIGN section 9). Trusted: Coq kernel + vm_compute; hand-written model coq/TS.v; Feature.__eq__ ignores "
                  "multipleReferencesAllowed (modelled as written). Print Assumptions: closed under the global context.",
    "technique": "Coq proof over an executable Gallina model + in-Coq behavioural correspondence (exhaustive small histories, random deep trees)",
    "design_ref": "DESIGN.md section 5, C11",
}
