"""Deadline oracle of C15, run as a subprocess with PYTHONPATH=<tree under test>:

    python c15_timing.py <shape> <n>
        -> one JSON line {"shape","n","times":{op: cpu seconds},"errors":{op: kind},"work":{counter: steps}}

Builds one reference-graph shape of size n through the public API and measures the CPU time of every operation the
property names: to_xmi, to_json (type systems FULL and MINIMAL), load_cas_from_xmi, load_cas_from_json, typecheck, select (select/select_all/
select_covered + subsumes/is_instance_of on the deep type tree), cas_to_comparable_text.  An operation that raises
(e.g. XMI refuses a cyclic inline list) has terminated: the time is reported together with the error kind.
Nothing here judges; the caps are applied by harness/props/C15.py."""
import json
import sys
import time
import warnings

SHAPES = ["chain", "cycle", "selfref", "diamond", "inline_array", "shared_array", "inline_list", "shared_list",
          "cyclic_inline_list", "cyclic_shared_list", "many_small_collections", "top_fan", "deep_types", "type_ref_ladder",
          "prim_lists", "cyclic_inline_int_list", "cyclic_inline_float_list", "cyclic_inline_string_list",
          "cyclic_shared_prim_list", "nested_arrays", "nested_collections", "merged_types", "colliding_packages"]
DEPTH = 60
ADDRESS_SPACE_CAP = 4 * 1024 ** 3        # a loop that does not end usually also allocates without end: MemoryError, not swap


def make_ts(cassis, depth=DEPTH, tree="created"):
    """tree: how the deep type tree d.T0 <- d.T1 <- ... comes into being.  `created`: create_type level by level.
    `merged`: two versions of the tree are merged, the second one refines the first by inserting an intermediate type
    d.X<i> between d.T<i> and d.T<i+1> on every level (merge_typesystems re-parents d.T<i+1> under the more specific
    supertype), a third version - the first one again, read back from its XML - is merged in afterwards."""
    if tree == "merged":
        v1 = make_ts(cassis, depth)
        v2 = make_ts(cassis, depth, tree="refined")
        v3 = cassis.load_typesystem(v1.to_xml())
        return cassis.merge_typesystems(cassis.merge_typesystems(v1, v2), v3)
    ts = cassis.TypeSystem()
    n = ts.create_type("g.Node", "uima.cas.TOP")
    for f in ("a", "b"):
        ts.create_feature(n, f, "g.Node")
    ts.create_feature(n, "top", "uima.cas.TOP")
    ts.create_feature(n, "arr", "uima.cas.FSArray", elementType="g.Node")
    ts.create_feature(n, "sarr", "uima.cas.FSArray", elementType="g.Node", multipleReferencesAllowed=True)
    ts.create_feature(n, "lst", "uima.cas.FSList")
    ts.create_feature(n, "slst", "uima.cas.FSList", multipleReferencesAllowed=True)
    ts.create_feature(n, "n", "uima.cas.Integer")
    for f, kind in (("il", "Integer"), ("fl", "Float"), ("sl", "String")):
        ts.create_feature(n, f, "uima.cas.%sList" % kind)                                       # written inside the holder
    ts.create_feature(n, "sil", "uima.cas.IntegerList", multipleReferencesAllowed=True)
    ts.create_feature(n, "ssl", "uima.cas.StringList", multipleReferencesAllowed=True)
    # collections of anything (element type uima.cas.TOP): their elements may be collections again
    ts.create_feature(n, "tarr", "uima.cas.FSArray")                                            # written inside the holder
    ts.create_feature(n, "starr", "uima.cas.FSArray", elementType="uima.cas.TOP", multipleReferencesAllowed=True)
    prev = "uima.tcas.Annotation"
    for i in range(depth):
        if tree == "refined" and i > 0:
            x = ts.create_type("d.X%d" % (i - 1), prev)
            if i % 10 == 5:
                ts.create_feature(x, "x%d" % i, "g.Node")
            prev = "d.X%d" % (i - 1)
        t = ts.create_type("d.T%d" % i, prev)
        if i % 10 == 0:
            ts.create_feature(t, "r%d" % i, "g.Node")
        prev = "d.T%d" % i
    return ts


def mklist(ts, heads, cyclic=False):
    """FSList nodes for the heads; cyclic: the tail of the last node is the first node."""
    ne, em = ts.get_type("uima.cas.NonEmptyFSList"), ts.get_type("uima.cas.EmptyFSList")
    nodes = [ne(head=h) for h in heads]
    for i in range(len(nodes) - 1):
        nodes[i].tail = nodes[i + 1]
    if nodes:
        nodes[-1].tail = nodes[0] if cyclic else em()
    return nodes[0] if nodes else em()


PRIM_VALUE = {"Integer": lambda i: i - 7, "Float": lambda i: i / 4.0 - 1.0, "String": lambda i: "s %d" % i}


def mkplist(ts, kind, n, back_to=None):
    """n nodes of uima.cas.NonEmpty<kind>List; the tail of the last one is an Empty<kind>List or node number back_to."""
    ne, em = ts.get_type("uima.cas.NonEmpty%sList" % kind), ts.get_type("uima.cas.Empty%sList" % kind)
    nodes = [ne(head=PRIM_VALUE[kind](i)) for i in range(n)]
    for i in range(n - 1):
        nodes[i].tail = nodes[i + 1]
    if nodes:
        nodes[-1].tail = em() if back_to is None else nodes[back_to]
    return nodes if nodes else [em()]


def add_ladder(ts, depth):
    """Types r.L0 .. r.L<depth>; every level refers to the next level through two features and an FSArray element type."""
    for i in range(depth + 1):
        ts.create_type("r.L%d" % i, "uima.cas.TOP")
    for i in range(depth):
        t = ts.get_type("r.L%d" % i)
        ts.create_feature(t, "a", "r.L%d" % (i + 1))
        ts.create_feature(t, "b", "r.L%d" % (i + 1))
        ts.create_feature(t, "arr", "uima.cas.FSArray", elementType="r.L%d" % (i + 1))


def package_names(n):
    """n / 10 packages that all end in `type` (the XMI writer names a namespace prefix after the last component of the
    package and numbers the later ones: type0, type1, ...), a few packages that ARE called like such numbered prefixes, and
    packages named after the prefixes the writer reserves for itself."""
    k = max(3, n // 10)
    numbered = ["c.type%d" % j for j in sorted({0, 1, 5, k // 2, k - 2, k})]
    return numbered[:2] + ["c.v%d.type" % i for i in range(k)] + numbered[2:] + ["c.cas0", "c.cas", "c.xmi", "c.xmi0", "c.v1.cas"]


def add_packages(ts, n):
    for p in package_names(n):
        t = ts.create_type(p + ".Node", "uima.cas.TOP")
        ts.create_feature(t, "next", "uima.cas.TOP")
        ts.create_feature(t, "arr", "uima.cas.FSArray")


def build(cassis, shape, n):
    ts = make_ts(cassis, n, tree="merged") if shape == "merged_types" else make_ts(cassis)
    cas = cassis.Cas(typesystem=ts)
    cas.sofa_string = "x" * 200
    Node, Arr = ts.get_type("g.Node"), ts.get_type("uima.cas.FSArray")
    if shape in ("chain", "cycle"):
        nodes = [Node(n=i) for i in range(n)]
        for i in range(n - 1):
            nodes[i].a = nodes[i + 1]
        if shape == "cycle":
            nodes[-1].a = nodes[0]
            nodes[-1].b = nodes[n // 2]
        cas.add(nodes[0])
    elif shape == "selfref":
        for i in range(n):
            x = Node(n=i)
            x.a = x
            x.top = x
            x.arr = Arr(elements=[x, x, None])
            cas.add(x)
    elif shape == "diamond":
        # n levels; level i has two children which both point to level i+1; level nodes also hold the next level twice
        levels = [Node(n=i) for i in range(n + 1)]
        for i in range(n):
            x, y = Node(n=-i), Node(n=-i)
            levels[i].a, levels[i].b = x, y
            x.a = x.b = y.a = y.b = levels[i + 1]
            levels[i].arr = Arr(elements=[levels[i + 1], levels[i + 1]])
        cas.add(levels[0])
    elif shape == "inline_array":
        elems = [Node(n=i) for i in range(n // 2)]
        for e in elems[: n // 4]:
            cas.add(e)                                   # already visited when the array is scanned
        owner = Node()
        owner.arr = Arr(elements=[x for e in elems for x in (e, None, e)])
        cas.add(owner)
    elif shape == "shared_array":
        elems = [Node(n=i) for i in range(n)]
        arr = Arr(elements=elems + elems[::-1])
        for k in range(3):
            o = Node(n=k)
            o.sarr = arr
            o.top = arr
            cas.add(o)
    elif shape in ("inline_list", "cyclic_inline_list"):
        elems = [Node(n=i) for i in range(n // 2)]
        for e in elems[: n // 4]:
            cas.add(e)
        heads = [x for e in elems for x in (e, e)]
        heads[1::7] = [None] * len(heads[1::7])
        owner = Node()
        owner.lst = mklist(ts, heads, cyclic=(shape == "cyclic_inline_list"))
        cas.add(owner)
    elif shape in ("shared_list", "cyclic_shared_list"):
        elems = [Node(n=i) for i in range(n // 2)]
        heads = [x for e in elems for x in (e, e)]
        heads[1::7] = [None] * len(heads[1::7])
        lst = mklist(ts, heads, cyclic=(shape == "cyclic_shared_list"))
        for k in range(3):
            o = Node(n=k)
            o.slst = lst
            cas.add(o)
    elif shape == "prim_lists":
        # lists of primitive values thousands of elements long, inside the holder and shared (also entered in the middle)
        owner = Node()
        owner.il = mkplist(ts, "Integer", n)[0]
        owner.fl = mkplist(ts, "Float", n // 2)[0]
        owner.sl = mkplist(ts, "String", n // 2)[0]
        cas.add(owner)
        shared, sstr = mkplist(ts, "Integer", n), mkplist(ts, "String", n // 2)
        for k in range(3):
            o = Node(n=k)
            o.sil = shared[0 if k < 2 else n // 2]
            o.ssl = sstr[0]
            cas.add(o)
    elif shape in ("cyclic_inline_int_list", "cyclic_inline_float_list", "cyclic_inline_string_list"):
        # the tail of the last node is the first node / a middle node / the last node itself
        kind, feat, back = {"cyclic_inline_int_list": ("Integer", "il", 0), "cyclic_inline_float_list": ("Float", "fl", n // 2),
                            "cyclic_inline_string_list": ("String", "sl", n - 1)}[shape]
        owner = Node()
        setattr(owner, feat, mkplist(ts, kind, n, back_to=back)[0])
        cas.add(owner)
    elif shape == "cyclic_shared_prim_list":
        ints, strs = mkplist(ts, "Integer", n, back_to=0), mkplist(ts, "String", n // 2, back_to=n // 4)
        for k in range(3):
            o = Node(n=k)
            o.sil = ints[0 if k < 2 else n // 2]
            o.ssl = strs[0]
            o.top = ints[n - 1]
            cas.add(o)
    elif shape == "many_small_collections":
        targets = [Node(n=i) for i in range(10)]
        for i in range(n):
            o = Node(n=i)
            o.arr = Arr(elements=[targets[i % 10], targets[(i + 1) % 10], targets[i % 10], None])
            o.lst = mklist(ts, [targets[(i + 2) % 10], o, targets[(i + 2) % 10]])
            o.a = targets[i % 10]
            cas.add(o)
    elif shape == "type_ref_ladder":
        add_ladder(ts, n)
        top = ts.get_type("r.L0")()
        top.a = ts.get_type("r.L1")()
        cas.add(top)
    elif shape == "top_fan":
        hub = Node()
        arrs = []
        Top = ts.get_type("uima.cas.TOP")
        for i in range(n // 4):
            x = Node(n=i)
            x.top = hub if i % 3 else Top()                    # instances of uima.cas.TOP itself, referenced only
            arrs.append(Arr(elements=[x, hub, x]))
        cas.add(Top())
        outer = Arr(elements=arrs + arrs)
        hub.top = outer
        cas.add(hub)
    elif shape == "deep_types":
        g = Node()
        for i in range(n):
            t = ts.get_type("d.T%d" % (i % DEPTH))
            a = t(begin=i % 150, end=i % 150 + (i % 50))
            if (i % DEPTH) >= 10:
                a.r10 = g
            cas.add(a)
    elif shape == "merged_types":
        # n = depth of the merged tree (2n - 1 levels with the inserted intermediate types); a few annotations per level
        g = Node()
        for i in range(4 * n):
            lvl = i % n
            t = ts.get_type(("d.X%d" % lvl) if i % 3 == 2 and lvl < n - 1 else ("d.T%d" % lvl))
            a = t(begin=i % 150, end=i % 150 + (i % 50))
            a.r0 = g
            cas.add(a)
    elif shape == "nested_arrays":
        # FSArrays whose elements are FSArrays again, reachable only through arrays: a chain in which every array holds
        # the next one twice (and a null), closed into cycles by the last array; entered through a shared and an inline feature
        arrays = [Arr(elements=[]) for _ in range(n)]
        for i in range(n - 1):
            arrays[i].elements = [arrays[i + 1], None, arrays[i + 1]]
        leaf = Node(n=1)
        arrays[-1].elements = [arrays[n // 2], arrays[0], None, leaf, arrays[-1]]
        o = Node(n=0)
        o.starr = arrays[0]
        cas.add(o)
        p = Node(n=2)
        p.tarr = Arr(elements=[arrays[1], arrays[1], arrays[n // 3]])
        cas.add(p)
    elif shape == "nested_collections":
        # collections inside collections of the other kind: arrays of list nodes whose heads are arrays of list nodes ...
        # (arrays directly inside arrays are the shape nested_arrays)
        leaf = Node(n=1)
        inner = [Arr(elements=[leaf, None, leaf])]
        for i in range(n // 3):
            lst = mklist(ts, [inner[-1], inner[-1], None])
            inner.append(Arr(elements=[lst, lst, None, lst.tail]))
        inner[0].elements = [leaf, inner[-1], inner[len(inner) // 2]]            # and back: cycles through both kinds
        o = Node(n=0)
        o.starr = inner[-1]
        o.slst = mklist(ts, [inner[-1], inner[1], inner[-1]])
        cas.add(o)
        p = Node(n=2)
        p.tarr = Arr(elements=[inner[1], inner[1]])
        p.lst = mklist(ts, [inner[-1], inner[2 % len(inner)]])
        cas.add(p)
    elif shape == "colliding_packages":
        # one ring of n structures through the types of all packages, every tenth one also holds its neighbours in an array
        add_packages(ts, n)
        pk = package_names(n)
        nodes = [ts.get_type(pk[(7 * i) % len(pk)] + ".Node")() for i in range(n)]
        for i, x in enumerate(nodes):
            x.next = nodes[(i + 1) % n]
            if i % 10 == 0:
                x.arr = Arr(elements=[nodes[i - 1], x, nodes[(i + 1) % n]])
        cas.add(nodes[0])
        cas.add(nodes[n // 2])
    else:
        raise ValueError(shape)
    return ts, cas


def timed(times, errors, name, fn):
    t0 = time.process_time()
    try:
        r = fn()
    except Exception as e:  # noqa: terminated with an error
        r = None
        errors[name] = type(e).__name__
    times[name] = round(time.process_time() - t0, 4)
    return r


def main():
    warnings.simplefilter("ignore")
    shape, n = sys.argv[1], int(sys.argv[2])
    try:
        import resource
        resource.setrlimit(resource.RLIMIT_AS, (ADDRESS_SPACE_CAP, ADDRESS_SPACE_CAP))
    except Exception:  # noqa: no such limit on this platform
        pass
    sys.setrecursionlimit(max(sys.getrecursionlimit(), 3000))
    import cassis
    from cassis.typesystem import TypeSystemMode
    from cassis.util import cas_to_comparable_text
    ts, cas = build(cassis, shape, n)
    times, errors, work = {}, {}, {}
    depth = n if shape == "merged_types" else DEPTH
    timed(times, errors, "typecheck", lambda: cas.typecheck())
    xmi = timed(times, errors, "to_xmi", lambda: cas.to_xmi())
    js = timed(times, errors, "to_json", lambda: cas.to_json())
    timed(times, errors, "to_json_minimal", lambda: cas.to_json(type_system_mode=TypeSystemMode.MINIMAL))
    if xmi is not None:
        timed(times, errors, "load_cas_from_xmi", lambda: cassis.load_cas_from_xmi(xmi, typesystem=ts))
    if js is not None:
        timed(times, errors, "load_cas_from_json", lambda: cassis.load_cas_from_json(js, typesystem=ts))

    def queries():
        k = 0
        for name in ("g.Node", "uima.tcas.Annotation", "d.T0", "d.T%d" % (depth // 2), "d.T%d" % (depth - 1), "uima.cas.TOP"):
            k += len(list(cas.select(name)))
        k += len(cas.select_all())
        anns = list(cas.select("d.T0"))[:50]
        for a in anns:
            k += len(list(cas.select_covered("uima.tcas.Annotation", a)))
        for i in range(depth):
            k += ts.subsumes("d.T0", "d.T%d" % i) + ts.is_instance_of("d.T%d" % i, "uima.cas.TOP")
            k += len(list(ts.get_type("d.T%d" % i).descendants)) if i % 20 == 0 else 0
        return k

    def count_work():
        # work counted in steps rather than seconds: how many types the walk over the subtypes of the root of the deep
        # tree (what select / select_covered / create_feature iterate over) hands out, against how many types there are.
        # The walk is cut off far above any polynomial of the number of types.
        from itertools import islice
        n_types = sum(1 for _ in ts.get_types())
        work["types"] = n_types
        work["subtypes_walked"] = sum(1 for _ in islice(ts.get_type("d.T0").descendants, 50 * n_types + 1000))
        work["subtypes_distinct"] = len({t.name for t in islice(ts.get_type("d.T0").descendants, 50 * n_types + 1000)})

    timed(times, errors, "count_subtypes", count_work)
    timed(times, errors, "select", queries)
    timed(times, errors, "cas_to_comparable_text", lambda: cas_to_comparable_text(cas))

    def listing_with_arguments():
        # the optional arguments of the listing: leaving out the collection types, leaving out everything else (no index
        # marks, no covered text), explicit seeds
        found = {fs.type.name for fs in cas._find_all_fs()}
        colls = {t for t in found if t.startswith("uima.cas.") and (t.endswith("Array") or t.endswith("List"))}
        k = len(cas_to_comparable_text(cas, exclude_types=colls | {"uima.cas.FSArray"}) or "")
        k += len(cas_to_comparable_text(cas, exclude_types=found - colls, mark_indexed=False, covered_text=False) or "")
        k += len(cas_to_comparable_text(cas, seeds=list(cas.select_all())[:50], exclude_types={"uima.cas.FSArray"}) or "")
        return k

    timed(times, errors, "cas_to_comparable_text_args", listing_with_arguments)
    print(json.dumps({"shape": shape, "n": n, "times": times, "errors": errors, "work": work}))


if __name__ == "__main__":
    main()
