"""Deadline oracle of C15, run as a subprocess with PYTHONPATH=<tree under test>:

    python c15_timing.py <shape> <n>        -> one JSON line {"shape","n","times":{op: cpu seconds},"errors":{op: kind}}

Builds one reference-graph shape of size n through the public API and measures the CPU time of every operation the
property names: to_xmi, to_json (type systems FULL and MINIMAL), load_cas_from_xmi, load_cas_from_json, typecheck, select (select/select_all/
select_covered + subsumes/is_instance_of on the deep type tree), cas_to_comparable_text.  An operation that raises
(e.g. XMI refuses a cyclic inline list) has terminated: the time is reported together with the error kind.
Nothing here judges; the caps are applied by harness/props/C15.py."""
import json
import sys
import time
import warnings

SHAPES = ["chain", "cycle", "selfref", "diamond", "inline_array", "shared_array", "inline_list", "shared_list",
          "cyclic_inline_list", "cyclic_shared_list", "many_small_collections", "top_fan", "deep_types", "type_ref_ladder",
          "prim_lists", "cyclic_inline_int_list", "cyclic_inline_float_list", "cyclic_inline_string_list",
          "cyclic_shared_prim_list"]
DEPTH = 60
ADDRESS_SPACE_CAP = 4 * 1024 ** 3        # a loop that does not end usually also allocates without end: MemoryError, not swap


def make_ts(cassis):
    ts = cassis.TypeSystem()
    n = ts.create_type("g.Node", "uima.cas.TOP")
    for f in ("a", "b"):
        ts.create_feature(n, f, "g.Node")
    ts.create_feature(n, "top", "uima.cas.TOP")
    ts.create_feature(n, "arr", "uima.cas.FSArray", elementType="g.Node")
    ts.create_feature(n, "sarr", "uima.cas.FSArray", elementType="g.Node", multipleReferencesAllowed=True)
    ts.create_feature(n, "lst", "uima.cas.FSList")
    ts.create_feature(n, "slst", "uima.cas.FSList", multipleReferencesAllowed=True)
    ts.create_feature(n, "n", "uima.cas.Integer")
    for f, kind in (("il", "Integer"), ("fl", "Float"), ("sl", "String")):
        ts.create_feature(n, f, "uima.cas.%sList" % kind)                                       # written inside the holder
    ts.create_feature(n, "sil", "uima.cas.IntegerList", multipleReferencesAllowed=True)
    ts.create_feature(n, "ssl", "uima.cas.StringList", multipleReferencesAllowed=True)
    prev = "uima.tcas.Annotation"
    for i in range(DEPTH):
        t = ts.create_type("d.T%d" % i, prev)
        if i % 10 == 0:
            ts.create_feature(t, "r%d" % i, "g.Node")
        prev = "d.T%d" % i
    return ts


def mklist(ts, heads, cyclic=False):
    """FSList nodes for the heads; cyclic: the tail of the last node is the first node."""
    ne, em = ts.get_type("uima.cas.NonEmptyFSList"), ts.get_type("uima.cas.EmptyFSList")
    nodes = [ne(head=h) for h in heads]
    for i in range(len(nodes) - 1):
        nodes[i].tail = nodes[i + 1]
    if nodes:
        nodes[-1].tail = nodes[0] if cyclic else em()
    return nodes[0] if nodes else em()


PRIM_VALUE = {"Integer": lambda i: i - 7, "Float": lambda i: i / 4.0 - 1.0, "String": lambda i: "s %d" % i}


def mkplist(ts, kind, n, back_to=None):
    """n nodes of uima.cas.NonEmpty<kind>List; the tail of the last one is an Empty<kind>List or node number back_to."""
    ne, em = ts.get_type("uima.cas.NonEmpty%sList" % kind), ts.get_type("uima.cas.Empty%sList" % kind)
    nodes = [ne(head=PRIM_VALUE[kind](i)) for i in range(n)]
    for i in range(n - 1):
        nodes[i].tail = nodes[i + 1]
    if nodes:
        nodes[-1].tail = em() if back_to is None else nodes[back_to]
    return nodes if nodes else [em()]


def add_ladder(ts, depth):
    """Types r.L0 .. r.L<depth>; every level refers to the next level through two features and an FSArray element type."""
    for i in range(depth + 1):
        ts.create_type("r.L%d" % i, "uima.cas.TOP")
    for i in range(depth):
        t = ts.get_type("r.L%d" % i)
        ts.create_feature(t, "a", "r.L%d" % (i + 1))
        ts.create_feature(t, "b", "r.L%d" % (i + 1))
        ts.create_feature(t, "arr", "uima.cas.FSArray", elementType="r.L%d" % (i + 1))


def build(cassis, shape, n):
    ts = make_ts(cassis)
    cas = cassis.Cas(typesystem=ts)
    cas.sofa_string = "x" * 200
    Node, Arr = ts.get_type("g.Node"), ts.get_type("uima.cas.FSArray")
    if shape in ("chain", "cycle"):
        nodes = [Node(n=i) for i in range(n)]
        for i in range(n - 1):
            nodes[i].a = nodes[i + 1]
        if shape == "cycle":
            nodes[-1].a = nodes[0]
            nodes[-1].b = nodes[n // 2]
        cas.add(nodes[0])
    elif shape == "selfref":
        for i in range(n):
            x = Node(n=i)
            x.a = x
            x.top = x
            x.arr = Arr(elements=[x, x, None])
            cas.add(x)
    elif shape == "diamond":
        # n levels; level i has two children which both point to level i+1; level nodes also hold the next level twice
        levels = [Node(n=i) for i in range(n + 1)]
        for i in range(n):
            x, y = Node(n=-i), Node(n=-i)
            levels[i].a, levels[i].b = x, y
            x.a = x.b = y.a = y.b = levels[i + 1]
            levels[i].arr = Arr(elements=[levels[i + 1], levels[i + 1]])
        cas.add(levels[0])
    elif shape == "inline_array":
        elems = [Node(n=i) for i in range(n // 2)]
        for e in elems[: n // 4]:
            cas.add(e)                                   # already visited when the array is scanned
        owner = Node()
        owner.arr = Arr(elements=[x for e in elems for x in (e, None, e)])
        cas.add(owner)
    elif shape == "shared_array":
        elems = [Node(n=i) for i in range(n)]
        arr = Arr(elements=elems + elems[::-1])
        for k in range(3):
            o = Node(n=k)
            o.sarr = arr
            o.top = arr
            cas.add(o)
    elif shape in ("inline_list", "cyclic_inline_list"):
        elems = [Node(n=i) for i in range(n // 2)]
        for e in elems[: n // 4]:
            cas.add(e)
        heads = [x for e in elems for x in (e, e)]
        heads[1::7] = [None] * len(heads[1::7])
        owner = Node()
        owner.lst = mklist(ts, heads, cyclic=(shape == "cyclic_inline_list"))
        cas.add(owner)
    elif shape in ("shared_list", "cyclic_shared_list"):
        elems = [Node(n=i) for i in range(n // 2)]
        heads = [x for e in elems for x in (e, e)]
        heads[1::7] = [None] * len(heads[1::7])
        lst = mklist(ts, heads, cyclic=(shape == "cyclic_shared_list"))
        for k in range(3):
            o = Node(n=k)
            o.slst = lst
            cas.add(o)
    elif shape == "prim_lists":
        # lists of primitive values thousands of elements long, inside the holder and shared (also entered in the middle)
        owner = Node()
        owner.il = mkplist(ts, "Integer", n)[0]
        owner.fl = mkplist(ts, "Float", n // 2)[0]
        owner.sl = mkplist(ts, "String", n // 2)[0]
        cas.add(owner)
        shared, sstr = mkplist(ts, "Integer", n), mkplist(ts, "String", n // 2)
        for k in range(3):
            o = Node(n=k)
            o.sil = shared[0 if k < 2 else n // 2]
            o.ssl = sstr[0]
            cas.add(o)
    elif shape in ("cyclic_inline_int_list", "cyclic_inline_float_list", "cyclic_inline_string_list"):
        # the tail of the last node is the first node / a middle node / the last node itself
        kind, feat, back = {"cyclic_inline_int_list": ("Integer", "il", 0), "cyclic_inline_float_list": ("Float", "fl", n // 2),
                            "cyclic_inline_string_list": ("String", "sl", n - 1)}[shape]
        owner = Node()
        setattr(owner, feat, mkplist(ts, kind, n, back_to=back)[0])
        cas.add(owner)
    elif shape == "cyclic_shared_prim_list":
        ints, strs = mkplist(ts, "Integer", n, back_to=0), mkplist(ts, "String", n // 2, back_to=n // 4)
        for k in range(3):
            o = Node(n=k)
            o.sil = ints[0 if k < 2 else n // 2]
            o.ssl = strs[0]
            o.top = ints[n - 1]
            cas.add(o)
    elif shape == "many_small_collections":
        targets = [Node(n=i) for i in range(10)]
        for i in range(n):
            o = Node(n=i)
            o.arr = Arr(elements=[targets[i % 10], targets[(i + 1) % 10], targets[i % 10], None])
            o.lst = mklist(ts, [targets[(i + 2) % 10], o, targets[(i + 2) % 10]])
            o.a = targets[i % 10]
            cas.add(o)
    elif shape == "type_ref_ladder":
        add_ladder(ts, n)
        top = ts.get_type("r.L0")()
        top.a = ts.get_type("r.L1")()
        cas.add(top)
    elif shape == "top_fan":
        hub = Node()
        arrs = []
        Top = ts.get_type("uima.cas.TOP")
        for i in range(n // 4):
            x = Node(n=i)
            x.top = hub if i % 3 else Top()                    # instances of uima.cas.TOP itself, referenced only
            arrs.append(Arr(elements=[x, hub, x]))
        cas.add(Top())
        outer = Arr(elements=arrs + arrs)
        hub.top = outer
        cas.add(hub)
    elif shape == "deep_types":
        g = Node()
        for i in range(n):
            t = ts.get_type("d.T%d" % (i % DEPTH))
            a = t(begin=i % 150, end=i % 150 + (i % 50))
            if (i % DEPTH) >= 10:
                a.r10 = g
            cas.add(a)
    else:
        raise ValueError(shape)
    return ts, cas


def timed(times, errors, name, fn):
    t0 = time.process_time()
    try:
        r = fn()
    except Exception as e:  # noqa: terminated with an error
        r = None
        errors[name] = type(e).__name__
    times[name] = round(time.process_time() - t0, 4)
    return r


def main():
    warnings.simplefilter("ignore")
    shape, n = sys.argv[1], int(sys.argv[2])
    try:
        import resource
        resource.setrlimit(resource.RLIMIT_AS, (ADDRESS_SPACE_CAP, ADDRESS_SPACE_CAP))
    except Exception:  # noqa: no such limit on this platform
        pass
    sys.setrecursionlimit(max(sys.getrecursionlimit(), 3000))
    import cassis
    from cassis.typesystem import TypeSystemMode
    from cassis.util import cas_to_comparable_text
    ts, cas = build(cassis, shape, n)
    times, errors = {}, {}
    timed(times, errors, "typecheck", lambda: cas.typecheck())
    xmi = timed(times, errors, "to_xmi", lambda: cas.to_xmi())
    js = timed(times, errors, "to_json", lambda: cas.to_json())
    timed(times, errors, "to_json_minimal", lambda: cas.to_json(type_system_mode=TypeSystemMode.MINIMAL))
    if xmi is not None:
        timed(times, errors, "load_cas_from_xmi", lambda: cassis.load_cas_from_xmi(xmi, typesystem=ts))
    if js is not None:
        timed(times, errors, "load_cas_from_json", lambda: cassis.load_cas_from_json(js, typesystem=ts))

    def queries():
        k = 0
        for name in ("g.Node", "uima.tcas.Annotation", "d.T0", "d.T30", "d.T%d" % (DEPTH - 1), "uima.cas.TOP"):
            k += len(list(cas.select(name)))
        k += len(cas.select_all())
        anns = list(cas.select("d.T0"))[:50]
        for a in anns:
            k += len(list(cas.select_covered("uima.tcas.Annotation", a)))
        for i in range(DEPTH):
            k += ts.subsumes("d.T0", "d.T%d" % i) + ts.is_instance_of("d.T%d" % i, "uima.cas.TOP")
            k += len(list(ts.get_type("d.T%d" % i).descendants)) if i % 20 == 0 else 0
        return k

    timed(times, errors, "select", queries)
    timed(times, errors, "cas_to_comparable_text", lambda: cas_to_comparable_text(cas))
    print(json.dumps({"shape": shape, "n": n, "times": times, "errors": errors}))


if __name__ == "__main__":
    main()
