"""C04, JSON half (sub-suite "json" of harness/props/C04.py): documents written by cas.to_json are complete, closed under
reachability and faithful.  Generators, builders and Gallina rendering are those of C02 (harness/props/C02.py); the
abstract document is harness/jsonabs.py (stdlib json only)."""
import copy
import random

from harness import jsonabs as J
from harness import scen
from harness.props import C02

ID = "C04json"
SUITE = "json"
COQ_TARGETS = ["JsonDoc.vo", "Json.vo", "JsonProofs.vo", "JsonProofs2.vo", "JsonLoadProofs.vo", "JsonLex.vo", "CorrC02.vo", "CorrC04json.vo", "Props/C02.vo", "PropsJson.vo"]
CORR_IMPORTS = "Base Heap Schema Canon Reach JsonDoc Json CorrC02 CorrC04json"
OPEN_SCOPES = ["string_scope", "list_scope", "Z_scope"]
CASE_TYPE, CHECK_FN, PREMISES_FN = "case04", "check_case04", "premises04"
SHARD_BYTES = 160_000
CASES_PER_SHARD = 60
CASE_TIMEOUT_S = 30
ENTRY = "cassis.cas.Cas.to_json / cassis.json.CasJsonSerializer.serialize / Cas._find_all_fs(include_inlinable_arrays_and_lists=True)"
RULE = (
    "JSON sub-suite of C04: the scenarios of C02 (random type system with deep hierarchies, reserved feature names, every "
    "primitive / array / list kind, FSArray with and without element type, TOP-ranged features, a String subtype, extended "
    "DocumentAnnotation; CAS of 1-3 views with ASCII/BMP/astral text, cycles, diamonds, shared and unshared collections, null "
    "elements, special floats, sofa URI / byte array with and without id -- the array in combinations shared with a second "
    "sofa, indexed in a view, referenced by a TOP- / ByteArray-ranged feature or an FSArray element --, one id-less structure) "
    "where in two thirds of the "
    "cases only about a third of the index members are kept, so that the other structures are reachable only through "
    "references, FSArray / FSList elements, TOP-ranged features or shared collections; in 40% collections sit where ordinary "
    "structures do (FSArray / primitive array / FSList under a TOP-ranged feature, an FSList head, nested in an FSArray; "
    "elements preferably not indexed), in 25% one feature name is declared on unrelated types with different ranges "
    "(xmicommon.collections_as_targets / same_name_features); type_system_mode FULL / MINIMAL, "
    "pretty_print and ensure_ascii alternate.  A case is non-trivial when it has >= 2 structures and a reference or "
    "collection slot is set."
)
TRUSTED = [
    "Coq 8.16.1 kernel and vm_compute; theorems of coq/PropsJson.v (from JsonProofs.v / JsonProofs2.v / JsonLex.v), all closed "
    "under the global context: C04_json_denote_save (the document denotes the canonical content of the CAS; the former "
    "premise stableb is discharged by ReachSpec.find_all_fs_stable), C04_json_ids_distinct, C04_json_refs_resolve, "
    "C04_json_entries, C04_json_std_lex_ok; doc_ok_json of the written document beyond its closed part is evaluated per case",
    "models coq/JsonDoc.v (the declarative reading denote_json = the independent reader, doc_ok_json, doc_ids_distinctb, "
    "doc_refs_resolveb), coq/Json.v (writer), coq/Reach.v (_find_all_fs), coq/Offsets.v, coq/Schema.v",
    "stdlib json as the text -> abstract JSON layer (harness/jsonabs.py; floats as float.hex() tokens); UTF-8 / base64 "
    "are Coq codecs (JsonProofs.std_lex_ok)",
    "harness/scen.py: builders through the public API, independent schema_of, canonical observation canon(cas, 'json') by "
    "identity-based traversal with its own successor relation (never _find_all_fs / to_* / typecheck)",
    "oracle: harness/jsonabs.closed_problems and py_denote (an independent Python reading of the format: stdlib base64, own "
    "UTF-16 offset count) compared with scen.canon",
]
ASSUMPTIONS = list(C02.ASSUMPTIONS)

MODES = ["FULL", "MINIMAL"]


def make_scenario(sub, k, big=False):
    import cassis
    r = random.Random(sub)
    tspec = scen.gen_tspec(r, n_types=r.randint(2, 8 if big else 6), max_feats=r.randint(1, 5))
    if r.random() < 0.25:
        for t in tspec:
            if t["super"] == scen.ANNOTATION and not any(f["name"] == "language" for f in t["feats"]):
                t["super"] = C02.DA
                break
    cspec = scen.gen_cspec(r, cassis, tspec, n_objs=(2, 16 if big else 9), all_ids=True)
    pruned = False
    if k % 3 != 0 and len(cspec["members"]) > 1:
        # keep about a third of the roots: the rest is reachable only through references / elements / TOP features
        labs = sorted({l for _v, l in cspec["members"]})
        keep = set(r.sample(labs, max(1, len(labs) // 3)))
        cspec["members"] = [m for m in cspec["members"] if m[1] in keep]
        pruned = True
    da_feats = C02._extend(r, cassis, tspec, cspec)
    # sofa byte arrays shared by two sofas / indexed / referenced (d1bc860): each is one structure, written once
    knobs = C02.share_sofa_arrays(random.Random(sub ^ 0x50FA), cassis, tspec, da_feats, cspec)
    # third-wave widening (own streams; the rest of the scenario is what it was): collections as ordinary reference targets
    # (FSArray under a TOP-ranged feature / an FSList head / nested in an FSArray, elements not indexed), one feature name on
    # unrelated types with different ranges.  New structures get explicit ids clear of the ids the generator hands out.
    from harness.props import xmicommon as xc
    r1, r2 = random.Random(sub ^ 0x5A3E), random.Random(sub ^ 0xC011)
    above = C02.next_id(cspec) + 8
    wide = {}
    if r1.random() < 0.25:
        wide["same_name"] = xc.same_name_features(r1, cassis, tspec, cspec, above=above)
    if r2.random() < 0.4:
        wide["coll_targets"] = xc.collections_as_targets(r2, cassis, tspec, cspec, above=above,
                                                         schema=C02.schema2(cassis, tspec, da_feats))
    return {"tspec": tspec, "da_feats": da_feats, "cspec": cspec,
            "cfg": {"mode": MODES[k % 2], "pretty": (k // 2) % 2 == 0, "ascii": (k // 4) % 2 == 0, "pruned": pruned,
                    "array_knobs": knobs, "wide": wide}}


def generate(rng, tier):
    n = {"quick": 120, "thorough": 900, "search": 1500}[tier]
    for k in range(n):
        yield make_scenario(rng.randrange(1 << 30), k, big=(tier != "quick" and k % 5 == 0))


def run_impl(cassis, sc):
    cfg = sc["cfg"]
    _ts, cas, _views, objs = C02.build(cassis, sc)
    data = C02._to_json(cas, cfg["mode"], cfg["pretty"], cfg["ascii"], "str")
    doc = J.parse(data)
    return {"doc": doc, "canon": scen.canon(cas, "json"), "ids": {str(l): o.xmiID for l, o in objs.items()}}


def oracle(cassis, sc, obs):
    doc, want = obs["doc"], obs["canon"]
    msg = J.closed_problems(doc)
    if msg:
        return "closed: " + msg
    es = J.entries(doc)
    sofa_ids = sorted(i for i, m in es if J._is_sofa(m))
    fs_ids = sorted(i for i, m in es if not J._is_sofa(m))
    want_fs = sorted(int(i) for i in want["fs"])
    if fs_ids != want_fs:
        missing = sorted(set(want_fs) - set(fs_ids))
        extra = sorted(set(fs_ids) - set(want_fs))
        return f"complete: reachable structures missing from the document {missing}, written but not reachable {extra}"
    if sofa_ids != sorted(s["id"] for s in want["sofas"]):
        return f"complete: sofas written {sofa_ids}, in the CAS {sorted(s['id'] for s in want['sofas'])}"
    for o in sc["cspec"]["objs"]:
        if o["id"] is not None and obs["ids"][str(o["o"])] != o["id"]:
            return f"ids: structure {o['o']} had id {o['id']}, after the save it has {obs['ids'][str(o['o'])]}"
    schema = C02.schema2(cassis, sc["tspec"], sc["da_feats"])
    try:
        got = J.py_denote(schema, doc)
    except Exception as e:  # noqa - a document the independent reader cannot read
        return f"faithful: the document cannot be read ({type(e).__name__}: {e})"
    d = J.canon_diff(want, got)
    if d:
        return "faithful: in-memory CAS vs document: " + d
    return None


def render(sc, obs):
    import cassis
    schema = C02.schema2(cassis, sc["tspec"], sc["da_feats"])
    names = [t["name"] for t in sc["tspec"]] + ([C02.DA] if sc["da_feats"] else [])
    mode = {"FULL": "MFull", "MINIMAL": "MMinimal", "NONE": "MNone"}[sc["cfg"]["mode"]]
    t = (f"mkCase04 {scen.g_schema(schema, names)} {mode}\n ({C02.g_cas(sc)})\n ({J.gallina(obs['doc'])})\n "
         f"({scen.g_ccas(obs['canon'])})")
    return t.replace("%string", "")


nontrivial = C02.nontrivial


def shrink_candidates(sc):
    for c in C02.shrink_candidates(sc):
        yield c
    # fewer index members
    ms = sc["cspec"]["members"]
    if len(ms) > 1:
        for i in range(len(ms)):
            c = copy.deepcopy(sc)
            del c["cspec"]["members"][i]
            yield c


def signature(sc, msg):
    return {"what": (msg or "").split(":")[0]}
