"""C04, JSON half (sub-suite "json" of harness/props/C04.py): documents written by cas.to_json are complete, closed under
reachability and faithful.  Generators, builders and Gallina rendering are those of C02 (harness/props/C02.py); the
abstract document is harness/jsonabs.py (stdlib json only)."""
import copy
import random

from harness import jsonabs as J
from harness import scen
from harness.props import C02

ID = "C04json"
SUITE = "json"
COQ_TARGETS = ["JsonDoc.vo", "Json.vo", "JsonProofs.vo", "JsonProofs2.vo", "JsonLoadProofs.vo", "JsonLex.vo", "CorrC02.vo", "CorrC04json.vo", "Props/C02.vo", "PropsJson.vo"]
CORR_IMPORTS = "Base Heap Schema Canon Reach JsonDoc Json CorrC02 CorrC04json"
OPEN_SCOPES = ["string_scope", "list_scope", "Z_scope"]
CASE_TYPE, CHECK_FN, PREMISES_FN = "case04", "check_case04", "premises04"
SHARD_BYTES = 160_000
CASES_PER_SHARD = 60
CASE_TIMEOUT_S = 30
ENTRY = "cassis.cas.Cas.to_json / cassis.json.CasJsonSerializer.serialize / Cas._find_all_fs(include_inlinable_arrays_and_lists=True)"
RULE = (
    "JSON sub-suite of C04: the scenarios of C02 (random type system with deep hierarchies, reserved feature names, every "
    "primitive / array / list kind, FSArray with and without element type, TOP-ranged features, a String subtype, extended "
    "DocumentAnnotation; CAS of 1-3 views with ASCII/BMP/astral text, cycles, diamonds, shared and unshared collections, null "
    "elements, special floats, sofa URI / byte array with and without id -- the array in combinations shared with a second "
    "sofa, indexed in a view, referenced by a TOP- / ByteArray-ranged feature or an FSArray element --, one id-less structure) "
    "where in two thirds of the "
    "cases only about a third of the index members are kept, so that the other structures are reachable only through "
    "references, FSArray / FSList elements, TOP-ranged features or shared collections; in 40% collections sit where ordinary "
    "structures do (FSArray / primitive array / FSList under a TOP-ranged feature, an FSList head, nested in an FSArray; "
    "elements preferably not indexed), in 25% one feature name is declared on unrelated types with different ranges "
    "(xmicommon.collections_as_targets / same_name_features); in 30% the indexed structure with the largest explicit id is added "
    "exactly when that id is the generator's next one and a sofa byte array without id draws its id during the save; in 30% "
    "some indexed structures are taken over from another CAS (created without a sofa, indexed in a view of a second CAS, then "
    "added to the CAS under test; xmicommon.build_cas); type_system_mode FULL / MINIMAL, "
    "pretty_print and ensure_ascii alternate.  A case is non-trivial when it has >= 2 structures and a reference or "
    "collection slot is set."
)
TRUSTED = [
    "Coq 8.16.1 kernel and vm_compute; theorems of coq/PropsJson.v (from JsonProofs.v / JsonProofs2.v / JsonLex.v), all closed "
    "under the global context: C04_json_denote_save (the document denotes the canonical content of the CAS; the former "
    "premise stableb is discharged by ReachSpec.find_all_fs_stable), C04_json_ids_distinct, C04_json_refs_resolve, "
    "C04_json_entries, C04_json_std_lex_ok; doc_ok_json of the written document beyond its closed part is evaluated per case",
    "models coq/JsonDoc.v (the declarative reading denote_json = the independent reader, doc_ok_json, doc_ids_distinctb, "
    "doc_refs_resolveb), coq/Json.v (writer), coq/Reach.v (_find_all_fs), coq/Offsets.v, coq/Schema.v",
    "stdlib json as the text -> abstract JSON layer (harness/jsonabs.py; floats as float.hex() tokens); UTF-8 / base64 "
    "are Coq codecs (JsonProofs.std_lex_ok)",
    "harness/scen.py: builders through the public API, independent schema_of, canonical observation canon(cas, 'json') by "
    "identity-based traversal with its own successor relation (never _find_all_fs / to_* / typecheck)",
    "oracle: harness/jsonabs.closed_problems and py_denote (an independent Python reading of the format: stdlib base64, own "
    "UTF-16 offset count) compared with scen.canon",
]
ASSUMPTIONS = list(C02.ASSUMPTIONS)

MODES = ["FULL", "MINIMAL"]


def make_scenario(sub, k, big=False):
    import cassis
    r = random.Random(sub)
    tspec = scen.gen_tspec(r, n_types=r.randint(2, 8 if big else 6), max_feats=r.randint(1, 5))
    if r.random() < 0.25:
        for t in tspec:
            if t["super"] == scen.ANNOTATION and not any(f["name"] == "language" for f in t["feats"]):
                t["super"] = C02.DA
                break
    cspec = scen.gen_cspec(r, cassis, tspec, n_objs=(2, 16 if big else 9), all_ids=True)
    pruned = False
    if k % 3 != 0 and len(cspec["members"]) > 1:
        # keep about a third of the roots: the rest is reachable only through references / elements / TOP features
        labs = sorted({l for _v, l in cspec["members"]})
        keep = set(r.sample(labs, max(1, len(labs) // 3)))
        cspec["members"] = [m for m in cspec["members"] if m[1] in keep]
        pruned = True
    da_feats = C02._extend(r, cassis, tspec, cspec)
    # sofa byte arrays shared by two sofas / indexed / referenced (d1bc860): each is one structure, written once
    knobs = C02.share_sofa_arrays(random.Random(sub ^ 0x50FA), cassis, tspec, da_feats, cspec)
    # third-wave widening (own streams; the rest of the scenario is what it was): collections as ordinary reference targets
    # (FSArray under a TOP-ranged feature / an FSList head / nested in an FSArray, elements not indexed), one feature name on
    # unrelated types with different ranges.  New structures get explicit ids clear of the ids the generator hands out.
    from harness.props import xmicommon as xc
    r1, r2 = random.Random(sub ^ 0x5A3E), random.Random(sub ^ 0xC011)
    above = C02.next_id(cspec) + 8
    wide = {}
    if r1.random() < 0.25:
        wide["same_name"] = xc.same_name_features(r1, cassis, tspec, cspec, above=above)
    if r2.random() < 0.4:
        wide["coll_targets"] = xc.collections_as_targets(r2, cassis, tspec, cspec, above=above,
                                                         schema=C02.schema2(cassis, tspec, da_feats))
    # fourth-wave widening (own streams): explicit ids at the edge of the id generator with a sofa byte array that draws its
    # id during the save; indexed structures taken over from another CAS (xmicommon.build_cas)
    r3, r4 = random.Random(sub ^ 0xED6E), random.Random(sub ^ 0x7A4E)
    if r3.random() < 0.3:
        wide["edge_ids"] = edge_ids(r3, cspec)
    if r4.random() < 0.3 and not C02.in_time(cspec):
        wide["taken_over"] = xc.taken_over(r4, cspec)
    return {"tspec": tspec, "da_feats": da_feats, "cspec": cspec,
            "cfg": {"mode": MODES[k % 2], "pretty": (k // 2) % 2 == 0, "ascii": (k // 4) % 2 == 0, "pruned": pruned,
                    "array_knobs": knobs, "wide": wide}}


def edge_ids(r, cspec):
    """Explicit ids at the edge of the id generator (clause "all ids are distinct"): the indexed structure with the largest id
    is added right after the id just below it has been reserved, i.e. with exactly the id the generator would hand out next,
    and some sofa holds a byte array without id, which draws its id while the document is written.  Only which structure
    carries which id changes (two structures swap ids, or an indexed one moves to the free id below the largest): the set of
    ids the generator has seen, hence C02.id_plan / next_id and the distance of the other explicit ids from the generator,
    stay what they were.  Returns a description, or None when the scenario was left alone."""
    from harness.props import xmicommon as xc
    objs, views = cspec["objs"], cspec["views"]
    by = {o["o"]: o for o in objs}
    order = xc._member_order(cspec)
    if not order or any(by[l]["id"] is None for l in order) or C02.in_time(cspec):
        return None
    nxt = C02.next_id(cspec)

    def swap(a, b):
        a["id"], b["id"] = b["id"], a["id"]

    top = max(order, key=lambda l: by[l]["id"])
    j = order.index(top)
    if j == 0 and len(order) > 1:
        j = r.randrange(1, len(order))
        swap(by[top], by[order[j]])
        top = order[j]
    big = by[top]["id"]
    how = "already"
    if max([by[l]["id"] for l in order[:j]] + [len(views)]) != big - 1:
        if j == 0:
            return None
        mover = by[order[r.randrange(0, j)]]
        holder = next((o for o in objs if o["id"] == big - 1), None)
        if holder is None:
            mover["id"] = big - 1
            how = "moved"
        else:
            swap(mover, holder)
            how = "swapped"
    assert C02.next_id(cspec) == nxt and not C02.ids_clash(cspec)
    # something that draws a fresh id during the save: a sofa byte array without id
    arrays = [by[v["array"]] for v in views if v.get("array") is not None]
    consumer = "present"
    if not any(a["id"] is None for a in arrays):
        mem = set(order)
        loose = [a for a in arrays if a["o"] not in mem]
        ann_views = {o["slots"]["sofa"]["sofa"] for o in objs if o["slots"].get("sofa")}
        free = [v for v in views if v["name"] not in ann_views and v.get("array") is None]
        if loose:
            r.choice(loose)["id"] = None
            consumer = "id removed"
        elif free:
            lab = max(o["o"] for o in objs) + 1
            objs.append({"o": lab, "type": "uima.cas.ByteArray", "id": None,
                         "slots": {"elements": {"list": [{"i": r.choice([0, 255, 10])} for _ in range(r.choice([0, 1, 3]))]}}})
            v = r.choice(free)
            v["array"], v["text"] = lab, None
            consumer = "added"
        else:
            consumer = None
    return {"how": how, "sofa_array": consumer}


def build(cassis, sc):
    """C02.build; scenarios with structures taken over from another CAS go through xmicommon.build_cas (same steps, plus the
    source CAS)."""
    if not sc["cspec"].get("prior"):
        return C02.build(cassis, sc)
    from harness.props import xmicommon as xc
    ts = C02.build_ts(cassis, sc["tspec"], sc["da_feats"])
    cas, views, objs = xc.build_cas(cassis, ts, sc["cspec"])
    for i, v in enumerate(sc["cspec"]["views"]):
        if v.get("uri") is not None:
            views[i].sofa_uri = v["uri"]
        if v.get("array") is not None:
            views[i].sofa_array = objs[v["array"]]
    return ts, cas, views, objs


def generate(rng, tier):
    n = {"quick": 120, "thorough": 900, "search": 1500}[tier]
    for k in range(n):
        yield make_scenario(rng.randrange(1 << 30), k, big=(tier != "quick" and k % 5 == 0))


def run_impl(cassis, sc):
    cfg = sc["cfg"]
    _ts, cas, _views, objs = build(cassis, sc)
    data = C02._to_json(cas, cfg["mode"], cfg["pretty"], cfg["ascii"], "str")
    doc = J.parse(data)
    ids = {str(l): o.xmiID for l, o in objs.items()}
    try:
        cc = scen.canon(cas, "json")
    except RuntimeError as e:          # the id-keyed observation does not exist: two reachable structures carry one id
        return {"doc": doc, "canon": None, "canon_error": str(e), "ids": ids}
    return {"doc": doc, "canon": cc, "ids": ids}


def oracle(cassis, sc, obs):
    doc, want = obs["doc"], obs["canon"]
    msg = J.closed_problems(doc)
    if msg:
        return "closed: " + msg
    if want is None:
        return "closed: in memory after the save: " + obs["canon_error"]
    es = J.entries(doc)
    sofa_ids = sorted(i for i, m in es if J._is_sofa(m))
    fs_ids = sorted(i for i, m in es if not J._is_sofa(m))
    want_fs = sorted(int(i) for i in want["fs"])
    if fs_ids != want_fs:
        missing = sorted(set(want_fs) - set(fs_ids))
        extra = sorted(set(fs_ids) - set(want_fs))
        return f"complete: reachable structures missing from the document {missing}, written but not reachable {extra}"
    if sofa_ids != sorted(s["id"] for s in want["sofas"]):
        return f"complete: sofas written {sofa_ids}, in the CAS {sorted(s['id'] for s in want['sofas'])}"
    for o in sc["cspec"]["objs"]:
        if o["id"] is not None and obs["ids"][str(o["o"])] != o["id"]:
            return f"ids: structure {o['o']} had id {o['id']}, after the save it has {obs['ids'][str(o['o'])]}"
    schema = C02.schema2(cassis, sc["tspec"], sc["da_feats"])
    try:
        got = J.py_denote(schema, doc)
    except Exception as e:  # noqa - a document the independent reader cannot read
        return f"faithful: the document cannot be read ({type(e).__name__}: {e})"
    d = J.canon_diff(want, got)
    if d:
        return "faithful: in-memory CAS vs document: " + d
    return None


def render(sc, obs):
    import cassis
    if obs["canon"] is None:
        return None
    schema = C02.schema2(cassis, sc["tspec"], sc["da_feats"])
    names = [t["name"] for t in sc["tspec"]] + ([C02.DA] if sc["da_feats"] else [])
    mode = {"FULL": "MFull", "MINIMAL": "MMinimal", "NONE": "MNone"}[sc["cfg"]["mode"]]
    t = (f"mkCase04 {scen.g_schema(schema, names)} {mode}\n ({C02.g_cas(sc)})\n ({J.gallina(obs['doc'])})\n "
         f"({scen.g_ccas(obs['canon'])})")
    return t.replace("%string", "")


nontrivial = C02.nontrivial


def shrink_candidates(sc):
    for c in C02.shrink_candidates(sc):
        yield c
    for i in range(len(sc["cspec"].get("prior") or [])):
        c = copy.deepcopy(sc)
        del c["cspec"]["prior"][i]
        yield c
    # fewer index members
    ms = sc["cspec"]["members"]
    if len(ms) > 1:
        for i in range(len(ms)):
            c = copy.deepcopy(sc)
            del c["cspec"]["members"][i]
            yield c


def signature(sc, msg):
    return {"what": (msg or "").split(":")[0]}
