"""Shared by the XMI checks C04 and C01: scenario generation on top of harness/scen.py (own knobs: colliding packages,
structures reachable only through collections / TOP features / shared collections, id-less structures), rendering of the
model's input CAS, the float literal table, and an independent, scenario-driven reading of documents for the oracles.
Nothing here imports cassis' reader or writer."""
import copy
import json
import math
import re

from harness import scen, xmlabs
from harness.gallina import glist, gn, gopt, gstr, gz

T = scen.T
STATE = {}

# packages whose last segment collides with another package's, with the built-in prefixes (cas, xmi, tcas) or with a
# prefix the writer derives by appending a number (type0, type00)
PKG_POOLS = [
    ["c.type0", "a.type", "b.type", "d.type", "e.type00", "type"],
    ["x.cas", "y.xmi", "z.tcas", "w.cas", "cas", "uima.foo"],
    ["a.b", "a.c", "x.b", "y.b.b", "b", "q.b0"],
    ["m.type", "n.type", "m.type0", "n.type1", "o.type", "p.type0"],
]
JAVA_FLOAT = re.compile(r"^(NaN|-?Infinity|-?\d+(\.\d+)?(E-?\d+)?)$")


def rename_types(tspec, mapping):
    def m(n):
        return mapping.get(n, n)

    out = []
    for t in tspec:
        out.append({"name": m(t["name"]), "super": m(t["super"]),
                    "feats": [dict(f, range=m(f["range"]), elem=(m(f["elem"]) if f.get("elem") else f.get("elem")))
                              for f in t["feats"]]})
    return out


def gen_tspec(r, collide=True):
    tspec = scen.gen_tspec(r, n_types=r.choice([3, 6, 8]), max_feats=r.choice([3, 5]))
    if collide and r.random() < 0.75:
        pool = list(r.choice(PKG_POOLS))
        r.shuffle(pool)
        mapping = {}
        user = [t["name"] for t in tspec if t["name"] != "a.MyStr"]
        for i, n in enumerate(user):
            short = n.rsplit(".", 1)[-1]
            if r.random() < 0.12:
                mapping[n] = short + "X" + ("" if (short + "X") not in mapping.values() else str(i))   # no namespace at all
            else:
                mapping[n] = pool[i % len(pool)] + "." + short + ("" if i < len(pool) else "b")
        tspec = rename_types(tspec, mapping)
    return tspec


SRC_TEXT = "Joe wartete schon lange auf den Zug."


def build_cas(cassis, ts, cspec):
    """scen.build_cas; when the scenario names structures that are taken over from another CAS (cspec["prior"]: pairs
    [label, index of a view of the source CAS]) the same steps with one more in between: a source CAS over the same type
    system with cspec["src_views"] views is created, and each such structure is created the way a user creates an annotation
    (no sofa given), indexed in its view of the source CAS with the public add (which gives it the sofa of that view and
    reserves its id there) and only then added to the view of the CAS under test the scenario names.  Cas.add assigns the
    sofa of the view the structure is added to, so the CAS under test is the one scen.build_cas builds."""
    prior = {l: k for l, k in cspec.get("prior") or []}
    if not prior:
        return scen.build_cas(cassis, ts, cspec)
    cas = cassis.Cas(typesystem=ts)
    views = []
    for i, v in enumerate(cspec["views"]):
        view = cas if i == 0 else cas.create_view(v["name"])
        if v.get("text0") is not None and v.get("text") is not None:
            view.sofa_string = "".join(chr(c) for c in v["text0"])
        if v.get("text") is not None:
            view.sofa_string = "".join(chr(c) for c in v["text"])
        if v.get("mime") is not None:
            view.sofa_mime = v["mime"]
        views.append(view)
    vname = {v["name"]: views[i] for i, v in enumerate(cspec["views"])}
    src = cassis.Cas(typesystem=ts)
    src_views = []
    for i in range(cspec["src_views"]):
        names = [v["name"] for v in cspec["views"]]
        view = src if i == 0 else src.create_view(names[i] if i < len(names) else "translation%d" % i)
        view.sofa_string = SRC_TEXT
        src_views.append(view)
    objs = {}
    for o in cspec["objs"]:
        kw = {}
        if o.get("id") is not None:
            kw["xmiID"] = o["id"]
        objs[o["o"]] = ts.get_type(o["type"])(**kw)

    def conv(v):
        if v is None:
            return None
        for k in ("i", "b", "s"):
            if k in v:
                return v[k]
        if "f" in v:
            return scen.unfl(v["f"])
        if "ref" in v:
            return objs[v["ref"]]
        if "list" in v:
            return [conv(e) for e in v["list"]]
        if "sofa" in v:
            return vname[v["sofa"]].get_sofa()
        raise ValueError(v)

    for o in cspec["objs"]:
        for k, v in o["slots"].items():
            if o["o"] in prior and v is not None and "sofa" in v:
                continue                      # the sofa comes from the views the structure is added to
            setattr(objs[o["o"]], k, conv(v))
    for o in cspec["objs"]:
        if o["o"] in prior:
            src_views[prior[o["o"]]].add(objs[o["o"]])
    for vi, lab in cspec["members"]:
        views[vi].add(objs[lab], keep_id=True)
    return cas, views, objs


def build(cassis, sc):
    """scen.build_cas plus the sofa knobs of this module: views may carry "uri" and "array" (label of a ByteArray object)."""
    ts = scen.build_ts(cassis, sc["ts"])
    cas, views, objs = build_cas(cassis, ts, sc["cas"])
    for i, v in enumerate(sc["cas"]["views"]):
        if v.get("uri") is not None:
            views[i].sofa_uri = v["uri"]
        if v.get("array") is not None:
            views[i].sofa_array = objs[v["array"]]
    return ts, cas, views, objs


def gen_scenario(r, cassis, tier="quick"):
    tspec = gen_tspec(r)
    big = tier != "quick" and r.random() < 0.1
    cspec = scen.gen_cspec(r, cassis, tspec, n_objs=(1, 40 if big else 10), all_ids=True, max_views=3)
    objs = cspec["objs"]
    # sofa knobs: a URI, and / or a byte array holding the sofa data (an object of its own, sometimes also referenced
    # through a TOP-ranged feature or indexed, sometimes shared by two sofas)
    used = {o["id"] for o in objs} | set(range(1, len(cspec["views"]) + 1))
    last_arr = None
    for v in cspec["views"]:
        if r.random() < 0.2:
            v["uri"] = r.choice(["file:/tmp/a b.txt", "http://x/y?z=1&w=<2>", ""])
        if r.random() < 0.25:
            if last_arr is not None and r.random() < 0.3:
                v["array"] = last_arr
                continue
            lab = max(o["o"] for o in objs) + 1
            i = next(k for k in range(1, 10 ** 6) if k not in used)
            used.add(i)
            objs.append({"o": lab, "type": T + "ByteArray", "id": i,
                         "slots": {"elements": {"list": [{"i": r.choice([0, 1, 15, 16, 127, 128, 255])}
                                                         for _ in range(r.choice([0, 1, 4]))]}}})
            v["array"] = last_arr = lab
            if r.random() < 0.3:
                v["text"] = None
            if r.random() < 0.2:
                cspec["members"].append([r.randrange(len(cspec["views"])), lab])
    # bias: few roots, so that most structures are reachable only through references / collections
    if r.random() < 0.5 and len(cspec["members"]) > 1:
        keep = r.sample(cspec["members"], r.randint(1, max(1, len(cspec["members"]) // 3)))
        cspec["members"] = [m for m in cspec["members"] if m in keep]
    member_labels = {l for _v, l in cspec["members"]}
    # some structures without an id: the writer assigns one; the maximal id must belong to an indexed structure so that the
    # generator is ahead of every explicit id (otherwise a forced duplicate is possible, which is C09's subject)
    if r.random() < 0.3:
        top = max(objs, key=lambda o: o["id"])
        first = next(o for o in objs if o["o"] in member_labels)
        top["id"], first["id"] = first["id"], top["id"]
        for o in objs:
            if o["o"] not in member_labels and r.random() < 0.4:
                o["id"] = None
    return {"ts": tspec, "cas": cspec}


# ------------------------------------------------------------------------------------------------ third-wave widening
# Two families of legal configurations scen.gen_cspec never produces (used by C04 and its JSON half; gen_scenario itself is
# unchanged so that the scenarios of C01 / C16 stay what they were):
#  * one feature name declared on several unrelated types with different ranges / multipleReferencesAllowed
#    (clause "every non-null feature value, element order of collections": how a value is written depends on the
#    declaration of the feature of THAT type, not on the bare name);
#  * collections as ordinary reference targets: an FSArray (now and then a primitive array or an FSList node) held by a
#    feature of range uima.cas.TOP, by the head of an FSList node, or nested as an element of another FSArray, with elements
#    that are not indexed (clause "reachable through any chain of reference, array or list features", quantifier "FS
#    reachable only through FSArray/FSList elements, through features of range TOP").

SAME_NAME_RANGES = [  # (range, multipleReferencesAllowed)
    (T + "StringArray", None), (T + "StringArray", False), (T + "StringArray", True), (T + "StringList", None),
    (T + "StringList", True), (T + "IntegerArray", None), (T + "IntegerArray", True), (T + "DoubleArray", False),
    (T + "BooleanArray", None), (T + "ByteArray", None), (T + "IntegerList", None), (T + "FloatList", False),
    (T + "String", None), (T + "Integer", None), (T + "Boolean", None), (T + "Double", None),
    (scen.FS_ARRAY, None), (scen.FS_ARRAY, True), (scen.FS_LIST, False), (scen.FS_LIST, True), (scen.TOP, None),
]


def _is_plain(o):
    """an object that is not a collection object (array / list node) of the scenario"""
    return not o["type"].startswith(T) or o["type"] == scen.TOP


class _Adder:
    """New objects for a finished cspec: fresh labels, and ids that keep the scenario inside ids_okb (explicit ids distinct,
    apart from sofa ids, and - when some structure has no id - below the id generator, i.e. below the largest reserved id).
    `above` is the JSON half's policy: ids well above everything (its model computes the generator from the scenario)."""

    def __init__(self, r, cspec, above=None):
        self.r, self.cspec, self.objs = r, cspec, cspec["objs"]
        self.lab = max(o["o"] for o in self.objs)
        nviews = len(cspec["views"])
        self.used = {o["id"] for o in self.objs if o["id"] is not None} | set(range(1, nviews + 1))
        self.idless = any(o["id"] is None for o in self.objs)
        member = {l for _v, l in cspec["members"]}
        self.cap = max([o["id"] for o in self.objs if o["o"] in member and o["id"] is not None] + [nviews])
        self.above = above

    def fresh_id(self):
        if self.above is not None:
            i = max(self.used | {self.above}) + self.r.randint(1, 3)
        elif self.idless:
            free = [k for k in range(1, self.cap) if k not in self.used]
            if not free or self.r.random() < 0.3:
                return None                      # one more structure that gets its id during the save
            i = self.r.choice(free)
        else:
            i = next(k for k in range(self.r.choice([1, 1, max(self.used) + 1]), 10 ** 6) if k not in self.used)
        self.used.add(i)
        return i

    def new(self, type_, slots):
        self.lab += 1
        self.objs.append({"o": self.lab, "type": type_, "id": self.fresh_id(), "slots": slots})
        return self.lab

    def mklist(self, base, elems):
        cur = self.new(T + "Empty" + base + "List", {})
        for e in reversed(elems):
            cur = self.new(T + "NonEmpty" + base + "List", {"head": e, "tail": {"ref": cur}})
        return cur


def _value_for(r, add, schema, rng, plain):
    """a value for a feature of range rng, built like scen.gen_cspec builds them"""
    prim = next((a for a in ([rng] + schema.get(rng, {"anc": []})["anc"]) if a in scen.PRIMS), None)
    n = r.choice([0, 1, 2, 3])

    def ref_or_null():
        return None if r.random() < 0.15 else {"ref": r.choice(plain)["o"]}

    if prim:
        return scen.rval(r, scen.PRIMS[prim])
    if rng in scen.ARRS:
        return {"ref": add.new(rng, {"elements": {"list": [scen.rval(r, scen.ARRS[rng]) for _ in range(n)]}})}
    if rng in scen.LISTS:
        return {"ref": add.mklist(scen.LISTS[rng][0], [scen.rval(r, scen.LISTS[rng][1]) for _ in range(n)])}
    if rng == scen.FS_ARRAY:
        return {"ref": add.new(rng, {"elements": {"list": [ref_or_null() for _ in range(n)]}})}
    if rng == scen.FS_LIST:
        return {"ref": add.mklist("FS", [ref_or_null() for _ in range(n)])}
    c = [o for o in plain if rng in schema[o["type"]]["anc"]]
    return {"ref": r.choice(c)["o"]} if c else None


def same_name_features(r, cassis, tspec, cspec, above=None):
    """Declares one new feature name on 2-3 types none of which is an ancestor of another, each time with another range /
    multipleReferencesAllowed, and gives the structures of these types values.  Returns the declarations made."""
    user = [t for t in tspec if t["super"] != T + "String"]
    by = {t["name"]: t for t in tspec}

    def ancestors(t):
        out = []
        while t is not None:
            out.append(t["name"])
            t = by.get(t["super"])
        return out

    existing = {f["name"] for t in tspec for f in t["feats"]}
    name = next(n for n in ["labels", "k0", "k1", "k2"] if n not in existing)
    order = list(user)
    r.shuffle(order)
    chosen = []
    for t in order:
        if all(t["name"] not in ancestors(u) and u["name"] not in ancestors(t) for u in chosen):
            chosen.append(t)
        if len(chosen) == 3:
            break
    chosen = chosen[:r.choice([2, 2, 3])]
    if len(chosen) < 2:
        return []
    ranges = r.sample(SAME_NAME_RANGES, len(chosen))
    if r.random() < 0.5:  # one of them a collection of strings: the kinds whose encoding differs most from the others'
        ranges[r.randrange(len(ranges))] = r.choice(SAME_NAME_RANGES[:5])
    if len({x[0] for x in ranges}) == 1 and len({bool(x[1]) for x in ranges}) == 1:
        return []
    made = []
    for t, (rng, multi) in zip(chosen, ranges):
        t["feats"].append({"name": name, "range": rng, "elem": None, "multi": multi})
        made.append([t["name"], name, rng, multi])
    schema = scen.schema_of(cassis, tspec)
    add = _Adder(r, cspec, above)
    plain = [o for o in cspec["objs"] if _is_plain(o)]
    for o in plain:
        for t, (rng, _multi) in zip(chosen, ranges):
            if t["name"] in schema[o["type"]]["anc"] and r.random() < 0.85:
                v = _value_for(r, add, schema, rng, plain)
                if v is not None:
                    o["slots"][name] = v
    return made


def collections_as_targets(r, cassis, tspec, cspec, above=None, schema=None):
    """FSArrays (now and then a primitive array or an FSList) where scen.gen_cspec only puts plain structures: as the value of
    a TOP-ranged feature, as the head of an FSList node, as an element of an FSArray whose holders do not restrict the
    element type; their elements are preferably structures that are not indexed.  Returns the number of collections placed."""
    schema = schema or scen.schema_of(cassis, tspec)
    objs = cspec["objs"]
    by = {o["o"]: o for o in objs}
    plain = [o for o in objs if _is_plain(o)]
    if not plain:
        return 0
    member = {l for _v, l in cspec["members"]}
    loose = [o for o in plain if o["o"] not in member] or plain
    add = _Adder(r, cspec, above)
    # element types demanded by the features that hold an FSArray
    elem_of = {}
    for o in objs:
        for f in schema.get(o["type"], {"feats": []})["feats"]:
            v = o["slots"].get(f[0])
            if v and "ref" in v and by.get(v["ref"], {}).get("type") == scen.FS_ARRAY:
                elem_of.setdefault(v["ref"], []).append(f[3])
    places = []
    for o in list(objs):
        if _is_plain(o):
            for f in schema[o["type"]]["feats"]:
                if f[2] == scen.TOP and f[0] != "sofa":
                    places.append(("slot", o, f[0]))
        elif o["type"] == T + "NonEmptyFSList":
            places.append(("slot", o, "head"))
        elif o["type"] == scen.FS_ARRAY and all(e in (None, scen.TOP) for e in elem_of.get(o["o"], [])):
            places.append(("elem", o, None))
    r.shuffle(places)
    placed, last = 0, None

    def fs_array(depth):
        elems = []
        for _ in range(r.choice([1, 1, 2, 3])):
            x = r.random()
            if x < 0.1:
                elems.append(None)
            elif x < 0.3 and depth < 2:
                elems.append({"ref": fs_array(depth + 1)})
            elif x < 0.36:
                elems.append({"ref": add.new(T + "StringArray", {"elements": {"list": [scen.rval(r, "str") for _ in range(r.choice([0, 2]))]}})})
            elif x < 0.42:
                elems.append({"ref": add.mklist("FS", [{"ref": r.choice(loose)["o"]}])})
            else:
                elems.append({"ref": r.choice(loose if r.random() < 0.8 else plain)["o"]})
        return add.new(scen.FS_ARRAY, {"elements": {"list": elems}})

    for kind, o, slot in places[:r.choice([1, 2, 3, 5])]:
        if last is not None and r.random() < 0.25:
            lab = last                                    # the same collection at a second place
        elif kind == "slot" and r.random() < 0.12:
            k = r.choice(["StringArray", "IntegerArray"])
            lab = add.new(T + k, {"elements": {"list": [scen.rval(r, scen.ARRS[T + k]) for _ in range(r.choice([0, 1, 3]))]}})
        elif kind == "slot" and r.random() < 0.1:
            lab = add.mklist("FS", [{"ref": r.choice(loose)["o"]}, {"ref": fs_array(1)}])
        else:
            lab = last = fs_array(0)
        if kind == "slot":
            o["slots"][slot] = {"ref": lab}
        else:
            l = o["slots"].setdefault("elements", {"list": []})["list"]
            if l and r.random() < 0.5:
                l[r.randrange(len(l))] = {"ref": lab}
            else:
                l.insert(r.randint(0, len(l)), {"ref": lab})
        placed += 1
    return placed


# ------------------------------------------------------------------------------------------------ fourth-wave widening
# Two more families of CAS graphs of the quantifier that the generators never produced (C04 and its JSON half):
#  * explicit ids at the edge of the id generator (clause "all ids are distinct"): the ids of the indexed structures are not
#    scattered over a wide range but sit, as in a CAS whose structures were numbered by another CAS, right above the sofa ids,
#    the largest of them being added exactly when it is the id the generator would hand out next (sometimes one above),
#    while something still draws a fresh id during the save: the byte array of a sofa that has no id and is neither indexed
#    nor referenced, structures that are only reachable and have no id;
#  * structures taken over from another CAS (clause "every ... sofa reference and view member resolves inside the
#    document"): an indexed structure was created without a sofa, indexed in a view of a second CAS - mostly a view whose
#    sofa has an xmi:id no sofa of the CAS under test has - and is then added to its view of the CAS under test.


def _member_order(cspec):
    order = []
    for _v, l in cspec["members"]:
        if l not in order:
            order.append(l)
    return order


def _referenced(cspec):
    out = set()

    def refs(v):
        if v is None:
            return
        if "ref" in v:
            out.add(v["ref"])
        for e in v.get("list", []):
            refs(e)

    for o in cspec["objs"]:
        for v in o["slots"].values():
            refs(v)
    return out


def idless_sofa_array(r, cspec):
    """Makes sure some sofa holds a byte array that gets its id only while the document is written (no id, not indexed, not
    referenced): takes the id from such an array if there is one, else gives a view that has no array a new one.  Returns
    what it did."""
    objs, views = cspec["objs"], cspec["views"]
    by = {o["o"]: o for o in objs}
    busy = {l for _v, l in cspec["members"]} | _referenced(cspec)
    private = [v["array"] for v in views if v.get("array") is not None and v["array"] not in busy]
    if private:
        if all(by[a]["id"] is not None for a in private):
            by[r.choice(private)]["id"] = None
            return "id removed"
        return "present"
    free = [v for v in views if v.get("array") is None]
    if not free:
        return None
    lab = max(o["o"] for o in objs) + 1
    objs.append({"o": lab, "type": T + "ByteArray", "id": None,
                 "slots": {"elements": {"list": [{"i": r.choice([0, 1, 127, 128, 255])} for _ in range(r.choice([0, 1, 3]))]}}})
    r.choice(free)["array"] = lab
    return "added"


def edge_ids(r, cspec):
    """Renumbers the explicit ids (which structure carries which id; nothing else changes): they become the dense block right
    above the sofa ids.  `last`: the largest id belongs to an indexed structure that is added right after the second largest
    has been reserved, i.e. when it is the very id the generator would hand out next; the other ids are shuffled.  `dense`:
    every indexed structure is added with exactly the next id (ids in add order); structures that are not indexed then carry
    no id, because no id below the generator is left.  Now and then the last id is one above the edge.  All explicit ids stay
    distinct, apart from the sofa ids and below the generator (ASSUMPTIONS).  Returns a description, or None when the
    scenario was left alone."""
    objs, nviews = cspec["objs"], len(cspec["views"])
    by = {o["o"]: o for o in objs}
    order = _member_order(cspec)
    if not order or any(by[l]["id"] is None for l in order):
        return None
    consumer = idless_sofa_array(r, cspec)
    explicit = [o for o in objs if o["id"] is not None]
    above = 1 if r.random() < 0.15 else 0
    if len(order) == 1 or r.random() < 0.35:
        for o in explicit:
            o["id"] = None
        for k, l in enumerate(order):
            by[l]["id"] = nviews + 1 + k + (above if k == len(order) - 1 else 0)
        return {"mode": "dense", "above": above, "sofa_array": consumer}
    j = r.randrange(1, len(order))
    i = r.randrange(0, j)
    top = nviews + len(explicit)
    rest = list(range(nviews + 1, top - 1))
    r.shuffle(rest)
    for o in explicit:
        if o["o"] == order[j]:
            o["id"] = top + above
        elif o["o"] == order[i]:
            o["id"] = top - 1
        else:
            o["id"] = rest.pop()
    return {"mode": "last", "above": above, "sofa_array": consumer}


def taken_over(r, cspec, explicit_only=True):
    """Marks indexed structures as taken over from another CAS (see build_cas): structures that are indexed in exactly one
    view and, if they carry a sofa, carry the sofa of that view.  The source CAS has one or two views more than the CAS under
    test; four times out of five the structure comes from one of these additional views.  Returns the number marked."""
    by = {o["o"]: o for o in cspec["objs"]}
    nviews = len(cspec["views"])
    count = {}
    for vi, l in cspec["members"]:
        count.setdefault(l, []).append(vi)
    cand = []
    for l, vs in count.items():
        o = by[l]
        so = o["slots"].get("sofa")
        if len(vs) != 1 or (explicit_only and o["id"] is None):
            continue
        if so is not None and so.get("sofa") != cspec["views"][vs[0]]["name"]:
            continue
        cand.append(l)
    if not cand:
        return 0
    total = nviews + r.choice([1, 1, 2])
    prior = []
    for l in cand:
        if r.random() < 0.6 or not prior:
            prior.append([l, r.randrange(nviews, total) if r.random() < 0.8 else r.randrange(0, nviews)])
    cspec["prior"], cspec["src_views"] = prior, total
    return len(prior)


def widen(seed, cassis, sc):
    """C04's post-processing of a gen_scenario result; every choice from its own streams so that the rest of the scenario is
    what it was before (and the earlier catches with it)."""
    import random
    r1, r2 = random.Random(seed ^ 0x5A3E), random.Random(seed ^ 0xC011)
    r3, r4 = random.Random(seed ^ 0xED6E), random.Random(seed ^ 0x7A4E)
    sc["knobs"] = {}
    if r1.random() < 0.4:
        sc["knobs"]["same_name"] = same_name_features(r1, cassis, sc["ts"], sc["cas"])
    if r2.random() < 0.45:
        sc["knobs"]["coll_targets"] = collections_as_targets(r2, cassis, sc["ts"], sc["cas"])
    if r3.random() < 0.25:
        sc["knobs"]["edge_ids"] = edge_ids(r3, sc["cas"])
    if r4.random() < 0.3:
        sc["knobs"]["taken_over"] = taken_over(r4, sc["cas"])
    return sc


# ------------------------------------------------------------------------------------------------ floats


def java_lexeme(h):
    """The literal of the double with hex form h in a document: Python's shortest repr in Java spelling."""
    x = scen.unfl(h)
    if math.isnan(x):
        return "NaN"
    if math.isinf(x):
        return "Infinity" if x > 0 else "-Infinity"
    return repr(x).upper().replace("E+", "E")


def parse_java_float(s):
    if s == "NaN":
        return float("nan")
    if s in ("Infinity", "-Infinity"):
        return float(s.replace("Infinity", "inf"))
    return float(s)


def floats_of(cspec):
    out = set()

    def walk(v):
        if v is None:
            return
        if "f" in v:
            out.add(v["f"])
        if "list" in v:
            for e in v["list"]:
                walk(e)

    for o in cspec["objs"]:
        for v in o["slots"].values():
            walk(v)
    return sorted(out)


def g_ftab(cspec):
    return glist(["(%s, %s)" % (gstr(java_lexeme(h)), gstr(h)) for h in floats_of(cspec)])


def float_contract(cspec):
    """flt_rt / flt_tok: the literal is one token, Java-style, and reads back as the same double."""
    for h in floats_of(cspec):
        lex = java_lexeme(h)
        if not JAVA_FLOAT.match(lex):
            return f"float literal {lex!r} of {h} is not a Java-style token"
        if scen.fl(parse_java_float(lex)) != h:
            return f"float literal {lex!r} does not read back as {h}"
    return None


# ------------------------------------------------------------------------------------------------ model input


def g_cas(cspec, ids, sofas):
    """Heap.cas term: views in order with the sofa ids the implementation has, members in add order, objects with the
    ids they have after the save (explicit ones are the scenario's)."""
    members = {}
    for vi, lab in cspec["members"]:
        members.setdefault(vi, []).append(lab)
    views = []
    for i, v in enumerate(cspec["views"]):
        sid, num = sofas[i]
        views.append("mkView (mkSofa %s %s %s %s %s %s %s) %s" % (
            gz(sid), gz(num), gstr(v["name"]), scen.g_text(v.get("text")), gopt(v.get("mime"), gstr),
            gopt(v.get("uri"), gstr), gopt(v.get("array"), gn), glist([gn(l) for l in members.get(i, [])])))
    sp = copy.deepcopy(cspec)
    mx = max([s[0] for s in sofas] + [0])
    for o in sp["objs"]:
        o["id"] = ids.get(o["o"], ids.get(str(o["o"]), o.get("id")))
        if o["id"] is not None:
            mx = max(mx, o["id"])
    return "mkCas %s\n %s %s" % (glist(views, ";\n  "), scen.g_heap(sp), gz(mx + 1))


def schema_and_names(cassis, sc):
    schema = scen.schema_of(cassis, sc["ts"])
    names = scen.used_type_names(schema, sc["cas"])
    # uima.cas.NULL is the type the reader gives <cas:NULL>: part of every TypeSystem, needed by the reader's premises (C01)
    for n in (T + "NULL", T + "TOP"):
        if n in schema and n not in names:
            names.append(n)
    return schema, sorted(names)


# ------------------------------------------------------------------------------------------------ independent reading


def expected_ns(type_name):
    if "." not in type_name:
        return "http:///uima/noNamespace.ecore", type_name
    pkg, short = type_name.rsplit(".", 1)
    return "http:///" + pkg.replace(".", "/") + ".ecore", short


def prim_of(schema, rng):
    for a in [rng] + (schema[rng]["anc"] if rng in schema else []):
        if a in scen.PRIMS:
            return a
    return None


def utf16_offset(text, cp):
    return sum(2 if c > 0xFFFF else 1 for c in text[:cp])


def duplicate_ids(doc):
    ids = [xmlabs.attr(e, "xmi:id") for e in doc["elems"] if xmlabs.kind(e) != "View"]
    dup = sorted({i for i in ids if ids.count(i) > 1})
    return f"xmi:id used twice: {dup[:5]}" if dup else None


def check_closed(doc, cc):
    """every id once, every reference resolves, each reachable FS exactly once, nothing else, namespace = own package."""
    ids, sofa_ids, fs_elems = [], set(), {}
    for e in doc["elems"]:
        k = xmlabs.kind(e)
        if k == "View":
            continue
        i = xmlabs.attr(e, "xmi:id")
        if i is None or not re.fullmatch(r"-?\d+", i):
            return f"element {e['tag']} without a numeric xmi:id: {i!r}"
        i = int(i)
        ids.append(i)
        if k == "NULL" and i != 0:
            return "cas:NULL with id %d" % i
        if k == "Sofa":
            sofa_ids.add(i)
        if k == "FS":
            fs_elems.setdefault(i, []).append(e)
    dup = sorted({i for i in ids if ids.count(i) > 1})
    if dup:
        return f"xmi:id used twice: {dup[:5]}"
    want = {int(i) for i in cc["fs"]}
    missing = sorted(want - set(fs_elems))
    extra = sorted(set(fs_elems) - want)
    if missing:
        return f"reachable feature structures missing from the document: ids {missing[:8]}"
    if extra:
        return f"elements for feature structures that are not reachable: ids {extra[:8]}"
    for i, d in cc["fs"].items():
        e = fs_elems[int(i)][0]
        ns, tag = expected_ns(d["type"])
        if (e["ns"], e["tag"]) != (ns, tag):
            return f"id {i} of type {d['type']} written as {{{e['ns']}}}{e['tag']}, expected {{{ns}}}{tag}"
    if {s["id"] for s in cc["sofas"]} != sofa_ids:
        return f"sofa elements {sorted(sofa_ids)} but the CAS has sofas {[s['id'] for s in cc['sofas']]}"
    for i, d in cc["fs"].items():
        for xn, v in d["feats"].items():
            if v is not None and v[0] == "sofa":
                got = xmlabs.attr(fs_elems[int(i)][0], xn)
                if v[1] not in sofa_ids or got != str(v[1]):
                    return (f"sofa reference: id {i} ({d['type']}) carries the sofa with id {v[1]}, written {xn}={got!r}; "
                            f"the sofas of the document are {sorted(sofa_ids)}")
    views = [e for e in doc["elems"] if xmlabs.kind(e) == "View"]
    seen = set()
    for v in views:
        so = xmlabs.attr(v, "sofa")
        if so is None or not so.isdigit() or int(so) not in sofa_ids or int(so) in seen:
            return f"view with sofa {so!r}: not a sofa of the document, or a second view for it"
        seen.add(int(so))
        for m in (xmlabs.attr(v, "members") or "").split():
            if not m.isdigit() or int(m) not in fs_elems:
                return f"view member {m!r} of sofa {so} is not an element of the document"
    return None


def check_faithful(doc, cc, schema):
    """Scenario-driven reading of each element: every non-null feature value, element order of collections, sofa data,
    view membership, as the UIMA XMI rules write them (independent of the Coq denotation and of cassis' reader)."""
    elems = {int(xmlabs.attr(e, "xmi:id")): e for e in doc["elems"] if xmlabs.kind(e) == "FS"}
    all_ids = set(elems) | {s["id"] for s in cc["sofas"]}
    sofa_text = {s["id"]: s["text"] for s in cc["sofas"]}

    def tok(kind_, v):
        if v is None:
            return "0" if kind_ == "ref" else None
        k = v[0]
        if k == "i":
            return str(v[1])
        if k == "b":
            return "true" if v[1] else "false"
        if k == "f":
            return java_lexeme(v[1])
        if k in ("ref", "sofa"):
            return str(v[1])
        if k == "s":
            return v[1]
        return None

    def strs(l):
        return [("" if v is None else v[1]) for v in l]

    for i, d in cc["fs"].items():
        e = elems[int(i)]
        tn = d["type"]
        attrs = dict(e["attrs"])
        used_attrs, used_kids = {"xmi:id"}, set()
        feats = {f[1]: f for f in schema[tn]["feats"]}
        is_ann = scen.ANNOTATION in schema[tn]["anc"]
        for xn, v in d["feats"].items():
            f = feats[xn]
            rng, multi = f[2], f[4]
            kids = [t for k, t in e["kids"] if k == xn]
            where = f"id {i} ({tn}) feature {xn}"
            if v is None:
                if xn in attrs or kids:
                    return f"{where}: null in memory but written as {attrs.get(xn, kids)!r}"
                continue
            if tn in scen.ARRS or tn == scen.FS_ARRAY:          # array stored as its own element
                elems_v = v[1]
                kind_ = tn
            elif v[0] == "coll":
                kind_, elems_v = v[1], v[2] or []
            else:
                kind_, elems_v = None, None
            if kind_ is not None:
                if kind_ in (T + "StringArray", T + "StringList"):
                    want_k = strs(elems_v)
                    if kids != want_k or (not elems_v and attrs.get(xn) != "") or (elems_v and xn in attrs):
                        return f"{where}: strings {want_k!r} written as children {kids!r} / attribute {attrs.get(xn)!r}"
                    used_kids.add(xn)
                    used_attrs.add(xn)
                    continue
                if kind_ == T + "ByteArray":
                    want = "".join("%02X" % x[1] for x in elems_v)
                    if xn not in attrs or attrs[xn].upper() != want or len(attrs[xn]) != len(want):
                        return f"{where}: bytes {want!r} written as {attrs.get(xn)!r}"
                    used_attrs.add(xn)
                    continue
                want = [tok("ref" if kind_ in (scen.FS_ARRAY, scen.FS_LIST) else "prim", x) for x in elems_v]
                if xn not in attrs or attrs[xn].split() != want:
                    return f"{where}: elements {want!r} written as {attrs.get(xn)!r}"
                used_attrs.add(xn)
                continue
            want = tok("prim", v)
            if is_ann and xn in ("begin", "end") and v[0] == "i":
                so = d["feats"].get("sofa")
                text = sofa_text.get(so[1]) if so else None
                if text is not None:
                    want = str(utf16_offset(text, v[1]))
            if attrs.get(xn) != want:
                return f"{where}: value {v!r} written as {attrs.get(xn)!r}, expected {want!r}"
            if v[0] in ("ref", "sofa") and v[1] not in all_ids:
                return f"{where}: reference to {v[1]} does not resolve"
            used_attrs.add(xn)
        stray = sorted(set(attrs) - used_attrs)
        if stray:
            return f"id {i} ({tn}): attributes {stray} do not belong to a feature with a value"
        stray = sorted({k for k, _t in e["kids"]} - used_kids)
        if stray:
            return f"id {i} ({tn}): child elements {stray} do not belong to a feature with a value"
        for xn, v in d["feats"].items():
            vals = (v[1] if v and v[0] == "list" else (v[2] or []) if v and v[0] == "coll" else [v])
            for x in vals:
                if x is not None and x[0] in ("ref", "sofa") and x[1] not in all_ids:
                    return f"id {i} ({tn}) feature {xn}: reference to {x[1]} does not resolve"
    sofas = {int(xmlabs.attr(e, "xmi:id")): e for e in doc["elems"] if xmlabs.kind(e) == "Sofa"}
    views = {int(xmlabs.attr(e, "sofa")): e for e in doc["elems"] if xmlabs.kind(e) == "View"}
    for s in cc["sofas"]:
        a = dict(sofas[s["id"]]["attrs"])
        text = None if s["text"] is None else "".join(chr(c) for c in s["text"])
        got = (a.get("sofaNum"), a.get("sofaID"), a.get("mimeType"), a.get("sofaString"), a.get("sofaURI"), a.get("sofaArray"))
        want = (str(s["num"]), s["name"], s["mime"], text, s["uri"], None if s["arr"] is None else str(s["arr"]))
        if got != want:
            return f"sofa {s['id']}: written {got!r}, in memory {want!r}"
        if s["arr"] is not None and s["arr"] not in elems:
            return f"sofa {s['id']}: sofaArray {s['arr']} is not an element of the document"
        mem = [int(m) for m in (xmlabs.attr(views[s["id"]], "members") or "").split()] if s["id"] in views else []
        if sorted(mem) != s["members"]:
            return f"view of sofa {s['id']}: members {mem} but indexed {s['members']}"
    return None


# ------------------------------------------------------------------------------------------------ shrinking / stats


def shrink_candidates(sc):
    cs = sc["cas"]
    for i in range(len(cs["members"])):
        if len(cs["members"]) > 1:
            c = copy.deepcopy(sc)
            del c["cas"]["members"][i]
            yield c
    referenced = set()

    def refs(v):
        if v is None:
            return
        if "ref" in v:
            referenced.add(v["ref"])
        if "list" in v:
            for e in v["list"]:
                refs(e)

    for o in cs["objs"]:
        for v in o["slots"].values():
            refs(v)
    for v in cs["views"]:
        if v.get("array") is not None:
            referenced.add(v["array"])
    member = {l for _v, l in cs["members"]}
    for i, o in enumerate(cs["objs"]):
        if o["o"] not in referenced and o["o"] not in member:
            c = copy.deepcopy(sc)
            del c["cas"]["objs"][i]
            yield c
    for i, o in enumerate(cs["objs"]):
        for k in list(o["slots"]):
            if k in ("sofa", "begin", "end", "elements", "head", "tail"):
                continue
            c = copy.deepcopy(sc)
            del c["cas"]["objs"][i]["slots"][k]
            yield c
    for i, o in enumerate(cs["objs"]):
        v = o["slots"].get("elements")
        if v and len(v["list"]) > 0:
            for j in range(len(v["list"])):
                c = copy.deepcopy(sc)
                del c["cas"]["objs"][i]["slots"]["elements"]["list"][j]
                yield c
    used_types = {o["type"] for o in cs["objs"]}
    for i in range(len(cs.get("prior") or [])):
        c = copy.deepcopy(sc)
        del c["cas"]["prior"][i]
        yield c
    for i, t in enumerate(sc["ts"]):
        if t["name"] in used_types or any(u["super"] == t["name"] for u in sc["ts"]):
            continue
        if any(f["range"] == t["name"] or f.get("elem") == t["name"] for u in sc["ts"] for f in u["feats"]):
            continue
        c = copy.deepcopy(sc)
        del c["ts"][i]
        yield c
    for i, t in enumerate(sc["ts"]):
        for j, f in enumerate(t["feats"]):
            if any(scen.pyname(f["name"]) in o["slots"] for o in cs["objs"]):
                continue
            c = copy.deepcopy(sc)
            del c["ts"][i]["feats"][j]
            yield c


def stats(scenarios):
    kinds = {}
    n_objs, n_idless, reach_only, collide = [], 0, 0, 0
    for sc in scenarios:
        cs = sc["cas"]
        n_objs.append(len(cs["objs"]))
        n_idless += sum(1 for o in cs["objs"] if o["id"] is None)
        member = {l for _v, l in cs["members"]}
        reach_only += sum(1 for o in cs["objs"] if o["o"] not in member)
        lasts = [t["name"].rsplit(".", 2)[-2] if t["name"].count(".") else "" for t in sc["ts"]]
        pk = {t["name"].rsplit(".", 1)[0] for t in sc["ts"] if "." in t["name"]}
        segs = [p.rsplit(".", 1)[-1] for p in pk]
        if len(set(segs)) < len(segs) or any(s in ("cas", "xmi", "tcas") or re.search(r"\d$", s) for s in segs):
            collide += 1
        for t in sc["ts"]:
            for f in t["feats"]:
                k = f["range"].rsplit(".", 1)[-1] + ("*" if f.get("multi") else "")
                kinds[k] = kinds.get(k, 0) + 1
    return {"cases": len(scenarios), "max_objs": max(n_objs or [0]), "objs_total": sum(n_objs), "idless_objs": n_idless,
            "not_indexed_objs": reach_only, "cases_with_colliding_packages": collide, "feature_ranges": kinds}


def nontrivial(sc):
    cs = sc["cas"]
    if len(cs["objs"]) < 2:
        return False
    for o in cs["objs"]:
        for k, v in o["slots"].items():
            if v and ("ref" in v or "list" in v):
                return True
    return False


def key(sc):
    return json.dumps(sc, sort_keys=True)
