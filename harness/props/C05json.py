"""C05, JSON half (sub-suite "json" of harness/props/C05.py): loading a JSON-CAS document depends on what it says, not on
how it is laid out.  Documents: cassis' own to_json output on the scenarios of C02, and the repository fixtures
tests/test_files/json/** lifted by harness/jsonabs.py (stdlib json).  Presentation variants come from jsonabs' dumb
writer; every variant is loaded by load_cas_from_json and observed by scen.canon."""
import copy
import os
import random

from harness import jsonabs as J
from harness import scen
from harness.props import C02

ID = "C05json"
SUITE = "json"
COQ_TARGETS = ["JsonDoc.vo", "Json.vo", "JsonProofs.vo", "JsonProofs2.vo", "JsonLoadProofs.vo", "JsonLex.vo", "CorrC02.vo", "CorrC05json.vo", "Props/C02.vo", "PropsJson.vo"]
CORR_IMPORTS = "Base Heap Schema Canon Reach JsonDoc Json CorrC02 CorrC05json"
OPEN_SCOPES = ["string_scope", "list_scope", "Z_scope"]
CASE_TYPE, CHECK_FN, PREMISES_FN = "case05", "check_case05", "premises05"
SHARD_BYTES = 170_000
CASES_PER_SHARD = 40
CASE_TIMEOUT_S = 40
ENTRY = "cassis.json.load_cas_from_json / CasJsonDeserializer.deserialize"
RULE = (
    "JSON sub-suite of C05.  Documents: (a) what cassis itself writes (type_system_mode FULL / MINIMAL / NONE) for the "
    "scenarios of C02 — random type systems, 1-3 views with ASCII/BMP/astral text (UTF-16 offsets differ from code point "
    "offsets), mime types, sofa URI / byte arrays (also shared by two sofas, indexed in a view, referenced by a feature or an "
    "FSArray element: the reader fetches such an array ahead of its turn and must not build it a second time), shared and "
    "unshared collections, null elements, special floats, "
    "extended DocumentAnnotation; (b) all 14 JSON fixtures of tests/test_files/json (with typesystem.xml where present), "
    "each twice.  Every document is presented in 3 variants by the harness's own writer: %FEATURE_STRUCTURES as array or as "
    "id-keyed object, FS order kept / reversed / shuffled / sofas last (forward references to sofas and to sofa byte "
    "arrays), %TYPES declaration order and feature declaration order kept / reversed / shuffled, member order of every "
    "object and of the document kept / reversed / shuffled, pretty or compact, ensure_ascii or not, null feature values "
    "kept / left out / made explicit.  Load arguments: no type system (embedded declarations only) or the original one, "
    "merge_typesystem on / off.  A case is non-trivial when its document has >= 2 feature structures besides sofas or >= 2 sofas."
)
TRUSTED = [
    "Coq 8.16.1 kernel and vm_compute; theorems of coq/PropsJson.v (from JsonLoadProofs.v / JsonProofs2.v), all closed under the "
    "global context: C05_json_load_is_denotation (doc_ok_json d, denote_json d = Ok cc => load_json d = Ok (with_initial_view "
    "cc)), C05_json_presentation_invariant over same_content with the instances C05_json_fs_order / _dict_form / "
    "_member_order / _document_member_order / _view_order and C05_json_presentations_compose, "
    "C05_json_load_presentation_invariant",
    "models coq/JsonDoc.v (denote_json = what a document describes; with_initial_view), coq/Json.v (load_json: sofa-first pass, "
    "byte-array pre-fetch, second pass, deferred fix-ups, initial-view rule, %VIEWS pass)",
    "stdlib json as text <-> abstract JSON (harness/jsonabs.py parse / emit; string escaping is json.dumps on single strings)",
    "harness/jsonabs.present / nulls: the independent writer of presentation variants (knows only: entries, ids, which "
    "entries are sofas)",
    "harness/scen.py canonical observation of the loaded CAS (identity-based traversal, public API)",
    "for fixtures the schema handed to the Coq reader is read from the loaded TypeSystem through the public API "
    "(all_features order); for generated documents it is computed from the scenario (scen.schema_of)",
    "oracle: one Python object per id in every loaded CAS (identity), canon(variant) == canon(original) and "
    "jsonabs.py_denote(variant) (independent Python reading, own UTF-16 count, stdlib base64) == canon(variant)",
]
ASSUMPTIONS = list(C02.ASSUMPTIONS) + [
    "documents mention every sofa once, name an existing sofa in every %SOFA and feature structure in every reference "
    "(doc_ok_json); fixtures that break a value-kind rule (child_type_before_parent: a string in an Integer feature) are "
    "compared without the doc_ok_json premise",
    "feature structures of a document that are not reachable from an index or a sofa cannot be observed in the loaded CAS",
    "a document that files two entries under one id (fixture casWithFloatingPointSpecialValues) is only presented in array form",
]

FIX = os.path.join(os.environ.get("VERIF_REPO", "/repo"), "tests", "test_files", "json")
ORDERS = ["keep", "reverse", "shuffle"]


def fixtures():
    out = []
    for root, _dirs, files in sorted(os.walk(FIX)):
        for fn in sorted(files):
            if fn.endswith(".json"):
                out.append(os.path.relpath(os.path.join(root, fn), FIX))
    return out


def gen_variant(r, force=None):
    v = {"fs_form": r.choice(["list", "dict"]), "fs_order": r.choice(ORDERS + ["sofa_last", "sofa_last"]),
         "type_order": r.choice(ORDERS), "member_order": r.choice(ORDERS), "top_order": r.choice(ORDERS),
         "nulls": r.choice(["keep", "drop", "explicit", "explicit"]), "pretty": r.random() < 0.5, "ascii": r.random() < 0.5,
         "seed": r.randrange(1 << 30)}
    v.update(force or {})
    return v


def generate(rng, tier):
    n_own = {"quick": 48, "thorough": 300, "search": 600}[tier]
    fx = fixtures()
    k = 0
    for rep in range(2 if tier == "quick" else 4):
        for path in fx:
            r = random.Random(rng.randrange(1 << 30))
            yield {"src": {"kind": "fixture", "path": path},
                   "variants": [gen_variant(r, {"fs_form": "dict", "fs_order": "sofa_last"} if rep == 0 else {"fs_form": "list"}),
                                gen_variant(r), gen_variant(r, {"nulls": "explicit"})]}
    for k in range(n_own):
        sub = rng.randrange(1 << 30)
        sc = C02.make_scenario(sub, k)
        r = random.Random(sub ^ 0x5A5A)
        mode = ["FULL", "MINIMAL", "NONE"][k % 3]
        load = r.choice(C02.LOADS[mode])
        yield {"src": {"kind": "own", "tspec": sc["tspec"], "da_feats": sc["da_feats"], "cspec": sc["cspec"], "mode": mode},
               "load": load,
               "variants": [gen_variant(r, {"fs_form": "dict"}), gen_variant(r, {"fs_order": "sofa_last"}), gen_variant(r)]}


# ------------------------------------------------------------------------------------------------ driver


def schema_from_ts(ts):
    """name -> {"anc", "feats"} in scen.schema_of's shape, read from a TypeSystem through the public API."""
    out = {}
    for t in ts.get_types(built_in=True):
        anc, cur = [], t
        while cur is not None:
            anc.append(cur.name)
            cur = cur.supertype
        out[t.name] = {"anc": anc,
                       "feats": [(f.name, f.name[:-1] if f._has_reserved_name else f.name, f.rangeType.name,
                                  f.elementType.name if f.elementType is not None else None,
                                  bool(f.multipleReferencesAllowed)) for f in t.all_features]}
    return out


def _source(cassis, sc):
    """(abstract document, text of the document, typesystem factory, merge flag, schema or None)"""
    src = sc["src"]
    if src["kind"] == "fixture":
        p = os.path.join(FIX, src["path"])
        with open(p, "rb") as f:
            text = f.read().decode("utf-8")
        tsx = os.path.join(os.path.dirname(p), "typesystem.xml")

        def mk():
            if os.path.exists(tsx):
                with open(tsx, "rb") as f:
                    return cassis.load_typesystem(f)
            return None
        return J.parse(text), text, mk, True, None
    ts, cas, _views, _objs = C02.build(cassis, src)
    text = C02._to_json(cas, src["mode"], True, False, "str").decode("utf-8")
    ts_arg, merge = sc["load"]

    def mk():
        return C02.build_ts(cassis, src["tspec"], src["da_feats"]) if ts_arg == "orig" else None
    return J.parse(text), text, mk, merge, C02.schema2(cassis, src["tspec"], src["da_feats"])


def make_variant(doc, v, schema):
    d = J.nulls(doc, v["nulls"], schema)
    ids = [i for i, _m in J.entries(doc)]
    # a document that uses an id twice (fixture casWithFloatingPointSpecialValues: sofa 1 and structure 1) has no id-keyed form
    form = v["fs_form"] if len(set(ids)) == len(ids) else "list"
    return J.present(d, random.Random(v["seed"]), form, v["fs_order"], v["type_order"], v["member_order"],
                     top_order=v["top_order"])


def run_impl(cassis, sc):
    doc, text, mk_ts, merge, schema = _source(cassis, sc)
    loaded = cassis.load_cas_from_json(text, typesystem=mk_ts(), merge_typesystem=merge)
    # identity: one Python object per id (a byte array fetched ahead for a sofa must not be built a second time: d94ad6a)
    twice = sorted(i for i, n in C02.objects_per_id(loaded).items() if n > 1 and i is not None)
    obs = {"doc": doc, "twice": twice, "canon": None if twice else scen.canon(loaded, "json"), "variants": []}
    if schema is None:
        schema = schema_from_ts(loaded.typesystem)
        obs["schema"] = {n: {"anc": s["anc"], "feats": [list(f) for f in s["feats"]]} for n, s in schema.items()}
    for v in sc["variants"]:
        vdoc = make_variant(doc, v, schema)
        rec = {"doc": vdoc}
        try:
            vtext = J.emit(vdoc, pretty=v["pretty"], ensure_ascii=v["ascii"])
            vloaded = cassis.load_cas_from_json(vtext, typesystem=mk_ts(), merge_typesystem=merge)
            rec["twice"] = sorted(i for i, n in C02.objects_per_id(vloaded).items() if n > 1 and i is not None)
            if not rec["twice"]:
                rec["canon"] = scen.canon(vloaded, "json")
        except Exception as e:  # noqa
            rec["error"] = f"{type(e).__name__}: {e}"
        obs["variants"].append(rec)
    return obs


def _schema(cassis, sc, obs):
    if sc["src"]["kind"] == "own":
        return C02.schema2(cassis, sc["src"]["tspec"], sc["src"]["da_feats"])
    return {n: {"anc": s["anc"], "feats": [tuple(f) for f in s["feats"]]} for n, s in obs["schema"].items()}


def _with_initial(cc):
    """every CAS has _InitialView: a document that does not mention it describes one where that view is empty"""
    if any(s["name"] == "_InitialView" for s in cc["sofas"]):
        return cc
    ids = [s["id"] for s in cc["sofas"]] + [int(i) for i in cc["fs"]]
    nums = [s["num"] for s in cc["sofas"]]
    extra = {"id": max(ids + [0]) + 1, "num": max(nums + [0]) + 1, "name": "_InitialView", "text": None, "mime": None,
             "uri": None, "arr": None, "members": []}
    return {"sofas": sorted(cc["sofas"] + [extra], key=lambda s: s["id"]), "fs": cc["fs"]}


def _reachable_only(den, loaded):
    """a structure of the document that no index, reference or sofa leads to cannot be observed after loading"""
    keep = {int(i) for i in loaded["fs"]}
    return {"sofas": den["sofas"], "fs": {i: d for i, d in den["fs"].items() if int(i) in keep}}


def oracle(cassis, sc, obs):
    if obs.get("twice"):
        return (f"sharing lost: the loaded CAS holds several objects under one id {obs['twice']} (an entry the document lists "
                f"once -- a sofa byte array also held by another sofa, a view or a feature -- was built twice)")
    for v, rec in zip(sc["variants"], obs["variants"]):
        if rec.get("twice"):
            tag = {k: v[k] for k in ("fs_form", "fs_order", "member_order", "nulls")}
            return (f"sharing lost in presentation variant {tag}: several objects under one id {rec['twice']} (an entry listed "
                    f"once was built twice)")
    schema = _schema(cassis, sc, obs)
    want = obs["canon"]
    try:
        den0 = _with_initial(J.py_denote(schema, obs["doc"]))
    except Exception as e:  # noqa
        return f"the document cannot be read by the independent reader ({type(e).__name__}: {e})"
    d = J.canon_diff(den0, want) if sc["src"]["kind"] == "own" else J.canon_diff(_reachable_only(den0, want), want)
    if d:
        return "loaded CAS differs from what the document describes: " + d
    for v, rec in zip(sc["variants"], obs["variants"]):
        tag = {k: v[k] for k in ("fs_form", "fs_order", "type_order", "member_order", "top_order", "nulls", "pretty", "ascii")}
        if "error" in rec:
            return f"presentation variant {tag} could not be loaded: {rec['error']}"
        d = J.canon_diff(want, rec["canon"])
        if d:
            return f"presentation variant {tag} loads differently: {d}"
        try:
            den = _with_initial(J.py_denote(schema, rec["doc"]))
        except Exception as e:  # noqa
            return f"presentation variant {tag} cannot be read by the independent reader ({type(e).__name__}: {e})"
        if J.canon_diff(den0, den):
            return f"harness error: the variant {tag} describes another CAS: {J.canon_diff(den0, den)}"
    return None


def render(sc, obs):
    import cassis
    if obs.get("canon") is None or any("canon" not in rec for rec in obs["variants"]):
        return None
    schema = _schema(cassis, sc, obs)
    src = sc["src"]
    if src["kind"] == "own":
        names = [t["name"] for t in src["tspec"]] + ([C02.DA] if src["da_feats"] else [])
        strict, embedded = True, sc["load"][0] == "absent"
    else:
        bt = scen.builtin_table(cassis)
        names = [n for n in schema if n not in bt or n == C02.DA]
        strict, embedded = False, not os.path.exists(os.path.join(os.path.dirname(os.path.join(FIX, src["path"])), "typesystem.xml"))
    vs = "[" + ";\n ".join(f"({J.gallina(rec['doc'])}, {scen.g_ccas(rec['canon'])})" for rec in obs["variants"]) + "]"
    t = (f"mkCase05 {scen.g_schema(schema, names)} {'true' if strict else 'false'} {'true' if embedded else 'false'}\n"
         f" ({J.gallina(obs['doc'])})\n ({scen.g_ccas(obs['canon'])})\n {vs} true")
    return t.replace("%string", "")


def nontrivial(sc):
    if sc["src"]["kind"] == "own":
        return C02.nontrivial({"cspec": sc["src"]["cspec"]}) or len(sc["src"]["cspec"]["views"]) >= 2
    return True


def shrink_candidates(sc):
    if len(sc["variants"]) > 1:
        for i in range(len(sc["variants"])):
            c = copy.deepcopy(sc)
            c["variants"] = [c["variants"][i]]
            yield c
    if sc["src"]["kind"] == "own":
        inner = {"tspec": sc["src"]["tspec"], "da_feats": sc["src"]["da_feats"], "cspec": sc["src"]["cspec"]}
        for c in C02.shrink_candidates(inner):
            out = copy.deepcopy(sc)
            out["src"].update(c)
            yield out
    # one presentation knob back to neutral at a time
    for i, v in enumerate(sc["variants"]):
        for k, neutral in (("member_order", "keep"), ("type_order", "keep"), ("top_order", "keep"), ("nulls", "keep"),
                           ("fs_order", "keep"), ("fs_form", "list"), ("pretty", False), ("ascii", False)):
            if v[k] != neutral:
                c = copy.deepcopy(sc)
                c["variants"][i][k] = neutral
                yield c


def signature(sc, msg):
    return {"what": (msg or "").split(":")[0].split("{")[0].strip()[:60]}
