"""C05, JSON half (sub-suite "json" of harness/props/C05.py): loading a JSON-CAS document depends on what it says, not on
how it is laid out.  Documents: cassis' own to_json output on the scenarios of C02, and the repository fixtures
tests/test_files/json/** lifted by harness/jsonabs.py (stdlib json).  Presentation variants come from jsonabs' dumb
writer; every variant is loaded by load_cas_from_json and observed by scen.canon."""
import copy
import json
import os
import random

from harness import jsonabs as J
from harness import scen
from harness.props import C02

ID = "C05json"
SUITE = "json"
COQ_TARGETS = ["JsonDoc.vo", "Json.vo", "JsonProofs.vo", "JsonProofs2.vo", "JsonLoadProofs.vo", "JsonLex.vo", "CorrC02.vo", "JsonViewOmit.vo", "JsonViewOmitProofs.vo", "CorrC05json.vo", "Props/C02.vo", "PropsJson.vo"]
CORR_IMPORTS = "Base Heap Schema Canon Reach JsonDoc Json CorrC02 CorrC05json"
OPEN_SCOPES = ["string_scope", "list_scope", "Z_scope"]
CASE_TYPE, CHECK_FN, PREMISES_FN = "case05", "check_case05", "premises05"
SHARD_BYTES = 170_000
CASES_PER_SHARD = 40
CASE_TIMEOUT_S = 40
ENTRY = "cassis.json.load_cas_from_json / CasJsonDeserializer.deserialize"
RULE = (
    "JSON sub-suite of C05.  Documents: (a) what cassis itself writes (type_system_mode FULL / MINIMAL / NONE) for the "
    "scenarios of C02 — random type systems, 1-3 views with ASCII/BMP/astral text (UTF-16 offsets differ from code point "
    "offsets), mime types, sofa URI / byte arrays (also shared by two sofas, indexed in a view, referenced by a feature or an "
    "FSArray element: the reader fetches such an array ahead of its turn and must not build it a second time), shared and "
    "unshared collections, null elements, special floats, "
    "extended DocumentAnnotation; (b) all 14 JSON fixtures of tests/test_files/json (with typesystem.xml where present), "
    "each twice; (c) documents written by hand (HAND: what a foreign writer may produce and neither cassis' writer nor the "
    "fixtures do -- views without members listed in %VIEWS or left out, the initial view among them, with and without text; "
    "sofa ids / sofaNums that are not 1..n; no _InitialView sofa at all; the abbreviated spellings \"Inf\" / \"-Inf\" of the "
    "infinite Float / Double values as '#' members and as FloatArray / DoubleArray elements, next to String values that "
    "read the same).  Every document is presented in 3 variants by the harness's own writer: %FEATURE_STRUCTURES as array or as "
    "id-keyed object, FS order kept / reversed / shuffled / sofas last (forward references to sofas and to sofa byte "
    "arrays), %TYPES declaration order and feature declaration order kept / reversed / shuffled, member order of every "
    "object and of the document kept / reversed / shuffled, pretty or compact, ensure_ascii or not, null feature values "
    "kept / left out / made explicit, %VIEWS entries of member-less views kept / all left out / some left out (the clause "
    "'omission of empty views'), infinite Float / Double values spelled as in the document / abbreviated / in full / mixed "
    "(the clause 'float literals ... under the JSON-CAS rules').  Load arguments: no type system (embedded declarations only) or the original one, "
    "merge_typesystem on / off.  A case is non-trivial when its document has >= 2 feature structures besides sofas or >= 2 sofas."
)
TRUSTED = [
    "Coq 8.16.1 kernel and vm_compute; theorems of coq/PropsJson.v (from JsonLoadProofs.v / JsonProofs2.v), all closed under the "
    "global context: C05_json_load_is_denotation (doc_ok_json d, denote_json d = Ok cc => load_json d = Ok (with_initial_view "
    "cc)), C05_json_presentation_invariant over same_content with the instances C05_json_fs_order / _dict_form / "
    "_member_order / _document_member_order / _view_order and C05_json_presentations_compose, "
    "C05_json_load_presentation_invariant; and of coq/JsonViewOmitProofs.v: C05_json_empty_views_denote / _load (restore_views "
    "d describes and loads like d), C05_json_load_is_denotation_omitted (doc_ok_json (restore_views d) suffices), "
    "C05_json_empty_views_omitted (a writer may leave out any choice of the entries of member-less views)",
    "models coq/JsonDoc.v (denote_json = what a document describes; with_initial_view), coq/Json.v (load_json: sofa-first pass, "
    "byte-array pre-fetch, second pass, deferred fix-ups, initial-view rule, %VIEWS pass)",
    "stdlib json as text <-> abstract JSON (harness/jsonabs.py parse / emit; string escaping is json.dumps on single strings)",
    "harness/jsonabs.present / nulls and omit_views / respell_specials of this module: the independent writer of presentation "
    "variants (knows only: entries, ids, which entries are sofas, which %VIEWS entries have no members, which members carry "
    "the '#' prefix, which entries are Float/DoubleArrays)",
    "harness/scen.py canonical observation of the loaded CAS (identity-based traversal, public API)",
    "for fixtures the schema handed to the Coq reader is read from the loaded TypeSystem through the public API "
    "(all_features order); for generated documents it is computed from the scenario (scen.schema_of)",
    "oracle: one Python object per id in every loaded CAS (identity), canon(variant) == canon(original) and "
    "jsonabs.py_denote(variant) (independent Python reading, own UTF-16 count, stdlib base64) == canon(variant)",
]
ASSUMPTIONS = list(C02.ASSUMPTIONS) + [
    "documents mention every sofa once, name an existing sofa in every %SOFA and feature structure in every reference "
    "(doc_ok_json, asked of the document with the %VIEWS entries of its member-less views written out: restore_views); fixtures that break a value-kind rule (child_type_before_parent: a string in an Integer feature) are "
    "compared without the doc_ok_json premise",
    "feature structures of a document that are not reachable from an index or a sofa cannot be observed in the loaded CAS",
    "a document that files two entries under one id (fixture casWithFloatingPointSpecialValues) is only presented in array form",
]

FIX = os.path.join(os.environ.get("VERIF_REPO", "/repo"), "tests", "test_files", "json")
ORDERS = ["keep", "reverse", "shuffle"]
# %VIEWS entries of member-less views: kept / all left out / a random subset left out
VIEW_KNOB = ["keep", "omit_empty", "omit_empty", "omit_some"]
# spelling of the infinite Float / Double values ('#' members, elements of Float/DoubleArray): as in the document /
# abbreviated ("Inf", "-Inf") / in full ("Infinity", "-Infinity") / either, drawn per occurrence
SPECIAL_KNOB = ["keep", "abbr", "abbr", "full", "mixed"]


def _t(name, sup, **feats):
    d = {"%NAME": name, "%SUPER_TYPE": sup}
    for f, rng in feats.items():
        d[f] = {"%NAME": f, "%RANGE": rng}
    return d


def _sofa(i, num, name, text=None, mime=None):
    d = {"%ID": i, "%TYPE": "uima.cas.Sofa", "sofaNum": num, "sofaID": name}
    if mime is not None:
        d["mimeType"] = mime
    if text is not None:
        d["sofaString"] = text
    return d


_TOK = {"test.Tok": _t("test.Tok", "uima.tcas.Annotation", score="uima.cas.Double", weight="uima.cas.Float")}
_MEASURE = {"test.Measure": _t("test.Measure", "uima.cas.TOP", low="uima.cas.Double", high="uima.cas.Float",
                               values="uima.cas.DoubleArray", fvalues="uima.cas.FloatArray", label="uima.cas.String")}
# Documents written by hand (what a foreign writer may produce and neither cassis' writer nor the fixtures do): views
# without members (listed in %VIEWS or left out, the initial view among them), sofa ids / sofaNums that are not 1..n, no
# _InitialView sofa at all, the abbreviated spellings "Inf" / "-Inf" of the infinite Float / Double values.
HAND = {
    # all annotations live in the second view; the (text-bearing) initial view has no members
    "initial_view_empty_listed": {
        "%TYPES": _TOK,
        "%FEATURE_STRUCTURES": [
            _sofa(4, 2, "_InitialView", "Hello", "text/plain"), _sofa(9, 5, "other", "a\U0001F600bc wide", "text/plain"),
            {"%ID": 11, "%TYPE": "test.Tok", "@sofa": 9, "begin": 0, "end": 3, "score": 1.5},
            {"%ID": 12, "%TYPE": "test.Tok", "@sofa": 9, "begin": 3, "end": 5, "#score": "-Inf", "#weight": "Inf"}],
        "%VIEWS": {"_InitialView": {"%SOFA": 4, "%MEMBERS": []}, "other": {"%SOFA": 9, "%MEMBERS": [11, 12]}}},
    # the same layout with the entry of the empty initial view left out by the foreign writer itself
    "initial_view_empty_omitted": {
        "%TYPES": _TOK,
        "%FEATURE_STRUCTURES": [
            {"%ID": 3, "%TYPE": "test.Tok", "@sofa": 2, "begin": 0, "end": 5, "#score": "NaN"},
            _sofa(2, 2, "other", "World wide", "text/plain"), _sofa(1, 1, "_InitialView", "Hello", "text/plain")],
        "%VIEWS": {"other": {"%SOFA": 2, "%MEMBERS": [3]}}},
    # three views, two of them without members (one of these without any sofa data)
    "two_empty_views": {
        "%TYPES": _TOK,
        "%FEATURE_STRUCTURES": [
            _sofa(1, 1, "_InitialView", "one two", "text/plain"), _sofa(7, 3, "b", "x", "text/html"), _sofa(5, 2, "c"),
            {"%ID": 8, "%TYPE": "test.Tok", "@sofa": 1, "begin": 4, "end": 7, "weight": 0.25}],
        "%VIEWS": {"c": {"%SOFA": 5, "%MEMBERS": []}, "_InitialView": {"%SOFA": 1, "%MEMBERS": [8]},
                   "b": {"%SOFA": 7, "%MEMBERS": []}}},
    # no _InitialView sofa: the view every CAS has takes the next id and the next sofaNum; the named view is empty too
    "no_initial_view": {
        "%TYPES": _MEASURE,
        "%FEATURE_STRUCTURES": [
            _sofa(5, 3, "named", "abc", "text/plain"), _sofa(6, 4, "filled"),
            {"%ID": 9, "%TYPE": "test.Measure", "label": "Inf", "#low": "Infinity", "high": 2.5}],
        "%VIEWS": {"named": {"%SOFA": 5, "%MEMBERS": []}, "filled": {"%SOFA": 6, "%MEMBERS": [9]}}},
    # the infinite values in their abbreviated spelling, as feature values and as array elements
    "specials_abbreviated": {
        "%TYPES": _MEASURE,
        "%FEATURE_STRUCTURES": [
            _sofa(1, 1, "_InitialView"),
            {"%ID": 2, "%TYPE": "test.Measure", "#low": "-Inf", "#high": "Inf", "@values": 3, "@fvalues": 4, "label": "-Inf"},
            {"%ID": 3, "%TYPE": "uima.cas.DoubleArray", "%ELEMENTS": [1.5, "-Inf", "Inf", "NaN"]},
            {"%ID": 4, "%TYPE": "uima.cas.FloatArray", "%ELEMENTS": ["Inf", 0.5, "-Infinity", "-Inf", "Infinity"]},
            {"%ID": 5, "%TYPE": "uima.cas.StringArray", "%ELEMENTS": ["Infinity", "-Inf", "NaN"]}],
        "%VIEWS": {"_InitialView": {"%SOFA": 1, "%MEMBERS": [2, 5]}}},
    # one special value per spelling, negative values only abbreviated, positive ones only in full and vice versa
    "specials_one_sided": {
        "%TYPES": _MEASURE,
        "%FEATURE_STRUCTURES": [
            _sofa(1, 1, "_InitialView", "t"),
            {"%ID": 2, "%TYPE": "test.Measure", "#low": "-Inf", "#high": "Infinity"},
            {"%ID": 3, "%TYPE": "test.Measure", "#low": "Inf", "#high": "-Infinity", "@values": 4},
            {"%ID": 4, "%TYPE": "uima.cas.DoubleArray", "%ELEMENTS": ["-Inf"]}],
        "%VIEWS": {"_InitialView": {"%SOFA": 1, "%MEMBERS": [2, 3]}}},
}


def fixtures():
    out = []
    for root, _dirs, files in sorted(os.walk(FIX)):
        for fn in sorted(files):
            if fn.endswith(".json"):
                out.append(os.path.relpath(os.path.join(root, fn), FIX))
    return out


def gen_variant(r, force=None):
    v = {"fs_form": r.choice(["list", "dict"]), "fs_order": r.choice(ORDERS + ["sofa_last", "sofa_last"]),
         "type_order": r.choice(ORDERS), "member_order": r.choice(ORDERS), "top_order": r.choice(ORDERS),
         "nulls": r.choice(["keep", "drop", "explicit", "explicit"]), "pretty": r.random() < 0.5, "ascii": r.random() < 0.5,
         "seed": r.randrange(1 << 30)}
    # drawn after the older knobs so that those keep their values for a given seed
    v["views"] = r.choice(VIEW_KNOB)
    v["specials"] = r.choice(SPECIAL_KNOB)
    v.update(force or {})
    return v


def generate(rng, tier):
    n_own = {"quick": 48, "thorough": 300, "search": 600}[tier]
    fx = fixtures()
    k = 0
    for rep in range(2 if tier == "quick" else 4):
        for path in fx:
            r = random.Random(rng.randrange(1 << 30))
            yield {"src": {"kind": "fixture", "path": path},
                   "variants": [gen_variant(r, {"fs_form": "dict", "fs_order": "sofa_last", "views": "omit_empty"} if rep == 0
                                            else {"fs_form": "list", "specials": "abbr"}),
                                gen_variant(r), gen_variant(r, {"nulls": "explicit"})]}
    for rep in range(2 if tier == "quick" else 6):
        for name in sorted(HAND):
            r = random.Random(rng.randrange(1 << 30))
            # the first round pins the two new knobs, the later rounds draw everything
            forced = [{"views": "omit_empty", "specials": "keep"}, {"views": "keep", "specials": "abbr"},
                      {"views": "omit_some", "specials": "full"}] if rep == 0 else [None, None, {"specials": "mixed"}]
            yield {"src": {"kind": "hand", "name": name}, "variants": [gen_variant(r, f) for f in forced]}
    for k in range(n_own):
        sub = rng.randrange(1 << 30)
        sc = C02.make_scenario(sub, k)
        r = random.Random(sub ^ 0x5A5A)
        mode = ["FULL", "MINIMAL", "NONE"][k % 3]
        load = r.choice(C02.LOADS[mode])
        yield {"src": {"kind": "own", "tspec": sc["tspec"], "da_feats": sc["da_feats"], "cspec": sc["cspec"], "mode": mode},
               "load": load,
               "variants": [gen_variant(r, {"fs_form": "dict"}), gen_variant(r, {"fs_order": "sofa_last"}), gen_variant(r)]}


# ------------------------------------------------------------------------------------------------ driver


def schema_from_ts(ts):
    """name -> {"anc", "feats"} in scen.schema_of's shape, read from a TypeSystem through the public API."""
    out = {}
    for t in ts.get_types(built_in=True):
        anc, cur = [], t
        while cur is not None:
            anc.append(cur.name)
            cur = cur.supertype
        out[t.name] = {"anc": anc,
                       "feats": [(f.name, f.name[:-1] if f._has_reserved_name else f.name, f.rangeType.name,
                                  f.elementType.name if f.elementType is not None else None,
                                  bool(f.multipleReferencesAllowed)) for f in t.all_features]}
    return out


def _source(cassis, sc):
    """(abstract document, text of the document, typesystem factory, merge flag, schema or None)"""
    src = sc["src"]
    if src["kind"] == "fixture":
        p = os.path.join(FIX, src["path"])
        with open(p, "rb") as f:
            text = f.read().decode("utf-8")
        tsx = os.path.join(os.path.dirname(p), "typesystem.xml")

        def mk():
            if os.path.exists(tsx):
                with open(tsx, "rb") as f:
                    return cassis.load_typesystem(f)
            return None
        return J.parse(text), text, mk, True, None
    if src["kind"] == "hand":
        text = json.dumps(HAND[src["name"]])
        return J.parse(text), text, (lambda: None), True, None
    ts, cas, _views, _objs = C02.build(cassis, src)
    text = C02._to_json(cas, src["mode"], True, False, "str").decode("utf-8")
    ts_arg, merge = sc["load"]

    def mk():
        return C02.build_ts(cassis, src["tspec"], src["da_feats"]) if ts_arg == "orig" else None
    return J.parse(text), text, mk, merge, C02.schema2(cassis, src["tspec"], src["da_feats"])


def _sofa_names(doc):
    return {J._mget(m, "sofaID")[1] for _i, m in J.entries(doc) if J._is_sofa(m) and J._mget(m, "sofaID")}


def omit_views(doc, how, rng):
    """The %VIEWS entry of a view without members says nothing the Sofa entry does not say: leave such entries out (all of
    them / a random subset).  Only views whose sofa the document lists; presentation only."""
    if how == "keep":
        return doc
    names = _sofa_names(doc)

    def drop(name, v):
        mem = J.get(v, "%MEMBERS")
        return name in names and mem == ("arr", []) and (how == "omit_empty" or rng.random() < 0.6)
    return ("obj", [(k, ("obj", [(n, v) for n, v in val[1] if not drop(n, v)]) if k == J.VIEWS and val[0] == "obj" else val)
                    for k, val in doc[1]])


_ABBR = {"Infinity": "Inf", "-Infinity": "-Inf"}
_FULL = {b: a for a, b in _ABBR.items()}


def respell_specials(doc, how, rng):
    """JSON-CAS spells an infinite Float / Double value "Infinity" / "-Infinity" or, abbreviated, "Inf" / "-Inf" -- in the
    members that carry the '#' prefix and in the %ELEMENTS of a FloatArray / DoubleArray (strings elsewhere are strings)."""
    if how == "keep":
        return doc
    fs = J.get(doc, J.FS)
    if fs is None:
        return doc

    def sp(x):
        if x[0] != "str" or (x[1] not in _ABBR and x[1] not in _FULL):
            return x
        table = {"abbr": _ABBR, "full": _FULL, "mixed": rng.choice([_ABBR, _FULL])}[how]
        return ("str", table.get(x[1], x[1]))

    def one(m):
        t = J._mget(m, "%TYPE")
        if t in (("str", "uima.cas.FloatArray"), ("str", "uima.cas.DoubleArray")):
            return [(k, ("arr", [sp(e) for e in x[1]]) if k == "%ELEMENTS" and x[0] == "arr" else x) for k, x in m]
        return [(k, sp(x) if k.startswith("#") else x) for k, x in m]

    if fs[0] == "arr":
        new = ("arr", [("obj", one(e[1])) if e[0] == "obj" else e for e in fs[1]])
    else:
        new = ("obj", [(k, ("obj", one(e[1])) if e[0] == "obj" else e) for k, e in fs[1]])
    return ("obj", [(k, new if k == J.FS else v) for k, v in doc[1]])


def make_variant(doc, v, schema):
    d = J.nulls(doc, v["nulls"], schema)
    rk = random.Random(v["seed"] ^ 0x0E17)      # its own stream: the older knobs keep their draws
    d = respell_specials(d, v.get("specials", "keep"), rk)
    d = omit_views(d, v.get("views", "keep"), rk)
    ids = [i for i, _m in J.entries(doc)]
    # a document that uses an id twice (fixture casWithFloatingPointSpecialValues: sofa 1 and structure 1) has no id-keyed form
    form = v["fs_form"] if len(set(ids)) == len(ids) else "list"
    return J.present(d, random.Random(v["seed"]), form, v["fs_order"], v["type_order"], v["member_order"],
                     top_order=v["top_order"])


def run_impl(cassis, sc):
    doc, text, mk_ts, merge, schema = _source(cassis, sc)
    try:
        loaded = cassis.load_cas_from_json(text, typesystem=mk_ts(), merge_typesystem=merge)
    except Exception as e:  # noqa -- every source document is loadable; the oracle reports it
        return {"doc": doc, "error": f"{type(e).__name__}: {e}", "variants": []}
    # identity: one Python object per id (a byte array fetched ahead for a sofa must not be built a second time: d94ad6a)
    twice = sorted(i for i, n in C02.objects_per_id(loaded).items() if n > 1 and i is not None)
    obs = {"doc": doc, "twice": twice, "canon": None if twice else scen.canon(loaded, "json"), "variants": []}
    if schema is None:
        schema = schema_from_ts(loaded.typesystem)
        obs["schema"] = {n: {"anc": s["anc"], "feats": [list(f) for f in s["feats"]]} for n, s in schema.items()}
    for v in sc["variants"]:
        vdoc = make_variant(doc, v, schema)
        rec = {"doc": vdoc}
        try:
            vtext = J.emit(vdoc, pretty=v["pretty"], ensure_ascii=v["ascii"])
            vloaded = cassis.load_cas_from_json(vtext, typesystem=mk_ts(), merge_typesystem=merge)
            rec["twice"] = sorted(i for i, n in C02.objects_per_id(vloaded).items() if n > 1 and i is not None)
            if not rec["twice"]:
                rec["canon"] = scen.canon(vloaded, "json")
        except Exception as e:  # noqa
            rec["error"] = f"{type(e).__name__}: {e}"
        obs["variants"].append(rec)
    return obs


def _schema(cassis, sc, obs):
    if sc["src"]["kind"] == "own":
        return C02.schema2(cassis, sc["src"]["tspec"], sc["src"]["da_feats"])
    return {n: {"anc": s["anc"], "feats": [tuple(f) for f in s["feats"]]} for n, s in obs["schema"].items()}


def _with_initial(cc):
    """every CAS has _InitialView: a document that does not mention it describes one where that view is empty"""
    if any(s["name"] == "_InitialView" for s in cc["sofas"]):
        return cc
    ids = [s["id"] for s in cc["sofas"]] + [int(i) for i in cc["fs"]]
    nums = [s["num"] for s in cc["sofas"]]
    extra = {"id": max(ids + [0]) + 1, "num": max(nums + [0]) + 1, "name": "_InitialView", "text": None, "mime": None,
             "uri": None, "arr": None, "members": []}
    return {"sofas": sorted(cc["sofas"] + [extra], key=lambda s: s["id"]), "fs": cc["fs"]}


def _reachable_only(den, loaded):
    """a structure of the document that no index, reference or sofa leads to cannot be observed after loading"""
    keep = {int(i) for i in loaded["fs"]}
    return {"sofas": den["sofas"], "fs": {i: d for i, d in den["fs"].items() if int(i) in keep}}


def oracle(cassis, sc, obs):
    if "error" in obs:
        return f"the document could not be loaded: {obs['error']}"
    if obs.get("twice"):
        return (f"sharing lost: the loaded CAS holds several objects under one id {obs['twice']} (an entry the document lists "
                f"once -- a sofa byte array also held by another sofa, a view or a feature -- was built twice)")
    for v, rec in zip(sc["variants"], obs["variants"]):
        if rec.get("twice"):
            tag = {k: v[k] for k in ("fs_form", "fs_order", "member_order", "nulls")}
            return (f"sharing lost in presentation variant {tag}: several objects under one id {rec['twice']} (an entry listed "
                    f"once was built twice)")
    schema = _schema(cassis, sc, obs)
    want = obs["canon"]
    try:
        den0 = _with_initial(J.py_denote(schema, obs["doc"]))
    except Exception as e:  # noqa
        return f"the document cannot be read by the independent reader ({type(e).__name__}: {e})"
    d = J.canon_diff(den0, want) if sc["src"]["kind"] in ("own", "hand") else J.canon_diff(_reachable_only(den0, want), want)
    if d:
        return "loaded CAS differs from what the document describes: " + d
    for v, rec in zip(sc["variants"], obs["variants"]):
        tag = {k: v.get(k) for k in ("fs_form", "fs_order", "type_order", "member_order", "top_order", "nulls", "views",
                                     "specials", "pretty", "ascii")}
        if "error" in rec:
            return f"presentation variant {tag} could not be loaded: {rec['error']}"
        d = J.canon_diff(want, rec["canon"])
        if d:
            return f"presentation variant {tag} loads differently: {d}"
        try:
            den = _with_initial(J.py_denote(schema, rec["doc"]))
        except Exception as e:  # noqa
            return f"presentation variant {tag} cannot be read by the independent reader ({type(e).__name__}: {e})"
        if J.canon_diff(den0, den):
            return f"harness error: the variant {tag} describes another CAS: {J.canon_diff(den0, den)}"
    return None


def render(sc, obs):
    import cassis
    if obs.get("canon") is None or any("canon" not in rec for rec in obs["variants"]):
        return None
    schema = _schema(cassis, sc, obs)
    src = sc["src"]
    if src["kind"] == "own":
        names = [t["name"] for t in src["tspec"]] + ([C02.DA] if src["da_feats"] else [])
        strict, embedded = True, sc["load"][0] == "absent"
    elif src["kind"] == "hand":
        bt = scen.builtin_table(cassis)
        names = [n for n in schema if n not in bt or n == C02.DA]
        strict, embedded = True, True
    else:
        bt = scen.builtin_table(cassis)
        names = [n for n in schema if n not in bt or n == C02.DA]
        strict, embedded = False, not os.path.exists(os.path.join(os.path.dirname(os.path.join(FIX, src["path"])), "typesystem.xml"))
    vs = "[" + ";\n ".join(f"({J.gallina(rec['doc'])}, {scen.g_ccas(rec['canon'])})" for rec in obs["variants"]) + "]"
    t = (f"mkCase05 {scen.g_schema(schema, names)} {'true' if strict else 'false'} {'true' if embedded else 'false'}\n"
         f" ({J.gallina(obs['doc'])})\n ({scen.g_ccas(obs['canon'])})\n {vs} true")
    return t.replace("%string", "")


def nontrivial(sc):
    if sc["src"]["kind"] == "own":
        return C02.nontrivial({"cspec": sc["src"]["cspec"]}) or len(sc["src"]["cspec"]["views"]) >= 2
    return True


def shrink_candidates(sc):
    if len(sc["variants"]) > 1:
        for i in range(len(sc["variants"])):
            c = copy.deepcopy(sc)
            c["variants"] = [c["variants"][i]]
            yield c
    if sc["src"]["kind"] == "own":
        inner = {"tspec": sc["src"]["tspec"], "da_feats": sc["src"]["da_feats"], "cspec": sc["src"]["cspec"]}
        for c in C02.shrink_candidates(inner):
            out = copy.deepcopy(sc)
            out["src"].update(c)
            yield out
    # one presentation knob back to neutral at a time
    for i, v in enumerate(sc["variants"]):
        for k, neutral in (("member_order", "keep"), ("type_order", "keep"), ("top_order", "keep"), ("nulls", "keep"),
                           ("fs_order", "keep"), ("fs_form", "list"), ("pretty", False), ("ascii", False),
                           ("views", "keep"), ("specials", "keep")):
            if v.get(k, neutral) != neutral:
                c = copy.deepcopy(sc)
                c["variants"][i][k] = neutral
                yield c


def signature(sc, msg):
    return {"what": (msg or "").split(":")[0].split("{")[0].strip()[:60]}
